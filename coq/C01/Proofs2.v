(* C01: advertised order, count, vector placement, tuples, derived values, routes. *)
From Coq Require Import List String Bool Arith PeanoNat Lia Permutation Sorted.
From PAFC01 Require Import ModelTree Sorting Proofs.
Import ListNotations.
Local Open Scope string_scope.
Local Open Scope list_scope.

Section P2.
  Variable V : Type.
  Variable bin : binop -> V -> V -> V.
  Variable un : unop -> V -> V.
  Notation node := (node V).
  Notation ival := (ival V).

  Definition prior_ids (n : node) : list nat := map snd (walk V n).

  (* ---------- count and order ---------- *)
  Lemma unique_priors_keys (n : node) : forall q, In q (map fst (unique_priors V n)) <-> In q (prior_ids n).
  Proof.
    intro q. unfold unique_priors. rewrite dict_of_keys. rewrite map_map. simpl. unfold prior_ids. tauto.
  Qed.

  Lemma ordered_ids_strict (n : node) : StronglySorted lt (ordered_ids V n).
  Proof. unfold ordered_ids. apply strict_map_key. apply sort_by_strict. apply dict_of_nodup. Qed.

  Lemma ordered_ids_nodup (n : node) : NoDup (ordered_ids V n).
  Proof. apply strict_sorted_nodup. apply ordered_ids_strict. Qed.

  Lemma ordered_ids_in (n : node) : forall q, In q (ordered_ids V n) <-> In q (prior_ids n).
  Proof.
    intro q. unfold ordered_ids. rewrite <- unique_priors_keys.
    split; intro H.
    - apply (Permutation_in _ (Permutation_map fst (sort_by_perm fst (unique_priors V n)))). exact H.
    - apply (Permutation_in _ (Permutation_sym (Permutation_map fst (sort_by_perm fst (unique_priors V n))))). exact H.
  Qed.

  Lemma ordered_ids_length (n : node) : List.length (ordered_ids V n) = prior_count V n.
  Proof.
    unfold ordered_ids, prior_count. rewrite map_length.
    apply Permutation_length. apply sort_by_perm.
  Qed.

  (* ---------- the i-th advertised path is a path of the i-th parameter ---------- *)
  Lemma path_priors_in (n : node) (pq : path * nat) : In pq (path_priors V n) <-> In pq (walk V n).
  Proof.
    unfold path_priors. split; intro H.
    - apply (Permutation_in _ (sort_by_perm snd (walk V n))). exact H.
    - apply (Permutation_in _ (Permutation_sym (sort_by_perm snd (walk V n)))). exact H.
  Qed.

  Lemma unique_path_priors_ids (n : node) : map fst (unique_path_priors V n) = ordered_ids V n.
  Proof.
    apply strict_sorted_unique.
    - unfold unique_path_priors. apply strict_map_key. apply sort_by_strict. apply dict_of_nodup.
    - apply ordered_ids_strict.
    - intro q. rewrite ordered_ids_in. unfold unique_path_priors.
      split; intro H.
      + apply (Permutation_in _ (Permutation_map fst (sort_by_perm fst _))) in H.
        apply (proj1 (dict_of_keys _ _)) in H. rewrite map_map in H. simpl in H.
        apply in_map_iff in H. destruct H as [pq [<- Hpq]]. apply path_priors_in in Hpq.
        unfold prior_ids. apply in_map. exact Hpq.
      + apply (Permutation_in _ (Permutation_sym (Permutation_map fst (sort_by_perm fst _)))).
        apply (proj2 (dict_of_keys _ _)). rewrite map_map. simpl.
        unfold prior_ids in H. apply in_map_iff in H. destruct H as [pq [<- Hpq]].
        apply in_map_iff. exists pq. split; [reflexivity|]. apply path_priors_in. exact Hpq.
  Qed.

  Lemma unique_path_priors_advertised (n : node) (q : nat) (p : path) :
    In (q, p) (unique_path_priors V n) -> In (p, q) (walk V n).
  Proof.
    intro H. unfold unique_path_priors in H.
    apply (Permutation_in _ (sort_by_perm fst _)) in H. apply dict_of_in in H.
    apply in_map_iff in H. destruct H as [[p' q'] [E Hpq]]. simpl in E. inversion E; subst.
    apply path_priors_in. exact Hpq.
  Qed.

  Lemma ith_path (n : node) (i : nat) (dq : nat) (dp : path) :
    i < prior_count V n ->
    In (nth i (unique_prior_paths V n) dp, nth i (ordered_ids V n) dq) (walk V n).
  Proof.
    intro Hi. rewrite <- ordered_ids_length in Hi.
    rewrite <- unique_path_priors_ids in *. rewrite map_length in Hi. unfold unique_prior_paths.
    apply unique_path_priors_advertised.
    rewrite (nth_indep _ dp (snd (dq, dp))) by (rewrite map_length; exact Hi).
    rewrite (nth_indep (map fst _) dq (fst (dq, dp))) by (rewrite map_length; exact Hi).
    rewrite !map_nth. rewrite <- surjective_pairing. apply nth_In. exact Hi.
  Qed.

  (* ---------- physical vector: the i-th value goes to the i-th parameter ---------- *)
  Lemma zip_args_nth (ids : list nat) (vec : list V) (i : nat) (dq : nat) (dv : V) :
    NoDup ids -> List.length vec = List.length ids -> i < List.length ids ->
    zip_args V ids vec (nth i ids dq) = Some (nth i vec dv).
  Proof.
    revert vec i. induction ids as [|a ids IH]; intros vec i ND L Hi; simpl in Hi; [lia|].
    destruct vec as [|v vec]; simpl in L; [lia|].
    inversion ND as [|? ? Hnot ND']; subst.
    destruct i as [|i]; simpl.
    - rewrite Nat.eqb_refl. reflexivity.
    - destruct (Nat.eqb_spec (nth i ids dq) a) as [E|_].
      + exfalso. apply Hnot. rewrite <- E. apply nth_In. lia.
      + apply IH; auto; lia.
  Qed.

  Lemma vector_placement (n : node) (vec : list V) (i : nat) (p : path) (dq : nat) (dv : V) :
    List.length vec = prior_count V n -> i < prior_count V n ->
    node_at V p n = Some (NPrior (nth i (ordered_ids V n) dq)) ->
    lookup V p (inst_from_vector V bin un n vec) = Some (IV (nth i vec dv)).
  Proof.
    intros L Hi H. unfold inst_from_vector.
    rewrite (lookup_inst V bin un _ p n _ H). cbn [inst].
    rewrite (zip_args_nth _ vec i dq dv); [reflexivity|apply ordered_ids_nodup| |].
    - rewrite ordered_ids_length. exact L.
    - rewrite ordered_ids_length. exact Hi.
  Qed.

  (* fixed values are untouched, whatever the vector *)
  Lemma fixed_untouched (args : nat -> option V) (n : node) (p : path) (v : V) :
    node_at V p n = Some (NConst v) -> lookup V p (inst V bin un args n) = Some (IV v).
  Proof. intro H. rewrite (lookup_inst V bin un args p n _ H). reflexivity. Qed.

  (* derived (arithmetic) parameters are computed from the same assignment *)
  Fixpoint eval (args : nat -> option V) (n : node) : option V :=
    match n with
    | NPrior q => args q
    | NConst v => Some v
    | NBin o _ _ l r =>
        match eval args l, eval args r with
        | Some a, Some b => Some (bin o a b)
        | _, _ => None
        end
    | NUn o _ c =>
        match c with
        | NConst _ => None          (* a float operand has no instance_for_arguments: the code raises *)
        | _ => match eval args c with Some a => Some (un o a) | None => None end
        end
    | _ => None
    end.

  Lemma inst_eval (args : nat -> option V) (n : node) (v : V) :
    eval args n = Some v -> inst V bin un args n = IV v.
  Proof.
    revert v. induction n as [q|c|ms _|o ln rn l r IHl IHr|uo unm uc IHc|cls ctor attrs _|attrs _] using (node_ind' V);
      intros v H; simpl in H; try discriminate.
    - cbn [inst]. rewrite H. reflexivity.
    - inversion H; subst. reflexivity.
    - destruct (eval args l) as [a|] eqn:El; [|discriminate].
      destruct (eval args r) as [b|] eqn:Er; [|discriminate].
      inversion H; subst. cbn [inst]. rewrite (IHl a eq_refl), (IHr b eq_refl). reflexivity.
    - cbn [inst].
      destruct uc; try discriminate;
        (destruct (eval args _) as [a|] eqn:Ec in H; [|discriminate]; inversion H; subst;
         rewrite (IHc a Ec); reflexivity).
  Qed.

  Lemma derived_value (args : nat -> option V) (n : node) (p : path) (c : node) (v : V) :
    node_at V p n = Some c -> eval args c = Some v -> lookup V p (inst V bin un args n) = Some (IV v).
  Proof. intros H E. rewrite (lookup_inst V bin un args p n c H). rewrite (inst_eval args c v E). reflexivity. Qed.

  (* ---------- tuples: members in the order of their numeric position ---------- *)
  Definition member_vals (args : nat -> option V) (ms : list (string * (nat * node))) : list (nat * ival) :=
    sort_by fst (map (fun m => (fst (snd m), inst V bin un args (snd (snd m)))) ms).

  Lemma inst_tuple (args : nat -> option V) (ms : list (string * (nat * node))) :
    inst V bin un args (NTuple ms) = ITup (map snd (member_vals args ms)).
  Proof.
    cbn [inst]. f_equal. f_equal. unfold member_vals, sort_by.
    induction ms as [|[k [i c]] ms IH]; simpl; [reflexivity|]. rewrite IH. reflexivity.
  Qed.

  Lemma nodup_key_unique {B} (l : list (nat * B)) (a b : nat * B) :
    NoDup (map fst l) -> In a l -> In b l -> fst a = fst b -> a = b.
  Proof.
    induction l as [|x l IH]; intros ND Ia Ib E; [contradiction|].
    simpl in ND. inversion ND as [|? ? Hnot ND']; subst.
    destruct Ia as [Ea|Ia], Ib as [Eb|Ib].
    - congruence.
    - exfalso. apply Hnot. subst x. rewrite E. apply in_map. exact Ib.
    - exfalso. apply Hnot. subst x. rewrite <- E. apply in_map. exact Ia.
    - apply IH; assumption.
  Qed.

  Lemma sorted_seq_nth (l : list (nat * ival)) (k : nat) :
    StronglySorted (lt_key fst) l -> Permutation (map fst l) (seq 0 k) ->
    forall j d, j < k -> fst (nth j l d) = j.
  Proof.
    intros S P j d Hj.
    assert (E : map fst l = seq 0 k).
    { apply strict_sorted_unique.
      - apply strict_map_key. exact S.
      - clear. generalize 0. induction k as [|k IH]; intro s; simpl; constructor; [apply IH|].
        rewrite Forall_forall. intros x Hx. apply in_seq in Hx. lia.
      - intro x. split; intro H; [apply (Permutation_in _ P); exact H|apply (Permutation_in _ (Permutation_sym P)); exact H]. }
    assert (L : List.length l = k) by (rewrite <- (map_length fst), E, seq_length; reflexivity).
    rewrite <- (map_nth fst). rewrite (nth_indep _ (fst d) 0) by (rewrite map_length; lia).
    rewrite E. rewrite seq_nth by lia. reflexivity.
  Qed.

  (* a tuple whose members carry positions 0..k-1 (in any dictionary order) is built in position order *)
  Lemma tuple_in_position_order (args : nat -> option V) (ms : list (string * (nat * node))) (nm : string) (i : nat) (c : node) :
    Permutation (map (fun m => fst (snd m)) ms) (seq 0 (List.length ms)) ->
    In (nm, (i, c)) ms ->
    exists vs, inst V bin un args (NTuple ms) = ITup vs /\ List.length vs = List.length ms /\
               nth i vs IMissing = inst V bin un args c.
  Proof.
    intros P Hin. exists (map snd (member_vals args ms)). split; [apply inst_tuple|].
    assert (Pm : Permutation (member_vals args ms) (map (fun m => (fst (snd m), inst V bin un args (snd (snd m)))) ms))
      by apply sort_by_perm.
    assert (Len : List.length (member_vals args ms) = List.length ms)
      by (rewrite (Permutation_length Pm), map_length; reflexivity).
    split; [rewrite map_length; exact Len|].
    assert (Keys : Permutation (map fst (member_vals args ms)) (seq 0 (List.length ms))).
    { eapply Permutation_trans; [apply Permutation_map; exact Pm|]. rewrite map_map. simpl. exact P. }
    assert (ND : NoDup (map fst (member_vals args ms))).
    { apply (Permutation_NoDup (Permutation_sym Keys)). apply seq_NoDup. }
    assert (S : StronglySorted (lt_key fst) (member_vals args ms)).
    { unfold member_vals. apply sort_by_strict.
      apply (Permutation_NoDup (l := map fst (member_vals args ms))); [|exact ND].
      apply Permutation_map. exact Pm. }
    assert (Hi : i < List.length ms).
    { assert (In i (seq 0 (List.length ms))).
      { apply (Permutation_in _ P). apply in_map_iff. exists (nm, (i, c)). split; [reflexivity|exact Hin]. }
      apply in_seq in H. lia. }
    assert (In1 : In (i, inst V bin un args c) (member_vals args ms)).
    { apply (Permutation_in _ (Permutation_sym Pm)). apply in_map_iff. exists (nm, (i, c)). split; [reflexivity|exact Hin]. }
    set (e := nth i (member_vals args ms) (0, IMissing)).
    assert (Fe : fst e = i) by (apply (sorted_seq_nth _ (List.length ms) S Keys); exact Hi).
    assert (In2 : In e (member_vals args ms)) by (apply nth_In; rewrite Len; exact Hi).
    assert (Eq : e = (i, inst V bin un args c)).
    { apply (nodup_key_unique (member_vals args ms)); auto. }
    change IMissing with (snd (0, @IMissing V)). rewrite map_nth. fold e. rewrite Eq. reflexivity.
  Qed.

  (* ---------- routes: only the values of the model's own parameters matter ---------- *)
  Lemma walk_members_in (ms : list (string * (nat * node))) (k : string) (i : nat) (c : node) (q : nat) :
    In (k, (i, c)) ms -> In q (map snd (walk V c)) -> In q (prior_ids (NTuple ms)).
  Proof.
    intros Hin Hq. unfold prior_ids. cbn [walk].
    induction ms as [|[k' [i' c']] ms IH]; [contradiction|].
    rewrite map_app. apply in_or_app. destruct Hin as [E|Hin].
    - inversion E; subst. left. unfold prefix_paths. rewrite map_map. simpl. exact Hq.
    - right. apply IH. exact Hin.
  Qed.

  Lemma walk_attrs_in (attrs : list (string * node)) (k : string) (c : node) (q : nat) :
    In (k, c) attrs -> In q (map snd (walk V c)) ->
    In q (map snd ((fix go (a : list (string * node)) : list (path * nat) :=
                      match a with [] => [] | (k, c) :: a' => prefix_paths k (walk V c) ++ go a' end) attrs)).
  Proof.
    intros Hin Hq. induction attrs as [|[k' c'] attrs IH]; [contradiction|].
    rewrite map_app. apply in_or_app. destruct Hin as [E|Hin].
    - inversion E; subst. left. unfold prefix_paths. rewrite map_map. simpl. exact Hq.
    - right. apply IH. exact Hin.
  Qed.
End P2.
