(* C01 (continued): advertised paths and placement connected; weaker well-formedness (p*p allowed);
   path route for arbitrary / duplicate paths; frame property; unit-vector route; facts about `paths`. *)
From Coq Require Import List String Bool Arith PeanoNat Lia Permutation Sorted.
From PAFC01 Require Import ModelTree Sorting Proofs Proofs2 Proofs3.
Import ListNotations.
Local Open Scope string_scope.
Local Open Scope list_scope.

Section P4.
  Variable V : Type.
  Variable bin : binop -> V -> V -> V.
  Variable un : unop -> V -> V.
  Notation node := (node V).
  Notation ival := (ival V).

  (* ---------- well-formedness, weakened: the two operand attributes of an arithmetic prior may carry
     the same name exactly when they are the same object (p * p: CompoundPrior renames operands with
     equal names unless `left is right`) ---------- *)
  Fixpoint wf2 (n : node) : Prop :=
    match n with
    | NPrior _ | NConst _ => True
    | NTuple ms =>
        NoDup (map fst ms) /\
        (fix go (ms : list (string * (nat * node))) : Prop :=
           match ms with [] => True | (_, (_, c)) :: ms' => wf2 c /\ go ms' end) ms
    | NBin _ ln rn l r => (ln <> rn \/ l = r) /\ wf2 l /\ wf2 r
    | NUn _ _ c => wf2 c
    | NModel _ _ attrs | NColl attrs =>
        NoDup (map fst attrs) /\
        (fix go (a : list (string * node)) : Prop :=
           match a with [] => True | (_, c) :: a' => wf2 c /\ go a' end) attrs
    end.

  Lemma wf2_attrs_in (attrs : list (string * node)) (k : string) (c : node) :
    (fix go (a : list (string * node)) : Prop :=
       match a with [] => True | (_, c) :: a' => wf2 c /\ go a' end) attrs ->
    In (k, c) attrs -> wf2 c.
  Proof.
    induction attrs as [|[k' c'] a IH]; intros H Hin; [contradiction|].
    destruct H as [H1 H2]. destruct Hin as [E|Hin]; [inversion E; subst; exact H1|apply IH; assumption].
  Qed.

  Lemma wf2_members_in (ms : list (string * (nat * node))) (k : string) (i : nat) (c : node) :
    (fix go (ms : list (string * (nat * node))) : Prop :=
       match ms with [] => True | (_, (_, c)) :: ms' => wf2 c /\ go ms' end) ms ->
    In (k, (i, c)) ms -> wf2 c.
  Proof.
    induction ms as [|[k' [i' c']] a IH]; intros H Hin; [contradiction|].
    destruct H as [H1 H2]. destruct Hin as [E|Hin]; [inversion E; subst; exact H1|apply IH; assumption].
  Qed.

  Lemma wf_wf2 (n : node) : wf V n -> wf2 n.
  Proof.
    induction n as [q|c|ms IH|o ln rn l r IHl IHr|uo unm uc IHc|cls ctor attrs IH|attrs IH] using (node_ind' V); intro W.
    - exact I.
    - exact I.
    - destruct W as [ND W]. split; [exact ND|]. clear ND.
      induction ms as [|[k [i c]] ms IHms]; [exact I|].
      destruct W as [Wc Wr]. inversion IH as [|? ? IHc IHrest]; subst. simpl in IHc.
      split; [apply IHc; exact Wc|apply IHms; assumption].
    - destruct W as [Hne [Wl Wr]]. cbn [wf2]. repeat split; [left; exact Hne|apply IHl; exact Wl|apply IHr; exact Wr].
    - apply IHc. exact W.
    - destruct W as [ND W]. split; [exact ND|]. clear ND.
      induction attrs as [|[k c] attrs IHa]; [exact I|].
      destruct W as [Wc Wr]. inversion IH as [|? ? IHc IHrest]; subst. simpl in IHc.
      split; [apply IHc; exact Wc|apply IHa; assumption].
    - destruct W as [ND W]. split; [exact ND|]. clear ND.
      induction attrs as [|[k c] attrs IHa]; [exact I|].
      destruct W as [Wc Wr]. inversion IH as [|? ? IHc IHrest]; subst. simpl in IHc.
      split; [apply IHc; exact Wc|apply IHa; assumption].
  Qed.

  (* ---------- inst depends only on the values of the model's own parameters (under wf2) ---------- *)
  Lemma inst_ext2 (a1 a2 : nat -> option V) (n : node) :
    wf2 n -> (forall q, In q (prior_ids V n) -> a1 q = a2 q) -> inst V bin un a1 n = inst V bin un a2 n.
  Proof.
    induction n as [q|c|ms IH|o ln rn l r IHl IHr|uo unm uc IHc|cls ctor attrs IH|attrs IH] using (node_ind' V); intros W E.
    - cbn [inst]. rewrite (E q); [reflexivity|]. left; reflexivity.
    - reflexivity.
    - rewrite !inst_tuple. f_equal. f_equal. unfold member_vals. f_equal.
      destruct W as [_ W]. apply map_ext_in. intros [k [i c]] Hin. simpl. f_equal.
      rewrite Forall_forall in IH. apply (IH _ Hin).
      + exact (wf2_members_in ms k i c W Hin).
      + intros q Hq. apply E. exact (walk_members_in V ms k i c q Hin Hq).
    - destruct W as [Hor [Wl Wr]]. cbn [inst].
      destruct (String.eqb_spec ln rn) as [Eq|Hne].
      + destruct Hor as [Hne|Elr]; [contradiction|]. subst l.
        assert (Er : inst V bin un a1 r = inst V bin un a2 r).
        { apply IHr; [exact Wr|]. intros q Hq. apply E. unfold prior_ids. cbn [walk].
          subst rn. rewrite String.eqb_refl. unfold prefix_paths. rewrite map_map. simpl. exact Hq. }
        rewrite Er. reflexivity.
      + assert (Sub : forall q, In q (prior_ids V l) \/ In q (prior_ids V r) -> In q (prior_ids V (NBin o ln rn l r))).
        { intros q Hq. unfold prior_ids. cbn [walk]. destruct (String.eqb_spec ln rn) as [Eq|_]; [contradiction|].
          rewrite map_app. apply in_or_app. unfold prefix_paths. rewrite !map_map. simpl. exact Hq. }
        rewrite (IHl Wl), (IHr Wr); [reflexivity| |]; intros q Hq; apply E; apply Sub; auto.
    - assert (Ei : inst V bin un a1 uc = inst V bin un a2 uc).
      { apply IHc; [exact W|]. intros q Hq. apply E. unfold prior_ids in *. cbn [walk].
        unfold prefix_paths. rewrite map_map. simpl. exact Hq. }
      cbn [inst]. rewrite Ei. reflexivity.
    - destruct W as [_ W]. cbn [inst]. rewrite !inst_attrs_map.
      assert (M : map (fun kv => (fst kv, inst V bin un a1 (snd kv))) attrs = map (fun kv => (fst kv, inst V bin un a2 (snd kv))) attrs).
      { apply map_ext_in. intros [k c] Hin. simpl. f_equal. rewrite Forall_forall in IH. apply (IH _ Hin).
        - exact (wf2_attrs_in attrs k c W Hin).
        - intros q Hq. apply E. unfold prior_ids. cbn [walk]. exact (walk_attrs_in V attrs k c q Hin Hq). }
      rewrite M. reflexivity.
    - destruct W as [_ W]. cbn [inst]. rewrite !inst_attrs_map. f_equal.
      apply map_ext_in. intros [k c] Hin. simpl. f_equal. rewrite Forall_forall in IH. apply (IH _ Hin).
      + exact (wf2_attrs_in attrs k c W Hin).
      + intros q Hq. apply E. unfold prior_ids. cbn [walk]. exact (walk_attrs_in V attrs k c q Hin Hq).
  Qed.

  (* ---------- every advertised path resolves to its prior (under wf2) ---------- *)
  Lemma walk_prior_at2 (n : node) : wf2 n -> forall p q, In (p, q) (walk V n) -> prior_at V p n = Some q.
  Proof.
    induction n as [q0|c|ms IH|o ln rn l r IHl IHr|uo unm uc IHc|cls ctor attrs IH|attrs IH] using (node_ind' V); intros W p q Hin.
    - simpl in Hin. destruct Hin as [E|[]]. inversion E; subst. reflexivity.
    - contradiction.
    - destruct W as [ND W]. cbn [walk] in Hin.
      destruct (members_walk_in V ms p q Hin) as [k [i [c [p' [-> [Hm Hw]]]]]].
      cbn [prior_at]. rewrite (members_find V ms k i c p' ND Hm).
      rewrite Forall_forall in IH. apply (IH _ Hm); [exact (wf2_members_in ms k i c W Hm)|exact Hw].
    - destruct W as [Hor [Wl Wr]]. cbn [walk] in Hin.
      destruct (String.eqb_spec ln rn) as [E|Hne].
      + apply in_prefix in Hin. destruct Hin as [p' [-> Hw]]. cbn [prior_at].
        rewrite String.eqb_refl. apply IHr; assumption.
      + apply in_app_or in Hin. destruct Hin as [H|H]; apply in_prefix in H; destruct H as [p' [-> Hw]]; cbn [prior_at].
        * destruct (String.eqb_spec ln rn) as [E|_]; [contradiction|]. rewrite String.eqb_refl. apply IHl; assumption.
        * rewrite String.eqb_refl. apply IHr; assumption.
    - cbn [walk] in Hin. apply in_prefix in Hin. destruct Hin as [p' [-> Hw]].
      cbn [prior_at]. rewrite String.eqb_refl. apply IHc; assumption.
    - destruct W as [ND W]. cbn [walk] in Hin.
      destruct (attrs_walk_in V attrs p q Hin) as [k [c [p' [-> [Ha Hw]]]]].
      cbn [prior_at]. rewrite (attrs_find V attrs k c p' ND Ha).
      rewrite Forall_forall in IH. apply (IH _ Ha); [exact (wf2_attrs_in attrs k c W Ha)|exact Hw].
    - destruct W as [ND W]. cbn [walk] in Hin.
      destruct (attrs_walk_in V attrs p q Hin) as [k [c [p' [-> [Ha Hw]]]]].
      cbn [prior_at]. rewrite (attrs_find V attrs k c p' ND Ha).
      rewrite Forall_forall in IH. apply (IH _ Ha); [exact (wf2_attrs_in attrs k c W Ha)|exact Hw].
  Qed.

  (* ---------- node_at (structural navigation) versus prior_at (object_for_path) ---------- *)
  Lemma attrs_go_assoc (attrs : list (string * node)) (k : string) (p' : path) :
    (fix go (a : list (string * node)) : option nat :=
       match a with [] => None | (k', c) :: a' => if String.eqb k k' then prior_at V p' c else go a' end) attrs
    = match assoc k attrs with Some c => prior_at V p' c | None => None end.
  Proof.
    induction attrs as [|[k' c'] a IH]; simpl; [reflexivity|].
    destruct (String.eqb k k'); [reflexivity|exact IH].
  Qed.

  Lemma prior_at_node_at (p : path) : forall (n c : node) (p' : path),
    node_at V p n = Some c -> prior_at V (p ++ p') n = prior_at V p' c.
  Proof.
    induction p as [|k p IH]; intros n c p' H.
    - simpl in H. inversion H; subst. reflexivity.
    - destruct n as [q|v|ms|o ln rn l r|uo unm uc|cls ctor attrs|attrs]; simpl in H; try discriminate.
      + destruct (assoc k attrs) as [c'|] eqn:A; [|discriminate].
        change ((k :: p) ++ p') with (k :: (p ++ p')). cbn [prior_at]. rewrite attrs_go_assoc, A. apply IH. exact H.
      + destruct (assoc k attrs) as [c'|] eqn:A; [|discriminate].
        change ((k :: p) ++ p') with (k :: (p ++ p')). cbn [prior_at]. rewrite attrs_go_assoc, A. apply IH. exact H.
  Qed.

  Lemma in_assoc_nodup {B} (l : list (string * B)) (k : string) (v : B) :
    NoDup (map fst l) -> In (k, v) l -> assoc k l = Some v.
  Proof.
    induction l as [|[k' v'] l IH]; intros ND Hin; [contradiction|].
    simpl in ND. inversion ND as [|? ? Hnot ND']; subst. simpl.
    destruct Hin as [E|Hin].
    - inversion E; subst. rewrite String.eqb_refl. reflexivity.
    - destruct (String.eqb_spec k k') as [->|_].
      + exfalso. apply Hnot. apply in_map_iff. exists (k', v). split; [reflexivity|exact Hin].
      + apply IH; assumption.
  Qed.

  Lemma wf2_node_at (p : path) : forall (n c : node), wf2 n -> node_at V p n = Some c -> wf2 c.
  Proof.
    induction p as [|k p IH]; intros n c W H.
    - simpl in H. inversion H; subst. exact W.
    - destruct n as [q|v|ms|o ln rn l r|uo unm uc|cls ctor attrs|attrs]; simpl in H; try discriminate;
        (destruct (assoc k attrs) as [c'|] eqn:A; [|discriminate]);
        destruct W as [_ W]; apply (IH c' c); [|exact H| |exact H];
        exact (wf2_attrs_in attrs k c' W (assoc_in k attrs c' A)).
  Qed.

  Lemma node_at_prior_ids (p : path) : forall (n c : node) (q : nat),
    node_at V p n = Some c -> In q (prior_ids V c) -> In q (prior_ids V n).
  Proof.
    induction p as [|k p IH]; intros n c q H Hq.
    - simpl in H. inversion H; subst. exact Hq.
    - destruct n as [q0|v|ms|o ln rn l r|uo unm uc|cls ctor attrs|attrs]; simpl in H; try discriminate;
        (destruct (assoc k attrs) as [c'|] eqn:A; [|discriminate]);
        unfold prior_ids; cbn [walk];
        apply (walk_attrs_in V attrs k c' q (assoc_in k attrs c' A));
        exact (IH c' c q H Hq).
  Qed.

  (* a structural path that is advertised for parameter q holds exactly that parameter *)
  Lemma structural_is_prior (n c : node) (p : path) (q : nat) :
    wf2 n -> In (p, q) (walk V n) -> node_at V p n = Some c -> c = NPrior q.
  Proof.
    intros W Hin H.
    assert (R := walk_prior_at2 n W p q Hin).
    assert (R2 := prior_at_node_at p n c [] H). rewrite app_nil_r in R2. rewrite R in R2.
    destruct c; simpl in R2; try discriminate. inversion R2; subst. reflexivity.
  Qed.

  (* classification of the advertised paths: each one reaches, through Model / Collection attributes only,
     either the parameter itself, or a tuple / arithmetic (binary or unary) node inside which the rest of the path lies *)
  Definition opaque (c : node) : bool :=
    match c with NTuple _ | NBin _ _ _ _ _ | NUn _ _ _ => true | _ => false end.

  Lemma walk_classify (n : node) : wf2 n -> forall p q, In (p, q) (walk V n) ->
    exists p1 p2 c, p = p1 ++ p2 /\ node_at V p1 n = Some c /\
      ((c = NPrior q /\ p2 = []) \/ (opaque c = true /\ In (p2, q) (walk V c))).
  Proof.
    induction n as [q0|c0|ms IH|o ln rn l r IHl IHr|uo unm uc IHc|cls ctor attrs IH|attrs IH] using (node_ind' V); intros W p q Hin.
    - simpl in Hin. destruct Hin as [E|[]]. inversion E; subst.
      exists [], [], (NPrior q). repeat split. left. split; reflexivity.
    - contradiction.
    - exists [], p, (NTuple ms). repeat split. right. split; [reflexivity|exact Hin].
    - exists [], p, (NBin o ln rn l r). repeat split. right. split; [reflexivity|exact Hin].
    - exists [], p, (NUn uo unm uc). repeat split. right. split; [reflexivity|exact Hin].
    - destruct W as [ND W]. cbn [walk] in Hin.
      destruct (attrs_walk_in V attrs p q Hin) as [k [c [p' [-> [Ha Hw]]]]].
      rewrite Forall_forall in IH.
      destruct (IH _ Ha (wf2_attrs_in attrs k c W Ha) p' q Hw) as [p1 [p2 [c' [-> [Hn Hc]]]]].
      exists (k :: p1), p2, c'. split; [reflexivity|]. split; [|exact Hc].
      cbn [node_at]. rewrite (in_assoc_nodup attrs k c ND Ha). exact Hn.
    - destruct W as [ND W]. cbn [walk] in Hin.
      destruct (attrs_walk_in V attrs p q Hin) as [k [c [p' [-> [Ha Hw]]]]].
      rewrite Forall_forall in IH.
      destruct (IH _ Ha (wf2_attrs_in attrs k c W Ha) p' q Hw) as [p1 [p2 [c' [-> [Hn Hc]]]]].
      exists (k :: p1), p2, c'. split; [reflexivity|]. split; [|exact Hc].
      cbn [node_at]. rewrite (in_assoc_nodup attrs k c ND Ha). exact Hn.
  Qed.

  (* ---------- HEADLINE: the i-th value is found at the i-th advertised path ---------- *)
  Theorem ith_value (n : node) (vec : list V) (i : nat) (dp : path) (dv : V) :
    wf2 n -> List.length vec = prior_count V n -> i < prior_count V n ->
    node_at V (nth i (unique_prior_paths V n) dp) n <> None ->
    lookup V (nth i (unique_prior_paths V n) dp) (inst_from_vector V bin un n vec) = Some (IV (nth i vec dv)).
  Proof.
    intros W L Hi Hs.
    destruct (node_at V (nth i (unique_prior_paths V n) dp) n) as [c|] eqn:H; [|contradiction]. clear Hs.
    assert (Hin := ith_path V n i 0 dp Hi).
    assert (Ec := structural_is_prior n c _ _ W Hin H). subst c.
    exact (vector_placement V bin un n vec i _ 0 dv L Hi H).
  Qed.

  Lemma prior_at_tuple (ms : list (string * (nat * node))) (k : string) (p' : path) (j : nat) (c : node) :
    NoDup (map fst ms) -> In (k, (j, c)) ms -> prior_at V (k :: p') (NTuple ms) = prior_at V p' c.
  Proof. intros ND Hm. cbn [prior_at]. apply (members_find V ms k j c p' ND Hm). Qed.

  (* ... and when the i-th advertised path ends in a member of a tuple parameter, the value is the
     component of the built tuple at the member's position *)
  Theorem ith_value_tuple (n : node) (vec : list V) (i : nat) (dp : path) (dv : V)
      (p1 : path) (k : string) (ms : list (string * (nat * node))) (j : nat) (c : node) :
    wf2 n -> List.length vec = prior_count V n -> i < prior_count V n ->
    nth i (unique_prior_paths V n) dp = p1 ++ [k] ->
    node_at V p1 n = Some (NTuple ms) ->
    Permutation (map (fun m => fst (snd m)) ms) (seq 0 (List.length ms)) ->
    In (k, (j, c)) ms ->
    exists vs, lookup V p1 (inst_from_vector V bin un n vec) = Some (ITup vs) /\
               List.length vs = List.length ms /\ nth j vs IMissing = IV (nth i vec dv).
  Proof.
    intros W L Hi Ep Hn P Hm.
    assert (Hin := ith_path V n i 0 dp Hi). rewrite Ep in Hin.
    assert (R := walk_prior_at2 n W _ _ Hin).
    rewrite (prior_at_node_at p1 n (NTuple ms) [k] Hn) in R.
    assert (Wt := wf2_node_at p1 n (NTuple ms) W Hn). destruct Wt as [ND _].
    rewrite (prior_at_tuple ms k [] j c ND Hm) in R.
    destruct c; simpl in R; try discriminate. inversion R; subst pid.
    unfold inst_from_vector. rewrite (lookup_inst V bin un _ p1 n _ Hn).
    destruct (tuple_in_position_order V bin un (zip_args V (ordered_ids V n) vec) ms k j _ P Hm) as [vs [E1 [E2 E3]]].
    exists vs. split; [rewrite E1; reflexivity|]. split; [exact E2|]. rewrite E3. cbn [inst].
    rewrite (zip_args_nth V _ vec i 0 dv); [reflexivity|apply ordered_ids_nodup| |];
      rewrite ordered_ids_length; assumption.
  Qed.

  (* ---------- path route: any assignment of values to paths ---------- *)
  Theorem path_route_gen (n : node) (pv : list (path * V)) (vec : list V) :
    wf2 n -> List.length vec = prior_count V n ->
    (forall i, i < prior_count V n -> path_args V n pv (nth i (ordered_ids V n) 0) = nth_error vec i) ->
    inst_from_paths V bin un n pv = inst_from_vector V bin un n vec.
  Proof.
    intros W L R. unfold inst_from_paths, inst_from_vector. apply inst_ext2; [exact W|].
    intros q Hq. apply ordered_ids_in in Hq.
    destruct (In_nth _ _ 0 Hq) as [i [Hi Hnth]]. rewrite <- Hnth.
    rewrite ordered_ids_length in Hi. rewrite (R i Hi).
    destruct vec as [|v0 vec'] eqn:Ev; [simpl in L; lia|]. rewrite <- Ev in *.
    rewrite (zip_args_nth V (ordered_ids V n) vec i 0 v0);
      [|apply ordered_ids_nodup|rewrite ordered_ids_length; exact L|rewrite ordered_ids_length; exact Hi].
    apply nth_error_nth'. lia.
  Qed.

  (* the last entry whose path resolves to a parameter decides its value *)
  Lemma path_args_last (n : node) (pv1 pv2 : list (path * V)) (p : path) (v : V) (q : nat) :
    prior_at V p n = Some q ->
    (forall p' v', In (p', v') pv2 -> prior_at V p' n <> Some q) ->
    path_args V n (pv1 ++ (p, v) :: pv2) q = Some v.
  Proof.
    intros Hp Hlater.
    assert (N : path_args V n pv2 q = None).
    { induction pv2 as [|[p' v'] pv2 IH]; [reflexivity|]. cbn [path_args].
      rewrite IH by (intros p0 v0 H0; apply (Hlater p0 v0); right; exact H0).
      assert (Hne := Hlater p' v' (or_introl eq_refl)).
      destruct (prior_at V p' n) as [q'|]; [|reflexivity].
      destruct (Nat.eqb_spec q q') as [->|_]; [exfalso; apply Hne; reflexivity|reflexivity]. }
    induction pv1 as [|[p0 v0] pv1 IH]; simpl app.
    - cbn [path_args]. rewrite N, Hp, Nat.eqb_refl. reflexivity.
    - cbn [path_args]. rewrite IH. reflexivity.
  Qed.

  (* one freely chosen path per parameter (any path that resolves to it), in the advertised order *)
  Theorem path_route_chosen (n : node) (ps : list path) (vec : list V) :
    wf2 n -> List.length vec = prior_count V n -> List.length ps = prior_count V n ->
    (forall j dp, j < prior_count V n -> prior_at V (nth j ps dp) n = Some (nth j (ordered_ids V n) 0)) ->
    inst_from_paths V bin un n (combine ps vec) = inst_from_vector V bin un n vec.
  Proof.
    intros W L Lp R. apply path_route_gen; [exact W|exact L|].
    intros i Hi.
    destruct vec as [|v0 vec'] eqn:Ev; [simpl in L; lia|]. rewrite <- Ev in *.
    assert (Lids := ordered_ids_length V n).
    rewrite (path_args_nth V n ps (ordered_ids V n) vec (ordered_ids_nodup V n)) with (dv := v0); try lia.
    - symmetry. apply nth_error_nth'. lia.
    - intros j dp dq Hj. rewrite (nth_indep _ dq 0) by exact Hj. apply R. lia.
  Qed.

  Theorem path_route2 (n : node) (vec : list V) :
    wf2 n -> List.length vec = prior_count V n ->
    inst_from_paths V bin un n (combine (unique_prior_paths V n) vec) = inst_from_vector V bin un n vec.
  Proof.
    intros W L. apply path_route_chosen; [exact W|exact L| |].
    - unfold unique_prior_paths. rewrite map_length. rewrite <- ordered_ids_length.
      rewrite <- (unique_path_priors_ids V n). rewrite map_length. reflexivity.
    - intros j dp Hj. apply walk_prior_at2; [exact W|]. apply ith_path. exact Hj.
  Qed.

  (* ---------- frame: changing the i-th value alters only places that depend on parameter i ---------- *)
  Theorem frame (n c : node) (p : path) (vec vec' : list V) (i : nat) :
    wf2 n -> List.length vec = prior_count V n -> List.length vec' = prior_count V n ->
    (forall j, j <> i -> nth_error vec j = nth_error vec' j) ->
    node_at V p n = Some c -> ~ In (nth i (ordered_ids V n) 0) (prior_ids V c) ->
    lookup V p (inst_from_vector V bin un n vec) = lookup V p (inst_from_vector V bin un n vec').
  Proof.
    intros W L L' Same H Hnot. unfold inst_from_vector.
    rewrite !(lookup_inst V bin un _ p n c H). f_equal.
    apply inst_ext2; [exact (wf2_node_at p n c W H)|].
    intros q Hq. assert (Hq' := node_at_prior_ids p n c q H Hq). apply ordered_ids_in in Hq'.
    destruct (In_nth _ _ 0 Hq') as [j [Hj Hnth]]. rewrite <- Hnth.
    assert (Lids := ordered_ids_length V n).
    assert (Hji : j <> i) by (intro E; subst j; apply Hnot; rewrite Hnth; exact Hq).
    destruct vec as [|v0 vt] eqn:Ev; [simpl in L; lia|]. rewrite <- Ev in *.
    rewrite (zip_args_nth V (ordered_ids V n) vec j 0 v0); [|apply ordered_ids_nodup|lia|lia].
    rewrite (zip_args_nth V (ordered_ids V n) vec' j 0 v0); [|apply ordered_ids_nodup|lia|lia].
    rewrite <- (nth_error_nth' vec v0) by lia. rewrite <- (nth_error_nth' vec' v0) by lia.
    apply Same. exact Hji.
  Qed.

  (* ---------- unit-vector route: instance_from_unit_vector builds {prior_i : prior_i.value_for(u_i)}
     over priors ordered by id, vector_from_unit_vector the list of the same values ---------- *)
  Section Unit.
    Variable value_for : nat -> V -> V.          (* prior id, unit value -> physical value *)

    Fixpoint vmap2 (ids : list nat) (u : list V) : list V :=
      match ids, u with
      | q :: ids', x :: u' => value_for q x :: vmap2 ids' u'
      | _, _ => []
      end.

    Definition vec_from_unit (n : node) (u : list V) : list V := vmap2 (ordered_ids V n) u.
    Definition unit_args (n : node) (u : list V) : nat -> option V :=
      zip_args V (ordered_ids V n) (vec_from_unit n u).
    Definition inst_from_unit (n : node) (u : list V) : ival := inst V bin un (unit_args n u) n.

    Lemma vmap2_length (ids : list nat) (u : list V) :
      List.length u = List.length ids -> List.length (vmap2 ids u) = List.length ids.
    Proof.
      revert u. induction ids as [|q ids IH]; intros [|x u] L; simpl in *; try lia. rewrite IH; lia.
    Qed.

    Lemma vmap2_nth (ids : list nat) (u : list V) (i : nat) (dq : nat) (dv : V) :
      List.length u = List.length ids -> i < List.length ids ->
      nth i (vmap2 ids u) dv = value_for (nth i ids dq) (nth i u dv).
    Proof.
      revert u i. induction ids as [|q ids IH]; intros [|x u] i L Hi; simpl in *; try lia.
      destruct i as [|i]; [reflexivity|]. apply IH; lia.
    Qed.

    Theorem unit_route (n : node) (u : list V) :
      inst_from_unit n u = inst_from_vector V bin un n (vec_from_unit n u).
    Proof. reflexivity. Qed.

    (* the i-th unit value, pushed through the i-th prior, is found at every structural place of parameter i *)
    Theorem unit_placement (n : node) (u : list V) (i : nat) (p : path) (dv : V) :
      List.length u = prior_count V n -> i < prior_count V n ->
      node_at V p n = Some (NPrior (nth i (ordered_ids V n) 0)) ->
      lookup V p (inst_from_unit n u) = Some (IV (value_for (nth i (ordered_ids V n) 0) (nth i u dv))).
    Proof.
      intros L Hi H. rewrite unit_route.
      assert (Lids := ordered_ids_length V n).
      rewrite (vector_placement V bin un n (vec_from_unit n u) i p 0 dv); [|unfold vec_from_unit; rewrite vmap2_length; lia|exact Hi|exact H].
      unfold vec_from_unit. rewrite (vmap2_nth _ u i 0 dv); [reflexivity|lia|lia].
    Qed.
  End Unit.

  (* ---------- `paths`: all (path, parameter) pairs of the model, stably ordered by parameter id;
     the unique paths are among them ---------- *)
  Lemma le_map_key {A} (key : A -> nat) (l : list A) :
    StronglySorted (le_key key) l -> StronglySorted le (map key l).
  Proof.
    induction 1 as [|y l Hs IH Hall]; simpl; constructor; [exact IH|].
    rewrite Forall_forall in *. intros z Hz. apply in_map_iff in Hz. destruct Hz as [w [<- Hw]]. apply Hall. exact Hw.
  Qed.

  Theorem paths_facts (n : node) :
    Permutation (path_priors V n) (walk V n) /\
    StronglySorted le (map snd (path_priors V n)) /\
    paths V n = map fst (path_priors V n) /\
    (forall p, In p (unique_prior_paths V n) -> In p (paths V n)).
  Proof.
    split; [apply sort_by_perm|]. split; [apply le_map_key; apply sort_by_sorted|]. split; [reflexivity|].
    intros p Hp. unfold unique_prior_paths in Hp. apply in_map_iff in Hp. destruct Hp as [[q p'] [E Hin]].
    simpl in E. subst p'. apply unique_path_priors_advertised in Hin.
    unfold paths. apply in_map_iff. exists (p, q). split; [reflexivity|]. apply path_priors_in. exact Hin.
  Qed.

  (* every entry of `paths` resolves (object_for_path) to the parameter it is listed for *)
  Theorem paths_resolve (n : node) : wf2 n ->
    forall p q, In (p, q) (path_priors V n) -> prior_at V p n = Some q.
  Proof. intros W p q H. apply walk_prior_at2; [exact W|]. apply path_priors_in. exact H. Qed.
End P4.

(* ---------- checkable form of wf2 ---------- *)
Section Wf2Bool.
  Variable V : Type.
  Variable veqb : V -> V -> bool.
  Hypothesis veqb_sound : forall a b, veqb a b = true -> a = b.

  Fixpoint node_eqb (a b : node V) : bool :=
    match a, b with
    | NPrior p, NPrior q => Nat.eqb p q
    | NConst v, NConst w => veqb v w
    | NTuple xs, NTuple ys =>
        (fix go (xs ys : list (string * (nat * node V))) : bool :=
           match xs, ys with
           | [], [] => true
           | (k, (i, x)) :: xs', (l, (j, y)) :: ys' => String.eqb k l && Nat.eqb i j && node_eqb x y && go xs' ys'
           | _, _ => false
           end) xs ys
    | NBin o ln rn l r, NBin o' ln' rn' l' r' =>
        match o, o' with OAdd, OAdd | OSub, OSub | OMul, OMul | ODiv, ODiv | OFloorDiv, OFloorDiv | OMod, OMod => true | _, _ => false end
        && String.eqb ln ln' && String.eqb rn rn' && node_eqb l l' && node_eqb r r'
    | NUn o nm c, NUn o' nm' c' =>
        match o, o' with UNeg, UNeg | UAbs, UAbs => true | _, _ => false end
        && String.eqb nm nm' && node_eqb c c'
    | NModel c ct xs, NModel d dt ys =>
        String.eqb c d && (if list_eq_dec string_dec ct dt then true else false) &&
        (fix go (xs ys : list (string * node V)) : bool :=
           match xs, ys with
           | [], [] => true
           | (k, x) :: xs', (l, y) :: ys' => String.eqb k l && node_eqb x y && go xs' ys'
           | _, _ => false
           end) xs ys
    | NColl xs, NColl ys =>
        (fix go (xs ys : list (string * node V)) : bool :=
           match xs, ys with
           | [], [] => true
           | (k, x) :: xs', (l, y) :: ys' => String.eqb k l && node_eqb x y && go xs' ys'
           | _, _ => false
           end) xs ys
    | _, _ => false
    end.

  Lemma attrs_eqb_sound (xs : list (string * node V)) :
    Forall (fun a => forall b, node_eqb (snd a) b = true -> snd a = b) xs ->
    forall ys,
    (fix go (xs ys : list (string * node V)) : bool :=
       match xs, ys with
       | [], [] => true
       | (k, x) :: xs', (l, y) :: ys' => String.eqb k l && node_eqb x y && go xs' ys'
       | _, _ => false
       end) xs ys = true -> xs = ys.
  Proof.
    induction 1 as [|[k x] xs Hx Hxs IH]; intros [|[l y] ys] H; try discriminate; [reflexivity|].
    apply andb_true_iff in H. destruct H as [H12 H3]. apply andb_true_iff in H12. destruct H12 as [H1 H2].
    apply String.eqb_eq in H1. subst l. simpl in Hx. rewrite (Hx y H2). rewrite (IH ys H3). reflexivity.
  Qed.

  Lemma node_eqb_sound (a : node V) : forall b, node_eqb a b = true -> a = b.
  Proof.
    induction a as [p|v|ms IH|o ln rn l r IHl IHr|uo unm uc IHc|cls ctor attrs IH|attrs IH] using (node_ind' V); intros b H.
    - destruct b; try discriminate. simpl in H. apply Nat.eqb_eq in H. subst. reflexivity.
    - destruct b; try discriminate. simpl in H. rewrite (veqb_sound _ _ H). reflexivity.
    - destruct b as [| |ys| | | |]; try discriminate. cbn [node_eqb] in H. f_equal.
      revert ys H. induction IH as [|[k [i x]] xs Hx Hxs IHxs]; intros [|[l [j y]] ys] H; try discriminate; [reflexivity|].
      apply andb_true_iff in H. destruct H as [H123 H4]. apply andb_true_iff in H123. destruct H123 as [H12 H3].
      apply andb_true_iff in H12. destruct H12 as [H1 H2].
      apply String.eqb_eq in H1. apply Nat.eqb_eq in H2. subst l j. simpl in Hx. rewrite (Hx y H3).
      rewrite (IHxs ys H4). reflexivity.
    - destruct b as [| | |o' ln' rn' l' r'| | |]; try discriminate. cbn [node_eqb] in H.
      apply andb_true_iff in H. destruct H as [H1234 H5]. apply andb_true_iff in H1234. destruct H1234 as [H123 H4].
      apply andb_true_iff in H123. destruct H123 as [H12 H3]. apply andb_true_iff in H12. destruct H12 as [H1 H2].
      apply String.eqb_eq in H2, H3. subst. rewrite (IHl _ H4), (IHr _ H5).
      destruct o, o'; try discriminate; reflexivity.
    - destruct b as [| | | |o' nm' c'| |]; try discriminate. cbn [node_eqb] in H.
      apply andb_true_iff in H. destruct H as [H12 H3]. apply andb_true_iff in H12. destruct H12 as [H1 H2].
      apply String.eqb_eq in H2. subst. rewrite (IHc _ H3).
      destruct uo, o'; try discriminate; reflexivity.
    - destruct b as [| | | | |d dt ys|]; try discriminate. cbn [node_eqb] in H.
      apply andb_true_iff in H. destruct H as [H12 H3]. apply andb_true_iff in H12. destruct H12 as [H1 H2].
      apply String.eqb_eq in H1. subst d.
      destruct (list_eq_dec string_dec ctor dt) as [->|]; [|discriminate].
      rewrite (attrs_eqb_sound attrs IH ys H3). reflexivity.
    - destruct b as [| | | | | |ys]; try discriminate. cbn [node_eqb] in H.
      rewrite (attrs_eqb_sound attrs IH ys H). reflexivity.
  Qed.

  Fixpoint wfb2 (n : node V) : bool :=
    match n with
    | NPrior _ | NConst _ => true
    | NTuple ms =>
        nodup_strings (map fst ms) &&
        (fix go (ms : list (string * (nat * node V))) : bool :=
           match ms with [] => true | (_, (_, c)) :: ms' => wfb2 c && go ms' end) ms
    | NBin _ ln rn l r => (negb (String.eqb ln rn) || node_eqb l r) && wfb2 l && wfb2 r
    | NUn _ _ c => wfb2 c
    | NModel _ _ attrs | NColl attrs =>
        nodup_strings (map fst attrs) &&
        (fix go (a : list (string * node V)) : bool :=
           match a with [] => true | (_, c) :: a' => wfb2 c && go a' end) attrs
    end.

  Lemma wfb2_sound (n : node V) : wfb2 n = true -> wf2 V n.
  Proof.
    induction n as [q|c|ms IH|o ln rn l r IHl IHr|uo unm uc IHc|cls ctor attrs IH|attrs IH] using (node_ind' V); intro H.
    - exact I.
    - exact I.
    - cbn [wfb2] in H. apply andb_true_iff in H. destruct H as [H1 H2]. cbn [wf2]. split; [apply nodup_strings_sound; exact H1|].
      clear H1. induction ms as [|[k [i c]] ms IHms]; [exact I|].
      apply andb_true_iff in H2. destruct H2 as [Hc Hr]. inversion IH as [|? ? IHc IHrest]; subst. simpl in IHc.
      split; [apply IHc; exact Hc|apply IHms; assumption].
    - cbn [wfb2] in H. apply andb_true_iff in H. destruct H as [H12 H3]. apply andb_true_iff in H12. destruct H12 as [H1 H2].
      cbn [wf2]. repeat split; [|apply IHl; exact H2|apply IHr; exact H3].
      apply orb_true_iff in H1. destruct H1 as [H1|H1].
      + left. intro E. subst. rewrite String.eqb_refl in H1. discriminate H1.
      + right. apply node_eqb_sound. exact H1.
    - apply IHc. exact H.
    - cbn [wfb2] in H. apply andb_true_iff in H. destruct H as [H1 H2]. cbn [wf2]. split; [apply nodup_strings_sound; exact H1|].
      clear H1. induction attrs as [|[k c] attrs IHa]; [exact I|].
      apply andb_true_iff in H2. destruct H2 as [Hc Hr]. inversion IH as [|? ? IHc IHrest]; subst. simpl in IHc.
      split; [apply IHc; exact Hc|apply IHa; assumption].
    - cbn [wfb2] in H. apply andb_true_iff in H. destruct H as [H1 H2]. cbn [wf2]. split; [apply nodup_strings_sound; exact H1|].
      clear H1. induction attrs as [|[k c] attrs IHa]; [exact I|].
      apply andb_true_iff in H2. destruct H2 as [Hc Hr]. inversion IH as [|? ? IHc IHrest]; subst. simpl in IHc.
      split; [apply IHc; exact Hc|apply IHa; assumption].
  Qed.
End Wf2Bool.
