(* C03 model: limits and assertions gate every instance.  Builds on the ModelTree of C01.

   Mirrors, one for one:
     ArithmeticMixin.__lt__/__le__/__gt__/__ge__ (and the reflected call Python makes when the left
       operand has no such method), ChainedComparison.__lt__/... (assertion.py)  -> cmp_nodes, chain, denote
     GreaterThanLessThan[Equal]Assertion / CompoundAssertion._instance_for_arguments -> holds
     AbstractPriorModel.add_assertion                                        -> attached
     AbstractPriorModel.check_assertions                                     -> check_all / check_level
     AbstractPriorModel.instance_for_arguments: this level's assertions, then
       Model / Collection / CompoundPrior / ModifiedPrior._instance_for_arguments with `ignore_assertions`
       handed down to every child level                                     -> status (recursive), instantiate
     AbstractPriorModel.instance_from_vector                                 -> run
     AbstractPriorModel.instance_from_path_arguments                         -> run_paths
   `gate` is the specification: the same inequalities evaluated on the numbers, one flat list.
   Outcomes the property does not speak about are explicit: `Err` (KeyError for an operand that is
   not a parameter of the model, ZeroDivisionError, AttributeError / TypeError for unsupported shapes). *)
From Coq Require Import List String Bool Arith.
From Coq Require Import Floats.PrimFloat.
From PAFCommon Require Import PyFloat.
From PAFC01 Require Import ModelTree Model.
Import ListNotations.
Local Open Scope string_scope.
Local Open Scope list_scope.

Inductive err := EKey | EZero | EAttr | EType.

(* outcome of a computation of the library: a value, the fit exception, or another exception *)
Inductive res (A : Type) :=
| Ok (a : A)
| Fit
| Err (e : err).
Arguments Ok {A}. Arguments Fit {A}. Arguments Err {A}.

Definition seq (a b : res unit) : res unit :=
  match a with Ok _ => b | other => other end.

Inductive cmpop := CLt | CLe | CGt | CGe.

Section Gate.
  Variable V : Type.
  Variable bin : binop -> V -> V -> V.
  Variable un : unop -> V -> V.
  Variable bin_ok : binop -> V -> V -> bool.   (* false: Python raises ZeroDivisionError *)
  Variable ltb leb : V -> V -> bool.
  Variable of_bool : bool -> V.                (* a Python bool compared like a number *)

  (* ---------- operands of comparisons: parameters, constants, arithmetic on them ---------- *)
  Fixpoint operand (args : nat -> option V) (n : node V) : res V :=
    match n with
    | NPrior q => match args q with Some v => Ok v | None => Err EKey end
    | NConst v => Ok v
    | NBin o _ _ l r =>
        match operand args l with
        | Ok a =>
            match operand args r with
            | Ok b => if bin_ok o a b then Ok (bin o a b) else Err EZero
            | Fit => Fit
            | Err e => Err e
            end
        | Fit => Fit
        | Err e => Err e
        end
    | NUn o _ c =>
        (* ModifiedPrior: op(self.prior.instance_for_arguments(..)); a float operand has no such method *)
        match c with
        | NConst _ => Err EAttr
        | _ => match operand args c with
               | Ok a => Ok (un o a)
               | Fit => Fit
               | Err e => Err e
               end
        end
    | _ => Err EType
    end.

  Inductive assertion :=
  | ALt (lower greater : node V)           (* GreaterThanLessThanAssertion: lower < greater *)
  | ALe (lower greater : node V)           (* GreaterThanLessThanEqualAssertion: lower <= greater *)
  | AAnd (a b : assertion)                 (* CompoundAssertion *)
  | ALit (b : bool)                        (* a plain Python bool *)
  | ALowB (strict : bool) (a : assertion) (greater : node V)   (* GreaterThanLessThan[Equal]Assertion whose LOWER operand is
                                                                 a CompoundAssertion: its truth value is compared as 0/1 *)
  | AGrB (strict : bool) (lower : node V) (a : assertion).     (* ... whose GREATER operand is a CompoundAssertion *)

  Definition cmpv (strict : bool) (x y : V) : bool := if strict then ltb x y else leb x y.

  Fixpoint holds (args : nat -> option V) (a : assertion) : res bool :=
    match a with
    | ALt l g =>
        match operand args l with
        | Ok x => match operand args g with Ok y => Ok (ltb x y) | Fit => Fit | Err e => Err e end
        | Fit => Fit | Err e => Err e
        end
    | ALe l g =>
        match operand args l with
        | Ok x => match operand args g with Ok y => Ok (leb x y) | Fit => Fit | Err e => Err e end
        | Fit => Fit | Err e => Err e
        end
    | AAnd a b =>
        match holds args a with
        | Ok true => match b with
                     | ALit _ => Err EAttr      (* bool has no instance_for_arguments *)
                     | _ => holds args b
                     end
        | other => other
        end
    | ALit b => Ok b
    | ALowB s a g =>
        match holds args a with
        | Ok r => match operand args g with Ok y => Ok (cmpv s (of_bool r) y) | Fit => Fit | Err e => Err e end
        | other => other
        end
    | AGrB s l a =>
        match operand args l with
        | Ok x => match holds args a with Ok r => Ok (cmpv s x (of_bool r)) | other => other end
        | Fit => Fit | Err e => Err e
        end
    end.

  (* ---------- how the comparison operators build assertion objects ---------- *)
  Definition arith_like (n : node V) : bool :=
    match n with NPrior _ | NBin _ _ _ _ _ | NUn _ _ _ => true | _ => false end.

  Definition cmp_consts (op : cmpop) (a b : V) : bool :=
    match op with CLt => ltb a b | CLe => leb a b | CGt => ltb b a | CGe => leb b a end.

  Definition cmp_build (op : cmpop) (x y : node V) : assertion :=
    match op with CLt => ALt x y | CLe => ALe x y | CGt => ALt y x | CGe => ALe y x end.

  (* x op y where x, y are priors, arithmetic priors or floats *)
  Definition cmp_nodes (op : cmpop) (x y : node V) : option assertion :=
    match x, y with
    | NConst a, NConst b => Some (ALit (cmp_consts op a b))
    | _, _ => if arith_like x || arith_like y then Some (cmp_build op x y) else None
    end.

  (* ---------- first op other, where first is an assertion object (ChainedComparison, since 33cdc7f) ----------
     Every assertion object remembers the lowest and the greatest operand of its chain (`_left`, `_right`);
     < / <= compare the new operand with the greatest and put it above, > / >= compare it with the lowest and
     put it below.  None: the comparison is not an assertion object / Python raises TypeError. *)
  Definition ends_of (a : assertion) : option (node V * node V) :=
    match a with ALt l g | ALe l g => Some (l, g) | _ => None end.

  Definition chain (first : assertion) (e : node V * node V) (op : cmpop) (other : node V)
    : option (assertion * (node V * node V)) :=
    let pivot := match op with CLt | CLe => snd e | CGt | CGe => fst e end in
    match cmp_nodes op pivot other with
    | Some s => Some (AAnd first s, match op with CLt | CLe => (fst e, other) | CGt | CGe => (other, snd e) end)
    | None => None
    end.

  Inductive recipe :=
  | RLit (b : bool)
  | RCmp (op : cmpop) (l r : node V)
  | RChain (first : recipe) (op : cmpop) (other : node V).

  (* the object the operators return, with the ends it remembers *)
  Fixpoint denote (r : recipe) : option (assertion * option (node V * node V)) :=
    match r with
    | RLit b => Some (ALit b, None)
    | RCmp op x y => match cmp_nodes op x y with Some a => Some (a, ends_of a) | None => None end
    | RChain f op o =>
        match denote f with
        | Some (a, Some e) => match chain a e op o with Some (t, e') => Some (t, Some e') | None => None end
        | _ => None
        end
    end.

  (* LEGACY (before 33cdc7f, kept as the record of finding chain-3-links): only ComparisonAssertion had the
     operators; for a CompoundAssertion Python fell back to the reflected operator of `other`, which built a
     comparison of the chain's TRUTH VALUE with `other` *)
  Definition chain_legacy (first : assertion) (op : cmpop) (other : node V) : option assertion :=
    match first with
    | ALt l g | ALe l g =>
        let pivot := match op with CLt | CLe => g | CGt | CGe => l end in
        option_map (AAnd first) (cmp_nodes op pivot other)
    | AAnd _ _ =>
        if arith_like other then
          Some (match op with
                | CLt => ALowB true first other
                | CLe => ALowB false first other
                | CGt => AGrB true other first
                | CGe => AGrB false other first
                end)
        else None
    | _ => None
    end.

  Fixpoint denote_legacy (r : recipe) : option assertion :=
    match r with
    | RLit b => Some (ALit b)
    | RCmp op x y => cmp_nodes op x y
    | RChain f op o => match denote_legacy f with Some a => chain_legacy a op o | None => None end
    end.

  (* add_assertion: `True` is dropped, everything else is appended *)
  Definition attached (a : option assertion) : list assertion :=
    match a with
    | Some (ALit true) => []
    | Some x => [x]
    | None => []
    end.

  (* ---------- limits ---------- *)
  Definition limit := (nat * (V * V))%type.     (* prior id, lower, upper *)

  Definition within (lims : list limit) (args : nat -> option V) : bool :=
    forallb (fun l => match args (fst l) with
                      | Some v => leb (fst (snd l)) v && leb v (snd (snd l))
                      | None => true
                      end) lims.

  (* ---------- specification: one flat list of inequalities ---------- *)
  Definition all_hold (args : nat -> option V) (asserts : list assertion) : bool :=
    forallb (fun a => match holds args a with Ok true => true | _ => false end) asserts.

  Inductive verdict :=
  | VOk (i : ival V)
  | VLimit            (* PriorLimitException, a FitException *)
  | VAssert           (* FitException from check_assertions *)
  | VLength           (* AssertionError: vector of the wrong length *)
  | VError (e : err). (* any other exception *)

  Definition is_fit (v : verdict) : bool := match v with VLimit | VAssert => true | _ => false end.

  Definition gate (ignore : bool) (lims : list limit) (asserts : list assertion)
             (n : node V) (vec : list V) : verdict :=
    if negb (Nat.eqb (List.length vec) (prior_count V n)) then VLength
    else
      let args := zip_args V (ordered_ids V n) vec in
      if ignore then VOk (inst V bin un args n)
      else if negb (within lims args) then VLimit
      else if negb (all_hold args asserts) then VAssert
      else VOk (inst V bin un args n).

  (* ---------- the code: assertions live on levels and are checked level by level ---------- *)
  Definition levels := list (path * list assertion).

  Definition here (lv : levels) : list assertion :=
    flat_map (fun e => match fst e with [] => snd e | _ => [] end) lv.

  Definition below (k : string) (lv : levels) : levels :=
    flat_map (fun e => match fst e with
                       | k' :: p' => if String.eqb k k' then [(p', snd e)] else []
                       | [] => []
                       end) lv.

  Definition flat (lv : levels) : list assertion := flat_map snd lv.

  Section Args.
    Variable args : nat -> option V.

    (* check_assertions: a list comprehension evaluates every assertion in order (an exception of
       any of them escapes), then FitException if one was false *)
    Fixpoint check_all (l : list assertion) : res bool :=
      match l with
      | [] => Ok true
      | a :: l' =>
          match holds args a with
          | Ok x => match check_all l' with Ok y => Ok (x && y) | other => other end
          | other => other
          end
      end.

    Definition check_level (l : list assertion) : res unit :=
      match check_all l with
      | Ok true => Ok tt
      | Ok false => Fit
      | Fit => Fit
      | Err e => Err e
      end.

    Definition has_arg (n : node V) : bool :=
      match n with NPrior q => match args q with Some _ => true | None => false end | _ => true end.

    (* TuplePrior.value_for_arguments: arguments[prior] for every member that is a prior *)
    Definition tuple_status (ms : list (string * (nat * node V))) : res unit :=
      if forallb (fun m => has_arg (snd (snd m))) ms then Ok tt else Err EKey.

    Definition arith_status (o : binop) (l r : node V) : res unit :=
      match inst V bin un args l, inst V bin un args r with
      | IV a, IV b => if bin_ok o a b then Ok tt else Err EZero
      | _, _ => Err EType
      end.

    (* ModifiedPrior._instance_for_arguments: the operator applied to the operand's instance *)
    Definition un_status (c : node V) : res unit :=
      match c with
      | NConst _ => Err EAttr
      | _ => match inst V bin un args c with IV _ => Ok tt | _ => Err EType end
      end.

    Definition prior_status (q : nat) : res unit :=
      match args q with Some _ => Ok tt | None => Err EKey end.

    (* nodes that are AbstractPriorModels: they have their own `_assertions` and instance_for_arguments *)
    Definition is_level (n : node V) : bool :=
      match n with NBin _ _ _ _ _ | NUn _ _ _ | NModel _ _ _ | NColl _ => true | _ => false end.
    Definition is_tuple (n : node V) : bool := match n with NTuple _ => true | _ => false end.

    (* the first thing that goes wrong, in the order of the code; Ok tt: the instance is constructed *)
    Fixpoint status (ignore : bool) (lv : levels) (n : node V) {struct n} : res unit :=
      match n with
      | NPrior q => prior_status q
      | NConst _ => Ok tt
      | NTuple ms => tuple_status ms
      | NBin o ln rn l r =>
          (* CompoundPrior: instance_for_arguments -> check_assertions; left_for_arguments, right_for_arguments *)
          seq (if ignore then Ok tt else check_level (here lv))
              (seq (status ignore (below ln lv) l)
                   (seq (status ignore (below rn lv) r) (arith_status o l r)))
      | NUn _ nm c =>
          (* ModifiedPrior: instance_for_arguments -> check_assertions; the operand's instance_for_arguments; op *)
          seq (if ignore then Ok tt else check_level (here lv))
              (seq (status ignore (below nm lv) c) (un_status c))
      | NModel _ _ attrs =>
          (* Model: check_assertions; tuple priors; prior models (Model, Collection, CompoundPrior) in
             __dict__ order; direct priors *)
          seq (if ignore then Ok tt else check_level (here lv))
              (seq (fold_right (fun kc acc => match snd kc with NTuple ms => seq (tuple_status ms) acc | _ => acc end)
                               (Ok tt) attrs)
                   (seq (fold_right (fun kc acc => if is_level (snd kc)
                                                   then seq (status ignore (below (fst kc) lv) (snd kc)) acc
                                                   else acc) (Ok tt) attrs)
                        (fold_right (fun kc acc => match snd kc with NPrior q => seq (prior_status q) acc | _ => acc end)
                                    (Ok tt) attrs)))
      | NColl attrs =>
          (* Collection: check_assertions; every attribute in __dict__ order (a TuplePrior held by a
             collection is stored as it is) *)
          seq (if ignore then Ok tt else check_level (here lv))
              (fold_right (fun kc acc => if is_tuple (snd kc) then acc
                                         else seq (status ignore (below (fst kc) lv) (snd kc)) acc) (Ok tt) attrs)
      end.

    Definition instantiate (ignore : bool) (lv : levels) (n : node V) : res (ival V) :=
      match status ignore lv n with
      | Ok _ => Ok (inst V bin un args n)
      | Fit => Fit
      | Err e => Err e
      end.
  End Args.

  Definition of_res (r : res (ival V)) : verdict :=
    match r with Ok i => VOk i | Fit => VAssert | Err e => VError e end.

  (* instance_from_vector(vector, ignore_prior_limits=ignore) *)
  Definition run (ignore : bool) (lims : list limit) (lv : levels) (n : node V) (vec : list V) : verdict :=
    if negb (Nat.eqb (List.length vec) (prior_count V n)) then VLength
    else
      let args := zip_args V (ordered_ids V n) vec in
      if ignore then of_res (instantiate args true lv n)
      else if negb (within lims args) then VLimit
      else of_res (instantiate args false lv n).

  (* instance_from_path_arguments(path_arguments, ignore_assertions=ignore): calls _instance_for_arguments
     directly, so neither limits nor the assertions of the ROOT level are looked at, while every child
     level is checked.  Outside the property (which speaks about vectors); modelled to state the difference. *)
  Definition drop_root (lv : levels) : levels :=
    flat_map (fun e => match fst e with [] => [] | _ => [e] end) lv.

  Definition run_paths (ignore : bool) (lv : levels) (n : node V) (args : nat -> option V) : verdict :=
    of_res (instantiate args ignore (drop_root lv) n).
End Gate.

Arguments ALt {V}. Arguments ALe {V}. Arguments AAnd {V}. Arguments ALit {V}. Arguments ALowB {V}. Arguments AGrB {V}.
Arguments RLit {V}. Arguments RCmp {V}. Arguments RChain {V}.
Arguments VOk {V}. Arguments VLimit {V}. Arguments VAssert {V}. Arguments VLength {V}. Arguments VError {V}.

(* ---------- executable instance and correspondence cases ---------- *)
Definition fverdict := verdict float.

(* Python float division raises ZeroDivisionError exactly when the divisor compares equal to 0.0 *)
Definition fbin_ok (o : binop) (a b : float) : bool :=
  match o with ODiv | OFloorDiv | OMod => negb (PrimFloat.eqb b PrimFloat.zero) | _ => true end.
Definition fof_bool (b : bool) : float := if b then PrimFloat.one else PrimFloat.zero.

Definition err_eqb (a b : err) : bool :=
  match a, b with
  | EKey, EKey | EZero, EZero | EAttr, EAttr | EType, EType => true
  | _, _ => false
  end.

Definition verdict_eqb (a b : fverdict) : bool :=
  match a, b with
  | VOk i, VOk j => ival_eqb i j
  | VLimit, VLimit | VAssert, VAssert | VLength, VLength => true
  | VError e, VError f => err_eqb e f
  | _, _ => false
  end.

Definition binop_eqb (a b : binop) : bool :=
  match a, b with
  | OAdd, OAdd | OSub, OSub | OMul, OMul | ODiv, ODiv | OFloorDiv, OFloorDiv | OMod, OMod => true
  | _, _ => false
  end.

Fixpoint node_eqb (a b : node float) : bool :=
  match a, b with
  | NPrior p, NPrior q => Nat.eqb p q
  | NConst x, NConst y => fbits_eqb x y
  | NTuple xs, NTuple ys =>
      (fix go (xs ys : list (string * (nat * node float))) : bool :=
         match xs, ys with
         | [], [] => true
         | (k, (i, x)) :: xs', (l, (j, y)) :: ys' => String.eqb k l && Nat.eqb i j && node_eqb x y && go xs' ys'
         | _, _ => false
         end) xs ys
  | NBin o ln rn l r, NBin o' ln' rn' l' r' =>
      binop_eqb o o' && String.eqb ln ln' && String.eqb rn rn' && node_eqb l l' && node_eqb r r'
  | NUn o nm c, NUn o' nm' c' =>
      match o, o' with UNeg, UNeg | UAbs, UAbs => true | _, _ => false end && String.eqb nm nm' && node_eqb c c'
  | NModel c ct xs, NModel d dt ys =>
      String.eqb c d && list_eqb String.eqb ct dt &&
      (fix go (xs ys : list (string * node float)) : bool :=
         match xs, ys with
         | [], [] => true
         | (k, x) :: xs', (l, y) :: ys' => String.eqb k l && node_eqb x y && go xs' ys'
         | _, _ => false
         end) xs ys
  | NColl xs, NColl ys =>
      (fix go (xs ys : list (string * node float)) : bool :=
         match xs, ys with
         | [], [] => true
         | (k, x) :: xs', (l, y) :: ys' => String.eqb k l && node_eqb x y && go xs' ys'
         | _, _ => false
         end) xs ys
  | _, _ => false
  end.

Fixpoint assertion_eqb (a b : assertion float) : bool :=
  match a, b with
  | ALt l g, ALt l' g' | ALe l g, ALe l' g' => node_eqb l l' && node_eqb g g'
  | AAnd x y, AAnd x' y' => assertion_eqb x x' && assertion_eqb y y'
  | ALit x, ALit y => Bool.eqb x y
  | ALowB s x g, ALowB s' x' g' => Bool.eqb s s' && assertion_eqb x x' && node_eqb g g'
  | AGrB s l x, AGrB s' l' x' => Bool.eqb s s' && node_eqb l l' && assertion_eqb x x'
  | _, _ => false
  end.

Definition opt_assertion_eqb (a b : option (assertion float)) : bool :=
  match a, b with
  | Some x, Some y => assertion_eqb x y
  | None, None => true
  | _, _ => false
  end.

(* one call of add_assertion: the level it was attached to, how the assertion was written (operands
   are the live operand objects), and the object the operators returned (None: TypeError) *)
Record attach := {
  at_level : path;
  at_recipe : recipe float;
  at_built : option (assertion float);
  at_ends : option (node float * node float)    (* `_left`, `_right` of the object returned, when it has both *)
}.

(* an observed outcome: the verdict and whether the exception was an exc.FitException *)
Record obs := { o_v : fverdict; o_fit : bool }.

Record case := {
  c_tree : node float;
  c_lims : list (limit float);
  c_attach : list attach;
  c_levels : levels float;    (* `_assertions` of every level of the live model (non-empty ones), with its path *)
  c_vec : list float;
  c_strict : obs;             (* instance_from_vector(vec) *)
  c_ignored : obs;            (* instance_from_vector(vec, ignore_prior_limits=True) *)
  c_paths : option obs        (* instance_from_path_arguments({unique path: value}); None: not run (wrong length) *)
}.

Definition fdenote := denote float PrimFloat.ltb PrimFloat.leb.
Definition fdenote_legacy := denote_legacy float PrimFloat.ltb PrimFloat.leb.
Definition frun := run float fbin funop fbin_ok PrimFloat.ltb PrimFloat.leb fof_bool.
Definition frun_paths := run_paths float fbin funop fbin_ok PrimFloat.ltb PrimFloat.leb fof_bool.

Definition ends_eqb (a b : option (node float * node float)) : bool :=
  match a, b with
  | Some (l, g), Some (l', g') => node_eqb l l' && node_eqb g g'
  | None, None => true
  | _, _ => false
  end.

(* the operators built the object the model says, remembering the ends the model says
   (legacy: the model of the code before 33cdc7f, kept for the record; ends were not stored then) *)
Definition attach_ok_v (legacy : bool) (a : attach) : bool :=
  if legacy then opt_assertion_eqb (fdenote_legacy (at_recipe a)) (at_built a)
  else match fdenote (at_recipe a) with
       | Some (t, e) => opt_assertion_eqb (Some t) (at_built a) && ends_eqb e (at_ends a)
       | None => opt_assertion_eqb None (at_built a)
       end.
Definition attach_ok := attach_ok_v false.

(* add_assertion put it on the level it was called on, in call order *)
Definition expected_at (atts : list attach) (p : path) : list (assertion float) :=
  flat_map (fun a => if path_eqb (at_level a) p then attached float (at_built a) else []) atts.

Definition levels_agree (atts : list attach) (lv : levels float) : bool :=
  forallb (fun e => list_eqb assertion_eqb (expected_at atts (fst e)) (snd e)) lv
  && forallb (fun a => match attached float (at_built a) with
                       | [] => true
                       | _ => existsb (fun e => path_eqb (fst e) (at_level a)) lv
                       end) atts.

Definition obs_ok (m : fverdict) (o : obs) : bool :=
  verdict_eqb m (o_v o) && Bool.eqb (is_fit float m) (o_fit o).

Definition check_case_v (legacy : bool) (c : case) : bool :=
  forallb (attach_ok_v legacy) (c_attach c)
  && levels_agree (c_attach c) (c_levels c)
  && obs_ok (frun false (c_lims c) (c_levels c) (c_tree c) (c_vec c)) (c_strict c)
  && obs_ok (frun true (c_lims c) (c_levels c) (c_tree c) (c_vec c)) (c_ignored c)
  && match c_paths c with
     | Some o => obs_ok (frun_paths false (c_levels c) (c_tree c)
                                    (zip_args float (ordered_ids float (c_tree c)) (c_vec c))) o
     | None => true
     end.

(* the code as it is *)
Definition check_case := check_case_v false.
(* the code before 33cdc7f (finding chain-3-links) *)
Definition check_case_legacy := check_case_v true.
