(* C03 model: limits and assertions gate every instance.  Builds on the ModelTree of C01.
   Mirrors AbstractPriorModel.instance_from_vector: length check, {prior: value} in id order,
   every value within its prior's limits unless ignored (PriorLimitException), then
   instance_for_arguments, which checks the assertions of every Model / Collection level before
   constructing it (FitException), unless ignored. *)
From Coq Require Import List String Bool Arith.
From Coq Require Import Floats.PrimFloat.
From PAFCommon Require Import PyFloat.
From PAFC01 Require Import ModelTree Model.
Import ListNotations.
Local Open Scope string_scope.
Local Open Scope list_scope.

Section Gate.
  Variable V : Type.
  Variable bin : binop -> V -> V -> V.
  Variable ltb leb : V -> V -> bool.

  (* operands are priors, constants and arithmetic on them; the verdict of a comparison whose
     operand has no value is an error (KeyError in the code) *)
  Fixpoint operand (args : nat -> option V) (n : node V) : option V :=
    match n with
    | NPrior q => args q
    | NConst v => Some v
    | NBin o _ _ l r =>
        match operand args l, operand args r with
        | Some a, Some b => Some (bin o a b)
        | _, _ => None
        end
    | _ => None
    end.

  Inductive assertion :=
  | ALt (lower greater : node V)           (* GreaterThanLessThanAssertion: lower < greater *)
  | ALe (lower greater : node V)           (* GreaterThanLessThanEqualAssertion: lower <= greater *)
  | AAnd (a b : assertion)                 (* CompoundAssertion *)
  | ALit (b : bool).                       (* a plain Python bool (False fails, True is dropped) *)

  Fixpoint holds (args : nat -> option V) (a : assertion) : option bool :=
    match a with
    | ALt l g => match operand args l, operand args g with Some x, Some y => Some (ltb x y) | _, _ => None end
    | ALe l g => match operand args l, operand args g with Some x, Some y => Some (leb x y) | _, _ => None end
    | AAnd a b =>
        match holds args a with
        | Some true => holds args b
        | other => other
        end
    | ALit b => Some b
    end.

  (* (a < b) < c etc.: comparing an assertion again *)
  Definition assertion_right (a : assertion) : option (node V) :=
    match a with ALt _ g | ALe _ g => Some g | _ => None end.
  Definition assertion_left (a : assertion) : option (node V) :=
    match a with ALt l _ | ALe l _ => Some l | _ => None end.
  Definition chain_lt (a : assertion) (c : node V) : option assertion :=   (* a < c *)
    option_map (fun g => AAnd a (ALt g c)) (assertion_right a).
  Definition chain_le (a : assertion) (c : node V) : option assertion :=
    option_map (fun g => AAnd a (ALe g c)) (assertion_right a).
  Definition chain_gt (a : assertion) (c : node V) : option assertion :=   (* a > c *)
    option_map (fun l => AAnd a (ALt c l)) (assertion_left a).
  Definition chain_ge (a : assertion) (c : node V) : option assertion :=
    option_map (fun l => AAnd a (ALe c l)) (assertion_left a).

  Definition limit := (nat * (V * V))%type.     (* prior id, lower, upper *)

  Definition within (lims : list limit) (args : nat -> option V) : bool :=
    forallb (fun l => match args (fst l) with
                      | Some v => leb (fst (snd l)) v && leb v (snd (snd l))
                      | None => true
                      end) lims.

  Definition all_hold (args : nat -> option V) (asserts : list assertion) : bool :=
    forallb (fun a => match holds args a with Some true => true | _ => false end) asserts.

  Inductive verdict :=
  | VOk (i : ival V)
  | VLimit            (* PriorLimitException, a FitException *)
  | VAssert           (* FitException from check_assertions *)
  | VLength.          (* AssertionError: vector of the wrong length *)

  Definition gate (ignore : bool) (lims : list limit) (asserts : list assertion)
             (n : node V) (vec : list V) : verdict :=
    if negb (Nat.eqb (List.length vec) (prior_count V n)) then VLength
    else
      let args := zip_args V (ordered_ids V n) vec in
      if ignore then VOk (inst V bin args n)
      else if negb (within lims args) then VLimit
      else if negb (all_hold args asserts) then VAssert
      else VOk (inst V bin args n).
End Gate.

Arguments ALt {V}. Arguments ALe {V}. Arguments AAnd {V}. Arguments ALit {V}.
Arguments VOk {V}. Arguments VLimit {V}. Arguments VAssert {V}. Arguments VLength {V}.

(* ---------- executable instance and correspondence cases ---------- *)
Definition fverdict := verdict float.

Definition verdict_eqb (a b : fverdict) : bool :=
  match a, b with
  | VOk i, VOk j => ival_eqb i j
  | VLimit, VLimit | VAssert, VAssert | VLength, VLength => true
  | _, _ => false
  end.

Record case := {
  c_tree : node float;
  c_lims : list (limit float);
  c_asserts : list (assertion float);
  c_vec : list float;
  c_strict : fverdict;        (* instance_from_vector(vec) *)
  c_ignored : fverdict        (* instance_from_vector(vec, ignore_prior_limits=True) *)
}.

Definition fgate := gate float fbin PrimFloat.ltb PrimFloat.leb.

Definition check_case (c : case) : bool :=
  verdict_eqb (fgate false (c_lims c) (c_asserts c) (c_tree c) (c_vec c)) (c_strict c)
  && verdict_eqb (fgate true (c_lims c) (c_asserts c) (c_tree c) (c_vec c)) (c_ignored c).
