(* C03 lemmas, part 4: the unary node (ModifiedPrior: -p, abs(p)) as an operand of assertions and as a level.
   A ModifiedPrior is an AbstractPriorModel: it has its own `_assertions` (checked first), hands
   ignore_assertions to its operand, then applies the operator.  a - b is built as a + (-b). *)
From Coq Require Import List String Bool Arith Lia.
From PAFC01 Require Import ModelTree Proofs8.
From PAFC03 Require Import Model Proofs Proofs2.
Import ListNotations.
Local Open Scope string_scope.
Local Open Scope list_scope.

Section P5.
  Variable V : Type.
  Variable bin : binop -> V -> V -> V.
  Variable un : unop -> V -> V.
  Variable bin_ok : binop -> V -> V -> bool.
  Variable ltb leb : V -> V -> bool.
  Variable of_bool : bool -> V.
  Variable args : nat -> option V.
  Notation operand := (operand V bin un bin_ok args).
  Notation holds := (holds V bin un bin_ok ltb leb of_bool args).
  Notation status := (status V bin un bin_ok ltb leb of_bool args).

  (* the operand -x / abs(x) of a comparison: the operator on the operand's value, same assignment; whatever
     goes wrong in the operand goes wrong in the unary form *)
  Lemma operand_un (o : unop) (nm : string) (c : node V) :
    is_const V c = false ->
    operand (NUn o nm c) = match operand c with Ok a => Ok (un o a) | Fit => Fit | Err e => Err e end.
  Proof. intro H. destruct c; try discriminate H; reflexivity. Qed.

  Theorem unary_operand (o : unop) (nm : string) (c : node V) :
    is_const V c = false ->
    (forall a, operand c = Ok a -> operand (NUn o nm c) = Ok (un o a)) /\
    (forall e, operand c = Err e -> operand (NUn o nm c) = Err e).
  Proof. intro H. rewrite (operand_un o nm c H). split; intros x E; rewrite E; reflexivity. Qed.

  (* x - y as the operators build it *)
  Theorem sub_operand (ln rn nm : string) (l r : node V) (a b : V) :
    is_const V r = false -> operand l = Ok a -> operand r = Ok b ->
    operand (NBin OAdd ln rn l (NUn UNeg nm r)) =
    if bin_ok OAdd a (un UNeg b) then Ok (bin OAdd a (un UNeg b)) else Err EZero.
  Proof.
    intros H El Er.
    destruct r; try discriminate H; cbn [Model.operand] in Er |- *; rewrite El; try discriminate Er;
      rewrite Er; reflexivity.
  Qed.

  (* an inequality with a unary operand means the inequality on op(value) *)
  Theorem verdict_lt_unary (o : unop) (nm : string) (c g : node V) :
    is_const V c = false ->
    (holds (ALt (NUn o nm c) g) = Ok true <->
     exists x y, operand c = Ok x /\ operand g = Ok y /\ ltb (un o x) y = true).
  Proof.
    intro H. rewrite holds_lt. rewrite (operand_un o nm c H). split.
    - intros [x [y [Ex [Ey L]]]]. destruct (operand c) as [a| |]; try discriminate Ex.
      inversion Ex; subst. exists a, y. auto.
    - intros [x [y [Ex [Ey L]]]]. exists (un o x), y. rewrite Ex. auto.
  Qed.

  (* the unary node is a level of its own: its assertions first, then the operand with the flag handed down *)
  Theorem unary_level (ignore : bool) (lv : levels V) (o : unop) (nm : string) (c : node V) :
    status ignore lv (NUn o nm c) =
    seq (if ignore then Ok tt else check_level V bin un bin_ok ltb leb of_bool args (here V lv))
        (seq (status ignore (below V nm lv) c) (un_status V bin un args c)).
  Proof. reflexivity. Qed.

  (* with the construction defined, a false assertion attached to the unary level (or below it) is the fit exception *)
  Theorem unary_level_gates (lv : levels V) (o : unop) (nm : string) (c : node V) :
    levels_wf V lv (NUn o nm c) -> ldef V bin un bin_ok ltb leb of_bool args lv ->
    status true lv (NUn o nm c) = Ok tt ->
    status false lv (NUn o nm c) = if all_hold V bin un bin_ok ltb leb of_bool args (flat V lv) then Ok tt else Fit.
  Proof. apply status_flat. Qed.
End P5.
