(* C03 lemmas, part 3: when the construction succeeds the instance has no missing value anywhere. *)
From Coq Require Import List String Bool Arith Lia.
From PAFC01 Require Import ModelTree Proofs8.
From PAFC03 Require Import Model Proofs Proofs2.
Import ListNotations.
Local Open Scope string_scope.
Local Open Scope list_scope.

Section P4.
  Variable V : Type.
  Variable bin : binop -> V -> V -> V.
  Variable un : unop -> V -> V.
  Variable bin_ok : binop -> V -> V -> bool.
  Variable ltb leb : V -> V -> bool.
  Variable of_bool : bool -> V.
  Variable args : nat -> option V.
  Notation status := (status V bin un bin_ok ltb leb of_bool args).
  Notation inst := (inst V bin un args).

  Fixpoint no_missing (i : ival V) : bool :=
    match i with
    | IV _ => true
    | ITup vs => forallb no_missing vs
    | IObj _ fs | IColl fs => forallb (fun kv => no_missing (snd kv)) fs
    | IMissing => false
    end.

  (* the shapes the walk covers completely: tuple members are priors or constants, a collection holds no bare tuple *)
  Definition simple_member (n : node V) : bool := match n with NPrior _ | NConst _ => true | _ => false end.

  Fixpoint covered (n : node V) : bool :=
    match n with
    | NPrior _ | NConst _ => true
    | NTuple ms => forallb (fun m => simple_member (snd (snd m))) ms
    | NBin _ _ _ l r => covered l && covered r
    | NUn _ _ c => covered c
    | NModel _ _ attrs => forallb (fun kc => covered (snd kc)) attrs
    | NColl attrs => forallb (fun kc => negb (is_tuple V (snd kc)) && covered (snd kc)) attrs
    end.

  Lemma in_insert_by {A} (key : A -> nat) (x y : A) (l : list A) : In x (insert_by key y l) -> x = y \/ In x l.
  Proof.
    induction l as [|z l IH]; simpl.
    - intros [<-|[]]. auto.
    - destruct (Nat.leb (key y) (key z)); simpl.
      + intros [<-|[<-|H]]; auto.
      + intros [<-|H]; auto. destruct (IH H); auto.
  Qed.

  Lemma tuple_no_missing (ms : list (string * (nat * node V))) :
    forallb (fun m => simple_member (snd (snd m))) ms = true ->
    tuple_status V args ms = Ok tt ->
    no_missing (inst (NTuple ms)) = true.
  Proof.
    intros C S. cbn [ModelTree.inst no_missing].
    apply forallb_forall. intros x Hx. apply in_map_iff in Hx. destruct Hx as [[i v] [<- Hin]]. simpl.
    unfold tuple_status in S. destruct (forallb _ ms) eqn:F in S; [clear S|discriminate S].
    revert i v Hin. induction ms as [|[k [j c]] ms IH]; intros i v Hin; [contradiction|].
    simpl in C, F. apply andb_true_iff in C. destruct C as [Cc C]. apply andb_true_iff in F. destruct F as [Fc F].
    apply in_insert_by in Hin. destruct Hin as [E|Hin]; [|exact (IH C F i v Hin)].
    inversion E; subst. destruct c; simpl in Cc; try discriminate Cc; cbn [ModelTree.inst].
    - simpl in Fc. destruct (args pid); [reflexivity|discriminate Fc].
    - reflexivity.
  Qed.

  Lemma seq_ok' (a b : res unit) : seq a b = Ok tt -> a = Ok tt /\ b = Ok tt.
  Proof. destruct a as [[]| |]; simpl; intro H; try discriminate H. auto. Qed.

  Lemma assoc_in' {B} (k : string) (l : list (string * B)) (v : B) : assoc k l = Some v -> In (k, v) l.
  Proof.
    induction l as [|[k' v'] l IH]; simpl; [discriminate|].
    destruct (String.eqb_spec k k') as [->|N]; intro H; [inversion H; auto|right; auto].
  Qed.

  Theorem constructed_no_missing (n : node V) : forall lv,
    covered n = true -> status true lv n = Ok tt -> no_missing (inst n) = true.
  Proof.
    induction n as [q|c|ms|o ln rn l r IHl IHr|uo unm uc IHc|cls ctor attrs IH|attrs IH] using (level_ind V); intros lv C S.
    - cbn [Model.status] in S. unfold prior_status in S. cbn [ModelTree.inst]. destruct (args q); [reflexivity|discriminate S].
    - reflexivity.
    - exact (tuple_no_missing ms C S).
    - cbn [Model.status] in S. apply seq_ok' in S. destruct S as [_ S]. apply seq_ok' in S. destruct S as [_ S].
      apply seq_ok' in S. destruct S as [_ S]. unfold arith_status in S. cbn [ModelTree.inst].
      destruct (inst l); try discriminate S. destruct (inst r); try discriminate S. reflexivity.
    - cbn [Model.status] in S. apply seq_ok' in S. destruct S as [_ S]. apply seq_ok' in S. destruct S as [_ S].
      unfold un_status in S.
      assert (Hc : is_const V uc = false) by (destruct uc; try reflexivity; discriminate S).
      rewrite (inst_un V bin un args uo unm uc Hc).
      destruct uc; try discriminate Hc; (destruct (ModelTree.inst V bin un args _); try discriminate S; reflexivity).
    - cbn [Model.status] in S. apply seq_ok' in S. destruct S as [_ S]. apply seq_ok' in S. destruct S as [S1 S].
      apply seq_ok' in S. destruct S as [S2 S3]. cbn [covered] in C.
      assert (K : forall k c, In (k, c) attrs -> no_missing (inst c) = true).
      { clear ctor cls. induction attrs as [|[k' c'] a IHa]; intros k c Hin; [contradiction|].
        inversion IH as [|x y Hc Ha]; subst. simpl in Hc, C, S1, S2, S3.
        apply andb_true_iff in C. destruct C as [Cc C].
        assert (T : no_missing (inst c') = true /\
                    fold_right (fun kc acc => match snd kc with NTuple ms => seq (tuple_status V args ms) acc | _ => acc end) (Ok tt) a = Ok tt /\
                    fold_right (fun kc acc => if is_level V (snd kc) then seq (status true (below V (fst kc) lv) (snd kc)) acc else acc) (Ok tt) a = Ok tt /\
                    fold_right (fun kc acc => match snd kc with NPrior q => seq (prior_status V args q) acc | _ => acc end) (Ok tt) a = Ok tt).
        { destruct c'; simpl in S1, S2, S3.
          - apply seq_ok' in S3. destruct S3 as [Sq S3]. repeat split; auto.
            unfold prior_status in Sq. cbn [ModelTree.inst]. destruct (args pid); [reflexivity|discriminate Sq].
          - repeat split; auto.
          - apply seq_ok' in S1. destruct S1 as [St S1]. repeat split; auto. exact (tuple_no_missing members Cc St).
          - apply seq_ok' in S2. destruct S2 as [Sc S2]. repeat split; auto. exact (Hc _ Cc Sc).
          - apply seq_ok' in S2. destruct S2 as [Sc S2]. repeat split; auto. exact (Hc _ Cc Sc).
          - apply seq_ok' in S2. destruct S2 as [Sc S2]. repeat split; auto. exact (Hc _ Cc Sc).
          - apply seq_ok' in S2. destruct S2 as [Sc S2]. repeat split; auto. exact (Hc _ Cc Sc). }
        destruct T as [T0 [T1 [T2 T3]]].
        destruct Hin as [E|Hin]; [inversion E; subst; exact T0|exact (IHa Ha C T1 T2 T3 k c Hin)]. }
      cbn [ModelTree.inst no_missing].
      set (vals := (fix go (a : list (string * node V)) : list (string * ival V) :=
                      match a with [] => [] | (k, c) :: a' => (k, inst c) :: go a' end) attrs).
      assert (Kv : forall k v, In (k, v) vals -> no_missing v = true).
      { subst vals. clear -K. induction attrs as [|[k' c'] a IHa]; intros k v Hin; [contradiction|].
        destruct Hin as [E|Hin]; [inversion E; subst; apply (K k c'); left; reflexivity|].
        apply (IHa (fun k c H => K k c (or_intror H)) k v Hin). }
      rewrite forallb_app. apply andb_true_iff. split.
      + apply forallb_forall. intros [k v] Hin. apply in_flat_map in Hin. destruct Hin as [c0 [_ Hin]].
        destruct (assoc c0 vals) as [v0|] eqn:A; [|contradiction]. destruct Hin as [E|[]]. inversion E; subst.
        exact (Kv _ _ (assoc_in' _ _ _ A)).
      + apply forallb_forall. intros [k v] Hin. apply filter_In in Hin. destruct Hin as [Hin _]. exact (Kv _ _ Hin).
    - cbn [Model.status] in S. apply seq_ok' in S. destruct S as [_ S]. cbn [covered] in C.
      cbn [ModelTree.inst no_missing].
      induction attrs as [|[k c] a IHa]; [reflexivity|].
      inversion IH as [|x y Hc Ha]; subst. simpl in Hc, C, S |- *.
      apply andb_true_iff in C. destruct C as [Cc C]. apply andb_true_iff in Cc. destruct Cc as [Ct Cc].
      destruct (is_tuple V c); [discriminate Ct|].
      apply seq_ok' in S. destruct S as [Sc S].
      rewrite (Hc _ Cc Sc). simpl. exact (IHa Ha C S).
  Qed.
End P4.

(* ---------- the verdict of an assertion does not depend on the names under which arithmetic priors keep their
   operands (those names come from the caller's variables; since d91c8d6 they can no longer collide with the
   object's own attributes, so they are names only) ---------- *)
Section Names.
  Variable V : Type.
  Variable bin : binop -> V -> V -> V.
  Variable un : unop -> V -> V.
  Variable bin_ok : binop -> V -> V -> bool.
  Variable ltb leb : V -> V -> bool.
  Variable of_bool : bool -> V.
  Variable args : nat -> option V.
  Notation operand := (operand V bin un bin_ok args).
  Notation holds := (holds V bin un bin_ok ltb leb of_bool args).

  (* forget every operand name inside an operand expression *)
  Fixpoint erase (n : node V) : node V :=
    match n with
    | NBin o _ _ l r => NBin o "" "" (erase l) (erase r)
    | NUn o _ c => NUn o "" (erase c)
    | _ => n
    end.

  Fixpoint erase_a (a : assertion V) : assertion V :=
    match a with
    | ALt l g => ALt (erase l) (erase g)
    | ALe l g => ALe (erase l) (erase g)
    | AAnd x y => AAnd (erase_a x) (erase_a y)
    | ALit b => ALit b
    | ALowB s x g => ALowB s (erase_a x) (erase g)
    | AGrB s l x => AGrB s (erase l) (erase_a x)
    end.

  Lemma operand_erase (n : node V) : operand (erase n) = operand n.
  Proof.
    induction n as [q|c|ms|o ln rn l r IHl IHr|uo unm uc IHc|cls ctor attrs _|attrs _] using (level_ind V); try reflexivity.
    - cbn [erase Model.operand]. rewrite IHl, IHr. reflexivity.
    - cbn [erase Model.operand]. rewrite IHc. destruct uc; reflexivity.
  Qed.

  Lemma erase_a_lit (a : assertion V) : is_lit V (erase_a a) = is_lit V a.
  Proof. destruct a; reflexivity. Qed.

  Theorem holds_erase (a : assertion V) : holds (erase_a a) = holds a.
  Proof.
    induction a as [l g|l g|x IHx y IHy|b|s x IHx g|s l x IHx]; cbn [erase_a Model.holds];
      rewrite ?operand_erase, ?IHx, ?IHy; try reflexivity.
    destruct (holds x) as [[|]| |]; try reflexivity.
    destruct y; try exact IHy; reflexivity.
  Qed.

  (* two assertions written on the same operands under different variable names have the same verdict *)
  Corollary names_irrelevant (a b : assertion V) : erase_a a = erase_a b -> holds a = holds b.
  Proof. intro E. rewrite <- (holds_erase a), <- (holds_erase b), E. reflexivity. Qed.
End Names.
