(* Non-vacuity and refuted witnesses for C03 (values in Z; true division replaced by Z division, which
   like Python raises on a zero divisor). *)
From Coq Require Import List String Bool ZArith.
From PAFC01 Require Import ModelTree Proofs8.
From PAFC03 Require Import Model Proofs Proofs2 Proofs3 Proofs4.
Import ListNotations.
Local Open Scope string_scope.
Local Open Scope list_scope.

Definition zbin (o : binop) (a b : Z) : Z :=
  match o with OAdd => (a + b)%Z | OSub => (a - b)%Z | OMul => (a * b)%Z | ODiv => (a / b)%Z
  | OFloorDiv => (a / b)%Z | OMod => (a mod b)%Z end.   (* Z.div / Z.modulo: floor division, remainder with the sign of the divisor *)
Definition zun (o : unop) (a : Z) : Z := match o with UNeg => (- a)%Z | UAbs => Z.abs a end.
Definition zbin_ok (o : binop) (a b : Z) : bool := match o with ODiv | OFloorDiv | OMod => negb (Z.eqb b 0) | _ => true end.
Definition zof_bool (b : bool) : Z := if b then 1%Z else 0%Z.

Notation zrun := (run Z zbin zun zbin_ok Z.ltb Z.leb zof_bool).
Notation zgate := (gate Z zbin zun zbin_ok Z.ltb Z.leb zof_bool).
Notation zholds := (holds Z zbin zun zbin_ok Z.ltb Z.leb zof_bool).
Notation zstatus := (status Z zbin zun zbin_ok Z.ltb Z.leb zof_bool).
Notation zchain := (chain Z Z.ltb Z.leb).
Notation zchain_legacy := (chain_legacy Z Z.ltb Z.leb).
Notation zdenote := (denote Z Z.ltb Z.leb).

Definition g2 : node Z := NModel "G2" ["a"; "b"] [("a", NPrior 0); ("b", NPrior 1)].
Definition ex : node Z := NColl [("g", g2); ("h", NModel "G2" ["a"; "b"] [("a", NBin OAdd "p" "q" (NPrior 1) (NPrior 2)); ("b", NConst 4%Z)])].
Definition ex_lims : list (limit Z) := [(0, (0%Z, 10%Z)); (1, (0%Z, 10%Z)); (2, (0%Z, 10%Z))].
Definition a01 : assertion Z := ALt (NPrior 0) (NPrior 1).
(* one assertion on the child model g, one on the CompoundPrior h.a, a literal on the root *)
Definition ex_lv : levels Z := [(["g"], [a01]); (["h"; "a"], [ALe (NPrior 2) (NConst 5%Z)]); ([], [ALit true])].

Example accepted : zrun false ex_lims ex_lv ex [1; 2; 3]%Z =
  VOk (IColl [("g", IObj "G2" [("a", IV 1%Z); ("b", IV 2%Z)]); ("h", IObj "G2" [("a", IV 5%Z); ("b", IV 4%Z)])]).
Proof. vm_compute. reflexivity. Qed.
Example child_assertion_rejected : zrun false ex_lims ex_lv ex [2; 2; 3]%Z = VAssert.
Proof. vm_compute. reflexivity. Qed.
Example compound_level_assertion_rejected : zrun false ex_lims ex_lv ex [1; 2; 6]%Z = VAssert.
Proof. vm_compute. reflexivity. Qed.
Example limit_rejected : zrun false ex_lims ex_lv ex [1; 11; 3]%Z = VLimit.
Proof. vm_compute. reflexivity. Qed.
Example limit_before_assertion : zrun false ex_lims ex_lv ex [2; 2; 11]%Z = VLimit.
Proof. vm_compute. reflexivity. Qed.
Example ignored : zrun true ex_lims ex_lv ex [5; 11; 3]%Z =
  VOk (IColl [("g", IObj "G2" [("a", IV 5%Z); ("b", IV 11%Z)]); ("h", IObj "G2" [("a", IV 14%Z); ("b", IV 4%Z)])]).
Proof. vm_compute. reflexivity. Qed.
Example wrong_length : zrun false ex_lims ex_lv ex [1; 2]%Z = VLength /\ zrun true ex_lims ex_lv ex [1; 2; 3; 4]%Z = VLength.
Proof. vm_compute. auto. Qed.

(* the guards of the _partial theorems are satisfiable *)
Example guards_wf : levels_wf Z ex_lv ex.
Proof. intros e [<-|[<-|[<-|[]]]]; reflexivity. Qed.
Example guards_ldef : ldef Z zbin zun zbin_ok Z.ltb Z.leb zof_bool (vec_args Z ex [2; 2; 3]%Z) ex_lv.
Proof. intros e a [<-|[<-|[<-|[]]]] [<-|[]]; reflexivity. Qed.
Example guards_constructible : constructible Z zbin zun zbin_ok Z.ltb Z.leb zof_bool ex [2; 2; 3]%Z.
Proof. vm_compute. reflexivity. Qed.
Example guards_covered : covered Z ex = true.
Proof. reflexivity. Qed.
Example run_is_gate_instance : zrun false ex_lims ex_lv ex [2; 2; 3]%Z = zgate false ex_lims (flat Z ex_lv) ex [2; 2; 3]%Z.
Proof. vm_compute. reflexivity. Qed.

(* second branch of C03_rejects_partial, and its hypotheses *)
Example rejects_second_branch :
  within Z Z.leb ex_lims (vec_args Z ex [2; 2; 3]%Z) = true /\
  all_hold Z zbin zun zbin_ok Z.ltb Z.leb zof_bool (vec_args Z ex [2; 2; 3]%Z) (flat Z ex_lv) = false.
Proof. vm_compute. auto. Qed.
Example limits_direct_instance : within Z Z.leb ex_lims (vec_args Z ex [1; 10; 0]%Z) = true /\
                                 within Z Z.leb ex_lims (vec_args Z ex [1; 11; 0]%Z) = false.
Proof. vm_compute. auto. Qed.
Example covers_instance : covers Z ex_lims (ordered_ids Z ex).
Proof. intros q H. vm_compute in H. destruct H as [<-|[<-|[<-|[]]]]; eexists; eexists; simpl; eauto. Qed.
Example assertions_direct_instance :
  all_hold Z zbin zun zbin_ok Z.ltb Z.leb zof_bool (vec_args Z ex [1; 2; 3]%Z) (flat Z ex_lv) = true.
Proof. vm_compute. reflexivity. Qed.
Example verdict_le_boundary : zholds (vec_args Z ex [2; 2; 3]%Z) (ALe (NPrior 0) (NPrior 1)) = Ok true /\
                              zholds (vec_args Z ex [2; 2; 3]%Z) (ALt (NPrior 0) (NPrior 1)) = Ok false.
Proof. vm_compute. auto. Qed.

(* operand names are names only *)
Example names_irrelevant_instance :
  erase_a Z (ALt (NBin OAdd "centre" "left" (NPrior 0) (NPrior 1)) (NConst 5%Z)) =
  erase_a Z (ALt (NBin OAdd "x" "y" (NPrior 0) (NPrior 1)) (NConst 5%Z)).
Proof. reflexivity. Qed.

(* operators *)
Example reflected_constant_left : cmp_nodes Z Z.ltb Z.leb CLt (NConst 5%Z) (NPrior 0) = Some (ALt (NConst 5%Z) (NPrior 0)).
Proof. reflexivity. Qed.
Example greater_swaps : cmp_nodes Z Z.ltb Z.leb CGe (NPrior 0) (NPrior 1) = Some (ALe (NPrior 1) (NPrior 0)).
Proof. reflexivity. Qed.
Example chain_lt_exists : zchain a01 (NPrior 0, NPrior 1) CLt (NConst 9%Z) =
  Some (AAnd a01 (ALt (NPrior 1) (NConst 9%Z)), (NPrior 0, NConst 9%Z)).
Proof. reflexivity. Qed.
Example chain_gt_exists : zchain a01 (NPrior 0, NPrior 1) CGt (NPrior 2) =
  Some (AAnd a01 (ALt (NPrior 2) (NPrior 0)), (NPrior 2, NPrior 1)).
Proof. reflexivity. Qed.

(* ---------- REFUTED: the unguarded statements are false of the code ---------- *)
Definition flat3 : node Z := NModel "G3" ["x"; "y"; "z"] [("x", NPrior 0); ("y", NPrior 1); ("z", NPrior 2)].
Definition two_links : assertion Z := AAnd a01 (ALt (NPrior 1) (NPrior 2)).       (* (x < y) < z *)

(* three links (the code since 33cdc7f): ((x < y) < z) < z is the three inequalities; the vector [3; 2; 5]
   violates x < y and is rejected; a constant as last operand is fine too *)
Definition three_written : recipe Z := RChain (RChain (RCmp CLt (NPrior 0) (NPrior 1)) CLt (NPrior 2)) CLt (NPrior 2).
Example chain3_guard : rguard Z three_written = true.
Proof. reflexivity. Qed.
Example chain3_rejected :
  zdenote three_written = Some (AAnd two_links (ALt (NPrior 2) (NPrior 2)), Some (NPrior 0, NPrior 2)) /\
  zrun false ex_lims [([], [AAnd two_links (ALt (NPrior 2) (NPrior 2))])] flat3 [3; 2; 5]%Z = VAssert.
Proof. vm_compute. auto. Qed.
Example chain3_constant_last :
  zdenote (RChain (RChain (RCmp CLt (NPrior 0) (NPrior 1)) CLt (NPrior 2)) CLe (NConst 9%Z)) =
    Some (AAnd two_links (ALe (NPrior 2) (NConst 9%Z)), Some (NPrior 0, NConst 9%Z)).
Proof. reflexivity. Qed.
Example chain3_mixed_directions :      (* ((x < y) > z) <= 9 :  z < x < y <= 9 *)
  zdenote (RChain (RChain (RCmp CLt (NPrior 0) (NPrior 1)) CGt (NPrior 2)) CLe (NConst 9%Z)) =
    Some (AAnd (AAnd a01 (ALt (NPrior 2) (NPrior 0))) (ALe (NPrior 1) (NConst 9%Z)), Some (NPrior 2, NConst 9%Z)).
Proof. reflexivity. Qed.

(* HISTORY (finding chain-3-links, repaired by 33cdc7f): the legacy operators built "truth value of the
   two-link chain < z", and the vector [3; 2; 5], which violates x < y, was accepted *)
Example C03_chain3_legacy_refuted :
  exists (t : assertion Z) (vec : list Z),
    zchain_legacy two_links CLt (NPrior 2) = Some t /\
    zholds (vec_args Z flat3 vec) two_links = Ok false /\
    zholds (vec_args Z flat3 vec) t = Ok true /\
    zrun false ex_lims [([], [t])] flat3 vec = VOk (IObj "G3" [("x", IV 3%Z); ("y", IV 2%Z); ("z", IV 5%Z)]).
Proof. exists (ALowB true two_links (NPrior 2)), [3; 2; 5]%Z. vm_compute. auto. Qed.
Example C03_chain3_constant_legacy_unsupported : zchain_legacy two_links CLt (NConst 9%Z) = None.
Proof. reflexivity. Qed.

(* an operand that is not a parameter of the model: KeyError, not the fit exception (guard ldef) *)
Example C03_rejects_refuted :
  exists (lv : levels Z) (vec : list Z),
    levels_wf Z lv g2 /\ constructible Z zbin zun zbin_ok Z.ltb Z.leb zof_bool g2 vec /\
    List.length vec = prior_count Z g2 /\
    within Z Z.leb ex_lims (vec_args Z g2 vec) = true /\
    all_hold Z zbin zun zbin_ok Z.ltb Z.leb zof_bool (vec_args Z g2 vec) (flat Z lv) = false /\
    zrun false ex_lims lv g2 vec = VError EKey.
Proof.
  exists [([], [ALt (NPrior 0) (NPrior 7)])], [1; 2]%Z. split.
  - intros e [<-|[]]. reflexivity.
  - vm_compute. auto 6.
Qed.

(* a division by zero in an assertion: ZeroDivisionError, not the fit exception (guard ldef) *)
Example C03_rejects_zero_division_refuted :
  zrun false ex_lims [([], [ALt (NBin ODiv "l" "r" (NPrior 0) (NPrior 1)) (NConst 3%Z)])] g2 [1; 0]%Z = VError EZero.
Proof. vm_compute. reflexivity. Qed.

(* a division by zero in the model itself: ignoring limits/assertions does not produce an instance (guard constructible) *)
Example C03_ignore_total_refuted :
  exists (n : node Z) (vec : list Z), List.length vec = prior_count Z n /\ zrun true ex_lims [] n vec = VError EZero.
Proof.
  exists (NModel "G2" ["a"; "b"] [("a", NBin ODiv "l" "r" (NPrior 0) (NPrior 1)); ("b", NPrior 1)]), [1; 0]%Z.
  vm_compute. auto.
Qed.

(* an assertion list recorded for a path that is not a level of the model is never looked at (guard levels_wf) *)
Example C03_levels_flat_refuted :
  exists (lv : levels Z) (vec : list Z),
    ldef Z zbin zun zbin_ok Z.ltb Z.leb zof_bool (vec_args Z g2 vec) lv /\
    zstatus (vec_args Z g2 vec) true lv g2 = Ok tt /\
    all_hold Z zbin zun zbin_ok Z.ltb Z.leb zof_bool (vec_args Z g2 vec) (flat Z lv) = false /\
    zstatus (vec_args Z g2 vec) false lv g2 = Ok tt.
Proof.
  exists [(["nowhere"], [a01])], [2; 1]%Z. split.
  - intros e a [<-|[]] [<-|[]]. reflexivity.
  - vm_compute. auto.
Qed.

(* exceptions inside one check_assertions call escape even when an earlier assertion is already false *)
Example error_after_false_assertion :
  zrun false ex_lims [([], [a01; ALt (NPrior 0) (NPrior 7)])] g2 [2; 1]%Z = VError EKey.
Proof. vm_compute. reflexivity. Qed.

(* a bool stored inside a CompoundAssertion cannot be evaluated: (p < 5) < 9 with both constants *)
Example and_of_literal_unsupported :
  zholds (vec_args Z g2 [1; 2]%Z) (AAnd a01 (ALit true)) = Err EAttr.
Proof. vm_compute. reflexivity. Qed.

(* OUT OF SCOPE, stated for the record: instance_from_path_arguments looks neither at limits nor at the
   assertions of the root level, but does check every child level *)
Example paths_route_skips_root_and_limits :
  run_paths Z zbin zun zbin_ok Z.ltb Z.leb zof_bool false [([], [a01])] g2 (vec_args Z g2 [30; 20]%Z) =
    VOk (IObj "G2" [("a", IV 30%Z); ("b", IV 20%Z)]) /\
  zrun false ex_lims [([], [a01])] g2 [3; 2]%Z = VAssert /\
  run_paths Z zbin zun zbin_ok Z.ltb Z.leb zof_bool false [(["g"], [a01])] (NColl [("g", g2)]) (vec_args Z g2 [3; 2]%Z) = VAssert.
Proof. vm_compute. auto. Qed.

(* ---------- the unary node: Model(G2, a = abs(p0 - p1), b = -p1); assertions on the unary level m.a, on the
   compound level below it (m.a.self) and one written with unary operands on the root: -p1 < p0 - p1 ---------- *)
Definition exun : node Z :=
  NModel "G2" ["a"; "b"]
    [("a", NUn UAbs "self" (NBin OAdd "p0" "other" (NPrior 0) (NUn UNeg "p1" (NPrior 1))));
     ("b", NUn UNeg "p1" (NPrior 1))].
Definition exun_lims : list (limit Z) := [(0, (0%Z, 10%Z)); (1, (0%Z, 10%Z))].
Definition exun_lv : levels Z :=
  [(["a"], [ALt (NPrior 0) (NConst 9%Z)]);
   (["a"; "self"], [ALe (NPrior 1) (NConst 8%Z)]);
   ([], [ALt (NUn UNeg "x" (NPrior 1)) (NBin OAdd "a" "b" (NPrior 0) (NUn UNeg "y" (NPrior 1)))])].

Example exun_accepted : zrun false exun_lims exun_lv exun [3; 7]%Z = VOk (IObj "G2" [("a", IV 4%Z); ("b", IV (-7)%Z)]).
Proof. vm_compute. reflexivity. Qed.
Example exun_unary_level_rejects : zrun false exun_lims exun_lv exun [9; 7]%Z = VAssert.
Proof. vm_compute. reflexivity. Qed.
Example exun_below_unary_level_rejects : zrun false exun_lims exun_lv exun [3; 9]%Z = VAssert.
Proof. vm_compute. reflexivity. Qed.
Example exun_unary_operands_reject : zrun false exun_lims exun_lv exun [0; 7]%Z = VAssert.
Proof. vm_compute. reflexivity. Qed.
Example exun_ignored : zrun true exun_lims exun_lv exun [9; 9]%Z = VOk (IObj "G2" [("a", IV 0%Z); ("b", IV (-9)%Z)]).
Proof. vm_compute. reflexivity. Qed.

(* guards of the _partial theorems with unary levels *)
Example exun_guards :
  levels_wf Z exun_lv exun /\ constructible Z zbin zun zbin_ok Z.ltb Z.leb zof_bool exun [3; 7]%Z /\ covered Z exun = true.
Proof. split; [intros e [<-|[<-|[<-|[]]]]; reflexivity|]. split; vm_compute; reflexivity. Qed.
Example exun_ldef : ldef Z zbin zun zbin_ok Z.ltb Z.leb zof_bool (vec_args Z exun [3; 7]%Z) exun_lv.
Proof. intros e a [<-|[<-|[<-|[]]]] [<-|[]]; reflexivity. Qed.

(* C03_unary_operand / C03_sub_operand / C03_verdict_lt_unary: hypotheses met *)
Example exun_operand_hyp :
  is_const Z (NPrior 1) = false /\
  operand Z zbin zun zbin_ok (vec_args Z exun [3; 7]%Z) (NPrior 1) = Ok 7%Z /\
  operand Z zbin zun zbin_ok (vec_args Z exun [3; 7]%Z) (NUn UNeg "x" (NPrior 1)) = Ok (-7)%Z /\
  operand Z zbin zun zbin_ok (vec_args Z exun [3; 7]%Z) (NBin OAdd "a" "b" (NPrior 0) (NUn UNeg "y" (NPrior 1))) = Ok (-4)%Z.
Proof. vm_compute. repeat split; reflexivity. Qed.
(* second half of C03_unary_operand: a foreign operand (KeyError) under a unary form *)
Example exun_operand_err :
  operand Z zbin zun zbin_ok (vec_args Z exun [3; 7]%Z) (NUn UAbs "x" (NPrior 5)) = Err EKey.
Proof. vm_compute. reflexivity. Qed.
(* C03_unary_level_gates_partial on the unary sub-model m.a with its own two levels *)
Example exun_level_gates_hyp :
  let sub := NUn UAbs "self" (NBin OAdd "p0" "other" (NPrior 0) (NUn UNeg "p1" (NPrior 1))) in
  let lv := [([], [ALt (NPrior 0) (NConst 9%Z)]); (["self"], [ALe (NPrior 1) (NConst 8%Z)])] in
  levels_wf Z lv sub /\ zstatus (vec_args Z exun [3; 9]%Z) true lv sub = Ok tt /\
  zstatus (vec_args Z exun [3; 9]%Z) false lv sub = Fit.
Proof. split; [intros e [<-|[<-|[]]]; reflexivity|]. split; vm_compute; reflexivity. Qed.
