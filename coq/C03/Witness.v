(* Non-vacuity for C03. *)
From Coq Require Import List String Bool ZArith.
From PAFC01 Require Import ModelTree.
From PAFC03 Require Import Model Proofs.
Import ListNotations.
Local Open Scope string_scope.
Local Open Scope list_scope.

Definition zbin (o : binop) (a b : Z) : Z :=
  match o with OAdd => (a + b)%Z | OSub => (a - b)%Z | OMul => (a * b)%Z | ODiv => (a / b)%Z end.
Definition ex : node Z := NModel "G2" ["a"; "b"] [("a", NPrior 0); ("b", NPrior 1)].
Definition ex_lims : list (limit Z) := [(0, (0%Z, 10%Z)); (1, (0%Z, 10%Z))].
Definition ex_asserts : list (assertion Z) := [ALt (NPrior 0) (NPrior 1)].

Example accepted : gate Z zbin Z.ltb Z.leb false ex_lims ex_asserts ex [1%Z; 2%Z] = VOk (IObj "G2" [("a", IV 1%Z); ("b", IV 2%Z)]).
Proof. vm_compute. reflexivity. Qed.
Example assertion_rejected : gate Z zbin Z.ltb Z.leb false ex_lims ex_asserts ex [2%Z; 2%Z] = VAssert.
Proof. vm_compute. reflexivity. Qed.
Example limit_rejected : gate Z zbin Z.ltb Z.leb false ex_lims ex_asserts ex [1%Z; 11%Z] = VLimit.
Proof. vm_compute. reflexivity. Qed.
Example ignored : gate Z zbin Z.ltb Z.leb true ex_lims ex_asserts ex [5%Z; 11%Z] = VOk (IObj "G2" [("a", IV 5%Z); ("b", IV 11%Z)]).
Proof. vm_compute. reflexivity. Qed.
Example chain_exists : chain_lt Z (ALt (NPrior 0) (NPrior 1)) (NConst 9%Z) = Some (AAnd (ALt (NPrior 0) (NPrior 1)) (ALt (NPrior 1) (NConst 9%Z))).
Proof. reflexivity. Qed.
