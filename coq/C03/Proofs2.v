(* C03 lemmas, part 2: "any nesting level".  The code checks the assertions of one level at a time while it
   walks down the model (status); the specification evaluates one flat list.  By induction on the tree the
   two agree whenever every level path is a path to a level of the tree, the construction itself is
   defined and every assertion is defined on the values. *)
From Coq Require Import List String Bool Arith Lia.
From PAFC01 Require Import ModelTree.
From PAFC03 Require Import Model Proofs.
Import ListNotations.
Local Open Scope string_scope.
Local Open Scope list_scope.

Section Ind.
  Variable V : Type.
  Variable P : node V -> Prop.
  Hypothesis Hprior : forall p, P (NPrior p).
  Hypothesis Hconst : forall v, P (NConst v).
  Hypothesis Htuple : forall ms, P (NTuple ms).
  Hypothesis Hbin : forall o ln rn l r, P l -> P r -> P (NBin o ln rn l r).
  Hypothesis Hun : forall o nm c, P c -> P (NUn o nm c).
  Hypothesis Hmodel : forall cls ctor attrs, Forall (fun a => P (snd a)) attrs -> P (NModel cls ctor attrs).
  Hypothesis Hcoll : forall attrs, Forall (fun a => P (snd a)) attrs -> P (NColl attrs).

  Fixpoint level_ind (n : node V) : P n :=
    match n with
    | NPrior p => Hprior p
    | NConst v => Hconst v
    | NTuple ms => Htuple ms
    | NBin o ln rn l r => Hbin o ln rn l r (level_ind l) (level_ind r)
    | NUn o nm c => Hun o nm c (level_ind c)
    | NModel cls ctor attrs =>
        Hmodel cls ctor attrs ((fix go (a : list (string * node V)) : Forall (fun a => P (snd a)) a :=
                                  match a with
                                  | [] => Forall_nil _
                                  | x :: a' => Forall_cons x (level_ind (snd x)) (go a')
                                  end) attrs)
    | NColl attrs =>
        Hcoll attrs ((fix go (a : list (string * node V)) : Forall (fun a => P (snd a)) a :=
                        match a with
                        | [] => Forall_nil _
                        | x :: a' => Forall_cons x (level_ind (snd x)) (go a')
                        end) attrs)
    end.
End Ind.

Section P2.
  Variable V : Type.
  Variable bin : binop -> V -> V -> V.
  Variable un : unop -> V -> V.
  Variable bin_ok : binop -> V -> V -> bool.
  Variable ltb leb : V -> V -> bool.
  Variable of_bool : bool -> V.
  Variable args : nat -> option V.
  Notation holds := (holds V bin un bin_ok ltb leb of_bool args).
  Notation all_hold := (all_hold V bin un bin_ok ltb leb of_bool args).
  Notation check_all := (check_all V bin un bin_ok ltb leb of_bool args).
  Notation check_level := (check_level V bin un bin_ok ltb leb of_bool args).
  Notation status := (status V bin un bin_ok ltb leb of_bool args).
  Notation levels := (levels V).
  Notation here := (here V).
  Notation below := (below V).
  Notation flat := (flat V).
  Notation is_level := (is_level V).
  Notation is_tuple := (is_tuple V).

  (* ---------- paths that lead to a level (Model, Collection, CompoundPrior, ModifiedPrior) of the tree ---------- *)
  Fixpoint level_at (p : path) (n : node V) : bool :=
    match p with
    | [] => is_level n
    | k :: p' =>
        match n with
        | NModel _ _ attrs | NColl attrs => existsb (fun kc => String.eqb k (fst kc) && level_at p' (snd kc)) attrs
        | NBin _ ln rn l r => (String.eqb k ln && level_at p' l) || (String.eqb k rn && level_at p' r)
        | NUn _ nm c => String.eqb k nm && level_at p' c
        | _ => false
        end
    end.

  Lemma level_at_kind (p : path) (n : node V) : level_at p n = true -> is_level n = true.
  Proof. destruct p; destruct n; simpl; intro H; try discriminate H; try reflexivity; exact H. Qed.

  (* ---------- an assertion is defined on the values: evaluating it raises nothing ---------- *)
  Definition adef (a : assertion V) : bool := match holds a with Ok _ => true | _ => false end.
  Definition ldef (lv : levels) : Prop := forall e a, In e lv -> In a (snd e) -> adef a = true.

  Lemma in_here (lv : levels) (a : assertion V) :
    In a (here lv) <-> exists e, In e lv /\ fst e = [] /\ In a (snd e).
  Proof.
    unfold Model.here. rewrite in_flat_map. split.
    - intros [[p l] [He Ha]]. exists (p, l). simpl in *. destruct p; [auto|contradiction].
    - intros [[p l] [He [F Ha]]]. exists (p, l). simpl in *. subst p. auto.
  Qed.

  Lemma in_below (k : string) (lv : levels) (e' : path * list (assertion V)) :
    In e' (below k lv) <-> exists e, In e lv /\ fst e = k :: fst e' /\ snd e = snd e'.
  Proof.
    unfold Model.below. rewrite in_flat_map. split.
    - intros [[p l] [He H]]. exists (p, l). simpl in *. destruct p as [|k' p']; [contradiction|].
      destruct (String.eqb_spec k k') as [->|N]; [|contradiction].
      destruct H as [<-|[]]. simpl. auto.
    - intros [[p l] [He [F S]]]. exists (p, l). split; [exact He|]. destruct e' as [p' l']. simpl in *. subst p l.
      rewrite String.eqb_refl. left. reflexivity.
  Qed.

  Lemma in_flat (lv : levels) (a : assertion V) : In a (flat lv) <-> exists e, In e lv /\ In a (snd e).
  Proof. unfold Model.flat. apply in_flat_map. Qed.

  Lemma ldef_here (lv : levels) : ldef lv -> forall a, In a (here lv) -> adef a = true.
  Proof. intros D a H. apply in_here in H. destruct H as [e [He [_ Ha]]]. exact (D e a He Ha). Qed.

  Lemma ldef_below (k : string) (lv : levels) : ldef lv -> ldef (below k lv).
  Proof.
    intros D e' a He' Ha. apply in_below in He'. destruct He' as [e [He [_ S]]].
    apply (D e a He). rewrite S. exact Ha.
  Qed.

  (* check_assertions on defined assertions: FitException exactly when one of them is false *)
  Lemma check_all_defined (l : list (assertion V)) :
    (forall a, In a l -> adef a = true) -> check_all l = Ok (all_hold l).
  Proof.
    induction l as [|a l IH]; intro D; [reflexivity|].
    simpl. assert (Da := D a (or_introl eq_refl)). unfold adef in Da.
    destruct (holds a) as [x| |]; try discriminate Da.
    rewrite IH; [|intros b Hb; apply D; right; exact Hb].
    destruct x; reflexivity.
  Qed.

  Lemma check_level_defined (l : list (assertion V)) :
    (forall a, In a l -> adef a = true) -> check_level l = if all_hold l then Ok tt else Fit.
  Proof. intro D. unfold Model.check_level. rewrite (check_all_defined l D). destruct (all_hold l); reflexivity. Qed.

  Lemma seq_ok (a b : res unit) : seq a b = Ok tt -> a = Ok tt /\ b = Ok tt.
  Proof. destruct a as [[]| |]; simpl; intro H; try discriminate H. auto. Qed.

  Lemma seq_if (x y : bool) :
    seq (if x then Ok tt else Fit) (if y then Ok tt else Fit) = if x && y then Ok tt else Fit.
  Proof. destruct x, y; reflexivity. Qed.

  (* ---------- which levels the walk visits, and whether all their assertions hold ---------- *)
  Fixpoint visited_hold (lv : levels) (n : node V) {struct n} : bool :=
    match n with
    | NBin _ ln rn l r => all_hold (here lv) && (visited_hold (below ln lv) l && visited_hold (below rn lv) r)
    | NUn _ nm c => all_hold (here lv) && visited_hold (below nm lv) c
    | NModel _ _ attrs =>
        all_hold (here lv) &&
        forallb (fun kc => if is_level (snd kc) then visited_hold (below (fst kc) lv) (snd kc) else true) attrs
    | NColl attrs =>
        all_hold (here lv) &&
        forallb (fun kc => if is_tuple (snd kc) then true else visited_hold (below (fst kc) lv) (snd kc)) attrs
    | _ => true
    end.

  (* Lemma 1 (induction on the tree): with the construction and the assertions defined, the level-by-level
     walk raises the fit exception exactly when a visited level has a false assertion *)
  Lemma status_visited (n : node V) : forall lv,
    ldef lv -> status true lv n = Ok tt ->
    status false lv n = if visited_hold lv n then Ok tt else Fit.
  Proof.
    induction n as [q|c|ms|o ln rn l r IHl IHr|uo unm uc IHc|cls ctor attrs IH|attrs IH] using (level_ind V); intros lv D S.
    - simpl in *. exact S.
    - reflexivity.
    - simpl in *. exact S.
    - cbn [Model.status] in S. apply seq_ok in S. destruct S as [_ S].
      apply seq_ok in S. destruct S as [Sl S]. apply seq_ok in S. destruct S as [Sr Sa].
      cbn [Model.status visited_hold].
      rewrite (check_level_defined _ (ldef_here lv D)).
      rewrite (IHl _ (ldef_below ln lv D) Sl), (IHr _ (ldef_below rn lv D) Sr), Sa.
      destruct (all_hold (here lv)), (visited_hold (below ln lv) l), (visited_hold (below rn lv) r); reflexivity.
    - cbn [Model.status] in S. apply seq_ok in S. destruct S as [_ S].
      apply seq_ok in S. destruct S as [Sc Sa].
      cbn [Model.status visited_hold].
      rewrite (check_level_defined _ (ldef_here lv D)).
      rewrite (IHc _ (ldef_below unm lv D) Sc), Sa.
      destruct (all_hold (here lv)), (visited_hold (below unm lv) uc); reflexivity.
    - cbn [Model.status] in S. apply seq_ok in S. destruct S as [_ S].
      apply seq_ok in S. destruct S as [S1 S]. apply seq_ok in S. destruct S as [S2 S3].
      cbn [Model.status visited_hold].
      rewrite (check_level_defined _ (ldef_here lv D)), S1, S3.
      assert (G : fold_right (fun kc acc => if is_level (snd kc)
                                            then seq (status false (below (fst kc) lv) (snd kc)) acc else acc) (Ok tt) attrs
                  = if forallb (fun kc => if is_level (snd kc) then visited_hold (below (fst kc) lv) (snd kc) else true) attrs
                    then Ok tt else Fit).
      { clear S1 S3. induction attrs as [|[k c] a IHa]; [reflexivity|].
        inversion IH as [|x y Hc Ha]; subst. simpl in Hc, S2 |- *.
        destruct (is_level c) eqn:L.
        - apply seq_ok in S2. destruct S2 as [Sc Sa].
          rewrite (Hc _ (ldef_below k lv D) Sc), (IHa Ha Sa). apply seq_if.
        - exact (IHa Ha S2). }
      rewrite G.
      destruct (all_hold (here lv)), (forallb _ attrs); reflexivity.
    - cbn [Model.status] in S. apply seq_ok in S. destruct S as [_ S].
      cbn [Model.status visited_hold].
      rewrite (check_level_defined _ (ldef_here lv D)).
      assert (G : fold_right (fun kc acc => if is_tuple (snd kc) then acc
                                            else seq (status false (below (fst kc) lv) (snd kc)) acc) (Ok tt) attrs
                  = if forallb (fun kc => if is_tuple (snd kc) then true else visited_hold (below (fst kc) lv) (snd kc)) attrs
                    then Ok tt else Fit).
      { induction attrs as [|[k c] a IHa]; [reflexivity|].
        inversion IH as [|x y Hc Ha]; subst. simpl in Hc, S |- *.
        destruct (is_tuple c) eqn:L.
        - exact (IHa Ha S).
        - apply seq_ok in S. destruct S as [Sc Sa].
          rewrite (Hc _ (ldef_below k lv D) Sc), (IHa Ha Sa). apply seq_if. }
      rewrite G.
      destruct (all_hold (here lv)), (forallb _ attrs); reflexivity.
  Qed.

  (* Lemma 2a: if every inequality of the flat list holds then so does every visited level *)
  Definition all_true (lv : levels) : Prop := forall e a, In e lv -> In a (snd e) -> holds a = Ok true.

  Lemma all_true_flat (lv : levels) : all_hold (flat lv) = true <-> all_true lv.
  Proof.
    rewrite all_hold_spec. split.
    - intros H e a He Ha. apply H. apply in_flat. exists e. auto.
    - intros H a Ha. apply in_flat in Ha. destruct Ha as [e [He Ha]]. exact (H e a He Ha).
  Qed.

  Lemma all_true_here (lv : levels) : all_true lv -> all_hold (here lv) = true.
  Proof.
    intro H. apply all_hold_spec. intros a Ha. apply in_here in Ha. destruct Ha as [e [He [_ Ha]]]. exact (H e a He Ha).
  Qed.

  Lemma all_true_below (k : string) (lv : levels) : all_true lv -> all_true (below k lv).
  Proof.
    intros H e' a He' Ha. apply in_below in He'. destruct He' as [e [He [_ S]]].
    apply (H e a He). rewrite S. exact Ha.
  Qed.

  Lemma flat_visited (n : node V) : forall lv, all_true lv -> visited_hold lv n = true.
  Proof.
    induction n as [q|c|ms|o ln rn l r IHl IHr|uo unm uc IHc|cls ctor attrs IH|attrs IH] using (level_ind V); intros lv H;
      try reflexivity; cbn [visited_hold]; rewrite (all_true_here lv H); simpl.
    - rewrite (IHl _ (all_true_below ln lv H)), (IHr _ (all_true_below rn lv H)). reflexivity.
    - exact (IHc _ (all_true_below unm lv H)).
    - apply forallb_forall. intros [k c] Hin. simpl. destruct (is_level c); [|reflexivity].
      rewrite Forall_forall in IH. exact (IH (k, c) Hin _ (all_true_below k lv H)).
    - apply forallb_forall. intros [k c] Hin. simpl. destruct (is_tuple c); [reflexivity|].
      rewrite Forall_forall in IH. exact (IH (k, c) Hin _ (all_true_below k lv H)).
  Qed.

  (* Lemma 2b: every level whose path leads to a level of the tree is visited *)
  Lemma visited_entry (n : node V) : forall lv e,
    visited_hold lv n = true -> In e lv -> level_at (fst e) n = true -> all_hold (snd e) = true.
  Proof.
    induction n as [q|c|ms|o ln rn l r IHl IHr|uo unm uc IHc|cls ctor attrs IH|attrs IH] using (level_ind V);
      intros lv [p asr] Hv He Hp; simpl fst in *; simpl snd in *;
      try (destruct p; simpl in Hp; discriminate Hp).
    - cbn [visited_hold] in Hv. apply andb_true_iff in Hv. destruct Hv as [Hh Hc].
      apply andb_true_iff in Hc. destruct Hc as [Hl Hr].
      destruct p as [|k p'].
      + apply all_hold_spec. intros a Ha. apply (proj1 (all_hold_spec _ _ _ _ _ _ _ _ _) Hh).
        apply in_here. exists ([], asr). auto.
      + simpl in Hp. apply orb_true_iff in Hp. destruct Hp as [Hp|Hp]; apply andb_true_iff in Hp; destruct Hp as [Hk Hp'];
          apply String.eqb_eq in Hk; subst k.
        * apply (IHl (below ln lv) (p', asr) Hl); [|exact Hp'].
          apply in_below. exists (ln :: p', asr). auto.
        * apply (IHr (below rn lv) (p', asr) Hr); [|exact Hp'].
          apply in_below. exists (rn :: p', asr). auto.
    - cbn [visited_hold] in Hv. apply andb_true_iff in Hv. destruct Hv as [Hh Hc].
      destruct p as [|k p'].
      + apply all_hold_spec. intros a Ha. apply (proj1 (all_hold_spec _ _ _ _ _ _ _ _ _) Hh).
        apply in_here. exists ([], asr). auto.
      + simpl in Hp. apply andb_true_iff in Hp. destruct Hp as [Hk Hp'].
        apply String.eqb_eq in Hk. subst k.
        apply (IHc (below unm lv) (p', asr) Hc); [|exact Hp'].
        apply in_below. exists (unm :: p', asr). auto.
    - cbn [visited_hold] in Hv. apply andb_true_iff in Hv. destruct Hv as [Hh Hc].
      destruct p as [|k p'].
      + apply all_hold_spec. intros a Ha. apply (proj1 (all_hold_spec _ _ _ _ _ _ _ _ _) Hh).
        apply in_here. exists ([], asr). auto.
      + simpl in Hp. apply existsb_exists in Hp. destruct Hp as [[k' c] [Hin Hp]]. simpl in Hp.
        apply andb_true_iff in Hp. destruct Hp as [Hk Hp']. apply String.eqb_eq in Hk. subst k'.
        rewrite forallb_forall in Hc. specialize (Hc (k, c) Hin). simpl in Hc.
        rewrite (level_at_kind p' c Hp') in Hc.
        rewrite Forall_forall in IH.
        apply (IH (k, c) Hin (below k lv) (p', asr) Hc); [|exact Hp'].
        apply in_below. exists (k :: p', asr). auto.
    - cbn [visited_hold] in Hv. apply andb_true_iff in Hv. destruct Hv as [Hh Hc].
      destruct p as [|k p'].
      + apply all_hold_spec. intros a Ha. apply (proj1 (all_hold_spec _ _ _ _ _ _ _ _ _) Hh).
        apply in_here. exists ([], asr). auto.
      + simpl in Hp. apply existsb_exists in Hp. destruct Hp as [[k' c] [Hin Hp]]. simpl in Hp.
        apply andb_true_iff in Hp. destruct Hp as [Hk Hp']. apply String.eqb_eq in Hk. subst k'.
        rewrite forallb_forall in Hc. specialize (Hc (k, c) Hin). simpl in Hc.
        assert (T : is_tuple c = false).
        { pose proof (level_at_kind p' c Hp') as K. destruct c; simpl in K; try discriminate K; reflexivity. }
        rewrite T in Hc.
        rewrite Forall_forall in IH.
        apply (IH (k, c) Hin (below k lv) (p', asr) Hc); [|exact Hp'].
        apply in_below. exists (k :: p', asr). auto.
  Qed.

  Definition levels_wf (lv : levels) (n : node V) : Prop := forall e, In e lv -> level_at (fst e) n = true.

  Lemma visited_flat (n : node V) (lv : levels) :
    levels_wf lv n -> visited_hold lv n = all_hold (flat lv).
  Proof.
    intro W. destruct (all_hold (flat lv)) eqn:A.
    - apply flat_visited. apply all_true_flat. exact A.
    - destruct (visited_hold lv n) eqn:Hv; [|reflexivity].
      assert (T : all_true lv).
      { intros e a He Ha. exact (proj1 (all_hold_spec _ _ _ _ _ _ _ _ _) (visited_entry n lv e Hv He (W e He)) a Ha). }
      apply all_true_flat in T. congruence.
  Qed.

  (* the level-by-level check of the code equals the flat specification *)
  Theorem status_flat (n : node V) (lv : levels) :
    levels_wf lv n -> ldef lv -> status true lv n = Ok tt ->
    status false lv n = if all_hold (flat lv) then Ok tt else Fit.
  Proof. intros W D S. rewrite (status_visited n lv D S), (visited_flat n lv W). reflexivity. Qed.

  (* ignoring assertions: the levels play no role at all *)
  Lemma status_ignore_levels (n : node V) : forall lv lv', status true lv n = status true lv' n.
  Proof.
    induction n as [q|c|ms|o ln rn l r IHl IHr|uo unm uc IHc|cls ctor attrs IH|attrs IH] using (level_ind V); intros lv lv';
      try reflexivity; cbn [Model.status].
    - rewrite (IHl (below ln lv) (below ln lv')), (IHr (below rn lv) (below rn lv')). reflexivity.
    - rewrite (IHc (below unm lv) (below unm lv')). reflexivity.
    - f_equal. f_equal. f_equal. induction attrs as [|[k c] a IHa]; [reflexivity|].
      inversion IH as [|x y Hc Ha]; subst. simpl in Hc |- *. rewrite (IHa Ha), (Hc (below k lv) (below k lv')). reflexivity.
    - f_equal. induction attrs as [|[k c] a IHa]; [reflexivity|].
      inversion IH as [|x y Hc Ha]; subst. simpl in Hc |- *. rewrite (IHa Ha), (Hc (below k lv) (below k lv')). reflexivity.
  Qed.
End P2.

(* ---------- the two routes of the code against the specification ---------- *)
Section P3.
  Variable V : Type.
  Variable bin : binop -> V -> V -> V.
  Variable un : unop -> V -> V.
  Variable bin_ok : binop -> V -> V -> bool.
  Variable ltb leb : V -> V -> bool.
  Variable of_bool : bool -> V.
  Notation run := (run V bin un bin_ok ltb leb of_bool).
  Notation gate := (gate V bin un bin_ok ltb leb of_bool).
  Notation status := (status V bin un bin_ok ltb leb of_bool).

  (* guards: the construction of the instance raises nothing on these values (no division by zero), every
     assertion can be evaluated (its operands are parameters of the model, no division by zero), and every
     assertion sits on a level of the model *)
  Definition constructible (n : node V) (vec : list V) : Prop :=
    status (vec_args V n vec) true [] n = Ok tt.

  Theorem run_is_gate (ignore : bool) (lims : list (limit V)) (lv : levels V) (n : node V) (vec : list V) :
    levels_wf V lv n ->
    ldef V bin un bin_ok ltb leb of_bool (vec_args V n vec) lv ->
    constructible n vec ->
    run ignore lims lv n vec = gate ignore lims (flat V lv) n vec.
  Proof.
    intros W D C. unfold Model.run, Model.gate, constructible, vec_args in *.
    destruct (negb (Nat.eqb (List.length vec) (prior_count V n))); [reflexivity|].
    set (args := zip_args V (ordered_ids V n) vec) in *.
    assert (S : status args true lv n = Ok tt).
    { rewrite (status_ignore_levels V bin un bin_ok ltb leb of_bool args n lv []). exact C. }
    destruct ignore.
    - unfold Model.instantiate. rewrite S. reflexivity.
    - destruct (negb (within V leb lims args)); [reflexivity|].
      unfold Model.instantiate.
      rewrite (status_flat V bin un bin_ok ltb leb of_bool args n lv W D S).
      destruct (all_hold V bin un bin_ok ltb leb of_bool args (flat V lv)); reflexivity.
  Qed.

  (* explicitly ignoring limits/assertions: the instance is produced whenever it can be constructed at all *)
  Theorem run_ignore_total (lims : list (limit V)) (lv : levels V) (n : node V) (vec : list V) :
    List.length vec = prior_count V n -> constructible n vec ->
    run true lims lv n vec = VOk (inst V bin un (vec_args V n vec) n).
  Proof.
    intros L C. unfold Model.run, constructible, vec_args in *. rewrite (proj2 (Nat.eqb_eq _ _) L). simpl.
    unfold Model.instantiate.
    rewrite (status_ignore_levels V bin un bin_ok ltb leb of_bool _ n lv []), C. reflexivity.
  Qed.

  (* the verdict of the code is never anything but: instance, fit exception, wrong length -- under the guards *)
  Theorem run_ok_iff (lims : list (limit V)) (lv : levels V) (n : node V) (vec : list V) (i : ival V) :
    levels_wf V lv n ->
    ldef V bin un bin_ok ltb leb of_bool (vec_args V n vec) lv ->
    constructible n vec ->
    (run false lims lv n vec = VOk i <->
     List.length vec = prior_count V n /\ within V leb lims (vec_args V n vec) = true /\
     all_hold V bin un bin_ok ltb leb of_bool (vec_args V n vec) (flat V lv) = true /\ i = inst V bin un (vec_args V n vec) n).
  Proof. intros W D C. rewrite (run_is_gate false lims lv n vec W D C). apply gate_ok_iff. Qed.

  Theorem run_rejects (lims : list (limit V)) (lv : levels V) (n : node V) (vec : list V) :
    levels_wf V lv n ->
    ldef V bin un bin_ok ltb leb of_bool (vec_args V n vec) lv ->
    constructible n vec ->
    List.length vec = prior_count V n ->
    (within V leb lims (vec_args V n vec) = false -> run false lims lv n vec = VLimit) /\
    (within V leb lims (vec_args V n vec) = true ->
     all_hold V bin un bin_ok ltb leb of_bool (vec_args V n vec) (flat V lv) = false ->
     run false lims lv n vec = VAssert).
  Proof. intros W D C L. rewrite (run_is_gate false lims lv n vec W D C). apply gate_rejects. exact L. Qed.

  (* a value outside its limits is rejected with the limit exception whatever else is the matter *)
  Theorem run_limit_first (lims : list (limit V)) (lv : levels V) (n : node V) (vec : list V) :
    List.length vec = prior_count V n -> within V leb lims (vec_args V n vec) = false ->
    run false lims lv n vec = VLimit.
  Proof.
    intros L Wn. unfold Model.run, vec_args in *. rewrite (proj2 (Nat.eqb_eq _ _) L). simpl. rewrite Wn. reflexivity.
  Qed.
End P3.
