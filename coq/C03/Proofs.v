(* C03 lemmas: the gate is exactly "limits hold and every assertion holds". *)
From Coq Require Import List String Bool Arith Lia.
From PAFC01 Require Import ModelTree.
From PAFC03 Require Import Model.
Import ListNotations.

Section P.
  Variable V : Type.
  Variable bin : binop -> V -> V -> V.
  Variable ltb leb : V -> V -> bool.
  Notation gate := (gate V bin ltb leb).
  Notation holds := (holds V bin ltb leb).
  Notation operand := (operand V bin).
  Notation within := (within V leb).
  Notation all_hold := (all_hold V bin ltb leb).

  Definition vec_args (n : node V) (vec : list V) := zip_args V (ordered_ids V n) vec.

  Lemma within_spec (lims : list (limit V)) (args : nat -> option V) :
    within lims args = true <->
    forall q lo hi v, In (q, (lo, hi)) lims -> args q = Some v -> leb lo v = true /\ leb v hi = true.
  Proof.
    unfold Model.within. rewrite forallb_forall. split.
    - intros H q lo hi v Hin Ha. specialize (H _ Hin). simpl in H. rewrite Ha in H.
      apply andb_true_iff in H. exact H.
    - intros H [q [lo hi]] Hin. simpl. destruct (args q) as [v|] eqn:Ha; [|reflexivity].
      destruct (H q lo hi v Hin Ha) as [A B]. rewrite A, B. reflexivity.
  Qed.

  Lemma all_hold_spec (asserts : list (assertion V)) (args : nat -> option V) :
    all_hold args asserts = true <-> forall a, In a asserts -> holds args a = Some true.
  Proof.
    unfold Model.all_hold. rewrite forallb_forall. split.
    - intros H a Hin. specialize (H a Hin). destruct (holds args a) as [[|]|]; congruence.
    - intros H a Hin. rewrite (H a Hin). reflexivity.
  Qed.

  Lemma holds_lt (args : nat -> option V) (l g : node V) :
    holds args (ALt l g) = Some true <->
    exists x y, operand args l = Some x /\ operand args g = Some y /\ ltb x y = true.
  Proof.
    simpl. split.
    - destruct (operand args l) as [x|]; [|discriminate]. destruct (operand args g) as [y|]; [|discriminate].
      intro H. exists x, y. repeat split; congruence.
    - intros [x [y [-> [-> H]]]]. rewrite H. reflexivity.
  Qed.

  Lemma holds_le (args : nat -> option V) (l g : node V) :
    holds args (ALe l g) = Some true <->
    exists x y, operand args l = Some x /\ operand args g = Some y /\ leb x y = true.
  Proof.
    simpl. split.
    - destruct (operand args l) as [x|]; [|discriminate]. destruct (operand args g) as [y|]; [|discriminate].
      intro H. exists x, y. repeat split; congruence.
    - intros [x [y [-> [-> H]]]]. rewrite H. reflexivity.
  Qed.

  Lemma holds_and (args : nat -> option V) (a b : assertion V) :
    holds args (AAnd a b) = Some true <-> holds args a = Some true /\ holds args b = Some true.
  Proof.
    simpl. destruct (holds args a) as [[|]|]; split; try tauto; try (intros [? ?]; discriminate); intro; discriminate.
  Qed.

  Lemma holds_lit (args : nat -> option V) (b : bool) : holds args (ALit b) = Some true <-> b = true.
  Proof. simpl. split; congruence. Qed.

  (* (a < b) < c  means  a < b and b < c; (a < b) > c  means  a < b and c < a *)
  Lemma chain_lt_spec (args : nat -> option V) (a b c : node V) (t : assertion V) :
    chain_lt V (ALt a b) c = Some t ->
    (holds args t = Some true <-> holds args (ALt a b) = Some true /\ holds args (ALt b c) = Some true).
  Proof. unfold chain_lt. simpl. intro H. inversion H; subst. apply holds_and. Qed.

  Lemma chain_gt_spec (args : nat -> option V) (a b c : node V) (t : assertion V) :
    chain_gt V (ALt a b) c = Some t ->
    (holds args t = Some true <-> holds args (ALt a b) = Some true /\ holds args (ALt c a) = Some true).
  Proof. unfold chain_gt. simpl. intro H. inversion H; subst. apply holds_and. Qed.

  Lemma chain_le_spec (args : nat -> option V) (a b c : node V) (t : assertion V) :
    chain_le V (ALe a b) c = Some t ->
    (holds args t = Some true <-> holds args (ALe a b) = Some true /\ holds args (ALe b c) = Some true).
  Proof. unfold chain_le. simpl. intro H. inversion H; subst. apply holds_and. Qed.

  (* ---------- the gate ---------- *)
  Lemma gate_ok_iff (lims : list (limit V)) (asserts : list (assertion V)) (n : node V) (vec : list V) (i : ival V) :
    gate false lims asserts n vec = VOk i <->
    List.length vec = prior_count V n /\ within lims (vec_args n vec) = true /\
    all_hold (vec_args n vec) asserts = true /\ i = inst V bin (vec_args n vec) n.
  Proof.
    unfold Model.gate, vec_args.
    destruct (Nat.eqb_spec (List.length vec) (prior_count V n)) as [L|L]; simpl.
    - destruct (Model.within V leb lims _) eqn:W; simpl.
      + destruct (Model.all_hold V bin ltb leb _ asserts) eqn:A; simpl.
        * split; [intro H; inversion H; subst; auto|intros [_ [_ [_ ->]]]; reflexivity].
        * split; [discriminate|intros [_ [_ [H _]]]; discriminate].
      + split; [discriminate|intros [_ [H _]]; discriminate].
    - split; [discriminate|intros [H _]; contradiction].
  Qed.

  (* otherwise the library's fit exception: a limit exception when a value is outside its limits,
     else an assertion failure; never anything else for a vector of the right length *)
  Lemma gate_rejects (lims : list (limit V)) (asserts : list (assertion V)) (n : node V) (vec : list V) :
    List.length vec = prior_count V n ->
    (within lims (vec_args n vec) = false -> gate false lims asserts n vec = VLimit) /\
    (within lims (vec_args n vec) = true -> all_hold (vec_args n vec) asserts = false ->
       gate false lims asserts n vec = VAssert).
  Proof.
    intro L. unfold Model.gate, vec_args. rewrite (proj2 (Nat.eqb_eq _ _) L). simpl. split.
    - intro W. rewrite W. reflexivity.
    - intros W A. rewrite W, A. reflexivity.
  Qed.

  (* explicitly ignoring limits/assertions always produces the instance *)
  Lemma gate_ignore_total (lims : list (limit V)) (asserts : list (assertion V)) (n : node V) (vec : list V) :
    List.length vec = prior_count V n ->
    gate true lims asserts n vec = VOk (inst V bin (vec_args n vec) n).
  Proof. intro L. unfold Model.gate, vec_args. rewrite (proj2 (Nat.eqb_eq _ _) L). reflexivity. Qed.

  (* the verdict does not depend on the order in which levels list their assertions *)
  Lemma all_hold_app (args : nat -> option V) (a b : list (assertion V)) :
    all_hold args (a ++ b) = all_hold args a && all_hold args b.
  Proof. unfold Model.all_hold. apply forallb_app. Qed.
End P.
