(* C03 lemmas, part 1: the specification `gate` is exactly "limits hold and every inequality holds",
   and the comparison operators build assertions that mean the inequalities they are written as. *)
From Coq Require Import List String Bool Arith Lia.
From PAFC01 Require Import ModelTree.
From PAFC03 Require Import Model.
Import ListNotations.

Section P.
  Variable V : Type.
  Variable bin : binop -> V -> V -> V.
  Variable un : unop -> V -> V.
  Variable bin_ok : binop -> V -> V -> bool.
  Variable ltb leb : V -> V -> bool.
  Variable of_bool : bool -> V.
  Notation gate := (gate V bin un bin_ok ltb leb of_bool).
  Notation holds := (holds V bin un bin_ok ltb leb of_bool).
  Notation operand := (operand V bin un bin_ok).
  Notation within := (within V leb).
  Notation all_hold := (all_hold V bin un bin_ok ltb leb of_bool).
  Notation cmp_nodes := (cmp_nodes V ltb leb).
  Notation cmp_consts := (cmp_consts V ltb leb).
  Notation chain := (chain V ltb leb).
  Notation chain_legacy := (chain_legacy V ltb leb).

  Definition vec_args (n : node V) (vec : list V) := zip_args V (ordered_ids V n) vec.

  Lemma within_spec (lims : list (limit V)) (args : nat -> option V) :
    within lims args = true <->
    forall q lo hi v, In (q, (lo, hi)) lims -> args q = Some v -> leb lo v = true /\ leb v hi = true.
  Proof.
    unfold Model.within. rewrite forallb_forall. split.
    - intros H q lo hi v Hin Ha. specialize (H _ Hin). simpl in H. rewrite Ha in H.
      apply andb_true_iff in H. exact H.
    - intros H [q [lo hi]] Hin. simpl. destruct (args q) as [v|] eqn:Ha; [|reflexivity].
      destruct (H q lo hi v Hin Ha) as [A B]. rewrite A, B. reflexivity.
  Qed.

  (* limits are given for every parameter of the vector: then `within` speaks about every entry *)
  Definition covers (lims : list (limit V)) (ids : list nat) : Prop :=
    forall q, In q ids -> exists lo hi, In (q, (lo, hi)) lims.

  Lemma within_covers (lims : list (limit V)) (ids : list nat) (args : nat -> option V) :
    covers lims ids -> within lims args = true ->
    forall q v, In q ids -> args q = Some v -> exists lo hi, In (q, (lo, hi)) lims /\ leb lo v = true /\ leb v hi = true.
  Proof.
    intros C W q v Hq Ha. destruct (C q Hq) as [lo [hi Hin]]. exists lo, hi. split; [exact Hin|].
    exact (proj1 (within_spec lims args) W q lo hi v Hin Ha).
  Qed.

  Lemma all_hold_spec (asserts : list (assertion V)) (args : nat -> option V) :
    all_hold args asserts = true <-> forall a, In a asserts -> holds args a = Ok true.
  Proof.
    unfold Model.all_hold. rewrite forallb_forall. split.
    - intros H a Hin. specialize (H a Hin). destruct (holds args a) as [[|]| |]; congruence.
    - intros H a Hin. rewrite (H a Hin). reflexivity.
  Qed.

  Lemma holds_lt (args : nat -> option V) (l g : node V) :
    holds args (ALt l g) = Ok true <->
    exists x y, operand args l = Ok x /\ operand args g = Ok y /\ ltb x y = true.
  Proof.
    simpl. split.
    - destruct (operand args l) as [x| |]; [|discriminate|discriminate].
      destruct (operand args g) as [y| |]; [|discriminate|discriminate].
      intro H. exists x, y. repeat split; congruence.
    - intros [x [y [-> [-> H]]]]. rewrite H. reflexivity.
  Qed.

  Lemma holds_le (args : nat -> option V) (l g : node V) :
    holds args (ALe l g) = Ok true <->
    exists x y, operand args l = Ok x /\ operand args g = Ok y /\ leb x y = true.
  Proof.
    simpl. split.
    - destruct (operand args l) as [x| |]; [|discriminate|discriminate].
      destruct (operand args g) as [y| |]; [|discriminate|discriminate].
      intro H. exists x, y. repeat split; congruence.
    - intros [x [y [-> [-> H]]]]. rewrite H. reflexivity.
  Qed.

  Definition is_lit (a : assertion V) : bool := match a with ALit _ => true | _ => false end.

  Lemma holds_and (args : nat -> option V) (a b : assertion V) :
    is_lit b = false ->
    (holds args (AAnd a b) = Ok true <-> holds args a = Ok true /\ holds args b = Ok true).
  Proof.
    intro L. cbn [Model.holds].
    destruct (holds args a) as [[|]| |]; destruct b; try discriminate L;
      split; try tauto; try (intros [? ?]; discriminate); try (intro; discriminate).
  Qed.

  Lemma holds_lit (args : nat -> option V) (b : bool) : holds args (ALit b) = Ok true <-> b = true.
  Proof. simpl. split; congruence. Qed.

  (* ---------- x op y built by the operators means the inequality on the values ---------- *)
  Lemma cmp_nodes_spec (args : nat -> option V) (op : cmpop) (x y : node V) (t : assertion V) :
    arith_like V x || arith_like V y = true ->
    cmp_nodes op x y = Some t ->
    (holds args t = Ok true <->
     exists a b, operand args x = Ok a /\ operand args y = Ok b /\ cmp_consts op a b = true).
  Proof.
    intros A H.
    assert (E : t = cmp_build V op x y).
    { unfold Model.cmp_nodes in H. rewrite A in H.
      destruct x; destruct y; simpl in A; try discriminate A; inversion H; reflexivity. }
    subst t. destruct op; unfold cmp_build, Model.cmp_consts.
    - apply holds_lt.
    - apply holds_le.
    - rewrite holds_lt. split; intros [a [b [Ha [Hb Hc]]]]; exists b, a; auto.
    - rewrite holds_le. split; intros [a [b [Ha [Hb Hc]]]]; exists b, a; auto.
  Qed.

  (* LEGACY operators (before 33cdc7f): a two-link chain  (a ? b) op c  meant  a ? b  and  pivot op c, where the pivot is the greater
     operand of the first link for < / <= and its lower operand for > / >= *)
  Definition pivot_of (first : assertion V) (op : cmpop) : option (node V) :=
    match first with
    | ALt l g | ALe l g => Some (match op with CLt | CLe => g | CGt | CGe => l end)
    | _ => None
    end.

  Lemma chain2_legacy_spec (args : nat -> option V) (first : assertion V) (op : cmpop) (p c : node V) (t : assertion V) :
    pivot_of first op = Some p ->
    arith_like V p || arith_like V c = true ->
    chain_legacy first op c = Some t ->
    (holds args t = Ok true <->
     holds args first = Ok true /\
     exists a b, operand args p = Ok a /\ operand args c = Ok b /\ cmp_consts op a b = true).
  Proof.
    intros Hp A H.
    assert (exists s, cmp_nodes op p c = Some s /\ t = AAnd first s /\ is_lit s = false) as [s [Hs [-> L]]].
    { destruct first; try discriminate Hp; simpl in Hp; inversion Hp; subst p; unfold Model.chain_legacy in H;
        match type of H with option_map _ ?X = _ => destruct X as [s|] eqn:E; [|discriminate H] end;
        inversion H; subst; exists s; (split; [reflexivity|split; [reflexivity|]]);
        unfold Model.cmp_nodes in E; rewrite A in E;
        match type of E with (match ?u with _ => _ end) = _ => destruct u end;
        match type of E with context [match ?u with _ => _ end] => destruct u | _ => idtac end;
        simpl in A; try discriminate A; inversion E; destruct op; reflexivity. }
    rewrite (holds_and args first s L). rewrite (cmp_nodes_spec args op p c s A Hs). tauto.
  Qed.

  (* chaining an assertion of ANY length once more adds exactly one inequality, against the greatest (< / <=)
     or lowest (> / >=) operand of the chain so far, and the result remembers its new ends *)
  Lemma chain_spec (args : nat -> option V) (first : assertion V) (e e' : node V * node V) (op : cmpop)
        (c : node V) (t : assertion V) :
    let p := match op with CLt | CLe => snd e | CGt | CGe => fst e end in
    arith_like V p || arith_like V c = true ->
    chain first e op c = Some (t, e') ->
    (holds args t = Ok true <->
     holds args first = Ok true /\
     exists a b, operand args p = Ok a /\ operand args c = Ok b /\ cmp_consts op a b = true) /\
    e' = match op with CLt | CLe => (fst e, c) | CGt | CGe => (c, snd e) end.
  Proof.
    intros p A H. unfold Model.chain in H. fold p in H.
    destruct (cmp_nodes op p c) as [s|] eqn:Hs; [|discriminate H]. inversion H; subst t e'. split; [|reflexivity].
    assert (L : is_lit s = false).
    { unfold Model.cmp_nodes in Hs. rewrite A in Hs.
      destruct p as [| | | | | |]; destruct c as [| | | | | |]; simpl in A; try discriminate A; inversion Hs; destruct op; reflexivity. }
    rewrite (holds_and args first s L). rewrite (cmp_nodes_spec args op p c s A Hs). tauto.
  Qed.

  (* ---------- a chain of ANY length means every inequality written (induction on how it was written) ---------- *)
  Definition pivot_end (e : node V * node V) (op : cmpop) : node V :=
    match op with CLt | CLe => snd e | CGt | CGe => fst e end.

  (* lowest and greatest operand of what was written *)
  Fixpoint rends (r : recipe V) : option (node V * node V) :=
    match r with
    | RLit _ => None
    | RCmp op x y => Some (match op with CLt | CLe => (x, y) | CGt | CGe => (y, x) end)
    | RChain f op o =>
        match rends f with
        | Some e => Some (match op with CLt | CLe => (fst e, o) | CGt | CGe => (o, snd e) end)
        | None => None
        end
    end.

  (* every comparison written involves at least one prior / arithmetic prior (two bare floats give a Python bool) *)
  Fixpoint rguard (r : recipe V) : bool :=
    match r with
    | RLit _ => true
    | RCmp _ x y => arith_like V x || arith_like V y
    | RChain f op o =>
        rguard f && match rends f with
                    | Some e => arith_like V (pivot_end e op) || arith_like V o
                    | None => false
                    end
    end.

  (* the inequalities written, on the numbers *)
  Fixpoint means (args : nat -> option V) (r : recipe V) : Prop :=
    match r with
    | RLit b => b = true
    | RCmp op x y => exists a b, operand args x = Ok a /\ operand args y = Ok b /\ cmp_consts op a b = true
    | RChain f op o =>
        means args f /\
        match rends f with
        | Some e => exists a b, operand args (pivot_end e op) = Ok a /\ operand args o = Ok b /\ cmp_consts op a b = true
        | None => False
        end
    end.

  Lemma cmp_nodes_arith (op : cmpop) (x y : node V) :
    arith_like V x || arith_like V y = true -> cmp_nodes op x y = Some (cmp_build V op x y).
  Proof.
    intro A. unfold Model.cmp_nodes. rewrite A.
    destruct x; destruct y; simpl in A; try discriminate A; reflexivity.
  Qed.

  Theorem chain_all_links (args : nat -> option V) (r : recipe V) :
    rguard r = true ->
    exists t, denote V ltb leb r = Some (t, rends r) /\ (holds args t = Ok true <-> means args r).
  Proof.
    induction r as [b|op x y|f IH op o]; intro G.
    - exists (ALit b). split; [reflexivity|]. apply holds_lit.
    - simpl in G. exists (cmp_build V op x y). split.
      + cbn [Model.denote]. rewrite (cmp_nodes_arith op x y G). destruct op; reflexivity.
      + exact (cmp_nodes_spec args op x y _ G (cmp_nodes_arith op x y G)).
    - cbn [rguard] in G. apply andb_true_iff in G. destruct G as [Gf Gp].
      destruct (IH Gf) as [a [Da Ha]].
      cbn [rends means] in *. destruct (rends f) as [e|]; [|discriminate Gp].
      destruct (chain a e op o) as [[t e']|] eqn:C.
      + destruct (chain_spec args a e e' op o t Gp C) as [Ht He'].
        exists t. split.
        * cbn [Model.denote]. rewrite Da, C. rewrite He'. reflexivity.
        * unfold pivot_end. rewrite Ht, Ha. tauto.
      + exfalso. unfold Model.chain in C. fold (pivot_end e op) in C.
        rewrite (cmp_nodes_arith op (pivot_end e op) o Gp) in C. discriminate C.
  Qed.

  (* ---------- the specification gate ---------- *)
  Lemma gate_ok_iff (lims : list (limit V)) (asserts : list (assertion V)) (n : node V) (vec : list V) (i : ival V) :
    gate false lims asserts n vec = VOk i <->
    List.length vec = prior_count V n /\ within lims (vec_args n vec) = true /\
    all_hold (vec_args n vec) asserts = true /\ i = inst V bin un (vec_args n vec) n.
  Proof.
    unfold Model.gate, vec_args.
    destruct (Nat.eqb_spec (List.length vec) (prior_count V n)) as [L|L]; simpl.
    - destruct (Model.within V leb lims _) eqn:W; simpl.
      + destruct (Model.all_hold V bin un bin_ok ltb leb of_bool _ asserts) eqn:A; simpl.
        * split; [intro H; inversion H; subst; auto|intros [_ [_ [_ ->]]]; reflexivity].
        * split; [discriminate|intros [_ [_ [H _]]]; discriminate].
      + split; [discriminate|intros [_ [H _]]; discriminate].
    - split; [discriminate|intros [H _]; contradiction].
  Qed.

  Lemma gate_rejects (lims : list (limit V)) (asserts : list (assertion V)) (n : node V) (vec : list V) :
    List.length vec = prior_count V n ->
    (within lims (vec_args n vec) = false -> gate false lims asserts n vec = VLimit) /\
    (within lims (vec_args n vec) = true -> all_hold (vec_args n vec) asserts = false ->
       gate false lims asserts n vec = VAssert).
  Proof.
    intro L. unfold Model.gate, vec_args. rewrite (proj2 (Nat.eqb_eq _ _) L). simpl. split.
    - intro W. rewrite W. reflexivity.
    - intros W A. rewrite W, A. reflexivity.
  Qed.

  Lemma gate_ignore_total (lims : list (limit V)) (asserts : list (assertion V)) (n : node V) (vec : list V) :
    List.length vec = prior_count V n ->
    gate true lims asserts n vec = VOk (inst V bin un (vec_args n vec) n).
  Proof. intro L. unfold Model.gate, vec_args. rewrite (proj2 (Nat.eqb_eq _ _) L). reflexivity. Qed.

  Lemma all_hold_app (args : nat -> option V) (a b : list (assertion V)) :
    all_hold args (a ++ b) = all_hold args a && all_hold args b.
  Proof. unfold Model.all_hold. apply forallb_app. Qed.
End P.
