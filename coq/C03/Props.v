(* C03 property theorems: statements only. *)
From Coq Require Import List String Bool.
From PAFC01 Require Import ModelTree.
From PAFC03 Require Import Model Proofs.
Import ListNotations.

(* an instance is produced iff every value is inside its prior's limits and every assertion of
   every level is true of the values; the instance is then the C01 instance *)
Theorem C03_gate_iff : forall (V : Type) (bin : binop -> V -> V -> V) (ltb leb : V -> V -> bool)
    (lims : list (limit V)) (asserts : list (assertion V)) (n : node V) (vec : list V) (i : ival V),
  gate V bin ltb leb false lims asserts n vec = VOk i <->
  List.length vec = prior_count V n /\ within V leb lims (vec_args V n vec) = true /\
  all_hold V bin ltb leb (vec_args V n vec) asserts = true /\ i = inst V bin (vec_args V n vec) n.
Proof. exact gate_ok_iff. Qed.

Theorem C03_limits_direct : forall (V : Type) (leb : V -> V -> bool) (lims : list (limit V)) (args : nat -> option V),
  within V leb lims args = true <->
  forall q lo hi v, In (q, (lo, hi)) lims -> args q = Some v -> leb lo v = true /\ leb v hi = true.
Proof. exact within_spec. Qed.

Theorem C03_assertions_direct : forall (V : Type) (bin : binop -> V -> V -> V) (ltb leb : V -> V -> bool)
    (asserts : list (assertion V)) (args : nat -> option V),
  all_hold V bin ltb leb args asserts = true <-> forall a, In a asserts -> holds V bin ltb leb args a = Some true.
Proof. exact all_hold_spec. Qed.

(* the verdict of an inequality is the inequality evaluated on the numbers (operands may be
   parameters, constants or arithmetic expressions) *)
Theorem C03_verdict_lt : forall (V : Type) (bin : binop -> V -> V -> V) (ltb leb : V -> V -> bool)
    (args : nat -> option V) (l g : node V),
  holds V bin ltb leb args (ALt l g) = Some true <->
  exists x y, operand V bin args l = Some x /\ operand V bin args g = Some y /\ ltb x y = true.
Proof. exact holds_lt. Qed.

Theorem C03_verdict_le : forall (V : Type) (bin : binop -> V -> V -> V) (ltb leb : V -> V -> bool)
    (args : nat -> option V) (l g : node V),
  holds V bin ltb leb args (ALe l g) = Some true <->
  exists x y, operand V bin args l = Some x /\ operand V bin args g = Some y /\ leb x y = true.
Proof. exact holds_le. Qed.

(* chained assertions: (a < b) < c is a < b and b < c; (a < b) > c is a < b and c < a *)
Theorem C03_chain_lt : forall (V : Type) (bin : binop -> V -> V -> V) (ltb leb : V -> V -> bool)
    (args : nat -> option V) (a b c : node V) (t : assertion V),
  chain_lt V (ALt a b) c = Some t ->
  (holds V bin ltb leb args t = Some true <->
   holds V bin ltb leb args (ALt a b) = Some true /\ holds V bin ltb leb args (ALt b c) = Some true).
Proof. exact chain_lt_spec. Qed.

Theorem C03_chain_gt : forall (V : Type) (bin : binop -> V -> V -> V) (ltb leb : V -> V -> bool)
    (args : nat -> option V) (a b c : node V) (t : assertion V),
  chain_gt V (ALt a b) c = Some t ->
  (holds V bin ltb leb args t = Some true <->
   holds V bin ltb leb args (ALt a b) = Some true /\ holds V bin ltb leb args (ALt c a) = Some true).
Proof. exact chain_gt_spec. Qed.

(* otherwise the fit exception (limit exception first, else assertion failure) *)
Theorem C03_rejects : forall (V : Type) (bin : binop -> V -> V -> V) (ltb leb : V -> V -> bool)
    (lims : list (limit V)) (asserts : list (assertion V)) (n : node V) (vec : list V),
  List.length vec = prior_count V n ->
  (within V leb lims (vec_args V n vec) = false -> gate V bin ltb leb false lims asserts n vec = VLimit) /\
  (within V leb lims (vec_args V n vec) = true -> all_hold V bin ltb leb (vec_args V n vec) asserts = false ->
     gate V bin ltb leb false lims asserts n vec = VAssert).
Proof. exact gate_rejects. Qed.

(* when the caller ignores limits/assertions an instance is always produced *)
Theorem C03_ignore_total : forall (V : Type) (bin : binop -> V -> V -> V) (ltb leb : V -> V -> bool)
    (lims : list (limit V)) (asserts : list (assertion V)) (n : node V) (vec : list V),
  List.length vec = prior_count V n ->
  gate V bin ltb leb true lims asserts n vec = VOk (inst V bin (vec_args V n vec) n).
Proof. exact gate_ignore_total. Qed.

Print Assumptions C03_gate_iff.
Print Assumptions C03_rejects.
