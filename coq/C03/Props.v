(* C03 property theorems: statements only.
   `run` is the code (assertions live on levels, checked level by level while the model is walked);
   `gate` is the specification (one flat list of inequalities evaluated on the numbers).
   Guards of the `_partial` theorems (each is refuted without its guard in Witness.v):
     levels_wf     every assertion sits on a level of the model
     ldef          every assertion can be evaluated on the vector (operands are parameters of the
                   model, no division by zero)
     constructible the model's own arithmetic is defined on the vector *)
From Coq Require Import List String Bool.
From PAFC01 Require Import ModelTree Proofs8.
From PAFC03 Require Import Model Proofs Proofs2 Proofs3 Proofs4.
Import ListNotations.

(* ANY NESTING LEVEL (induction on the tree): checking each level's assertions while walking down, with
   ignore_assertions handed to every child, raises the fit exception exactly when some inequality of the
   flat list is false *)
Theorem C03_levels_flat_partial : forall (V : Type) (bin : binop -> V -> V -> V) (un : unop -> V -> V) (bin_ok : binop -> V -> V -> bool)
    (ltb leb : V -> V -> bool) (of_bool : bool -> V) (args : nat -> option V) (n : node V) (lv : levels V),
  levels_wf V lv n ->
  ldef V bin un bin_ok ltb leb of_bool args lv ->
  status V bin un bin_ok ltb leb of_bool args true lv n = Ok tt ->
  status V bin un bin_ok ltb leb of_bool args false lv n =
  if all_hold V bin un bin_ok ltb leb of_bool args (flat V lv) then Ok tt else Fit.
Proof. exact status_flat. Qed.

(* ignore_assertions=True reaches every level: no level's assertions matter *)
Theorem C03_ignore_reaches_every_level : forall (V : Type) (bin : binop -> V -> V -> V) (un : unop -> V -> V) (bin_ok : binop -> V -> V -> bool)
    (ltb leb : V -> V -> bool) (of_bool : bool -> V) (args : nat -> option V) (n : node V) (lv lv' : levels V),
  status V bin un bin_ok ltb leb of_bool args true lv n = status V bin un bin_ok ltb leb of_bool args true lv' n.
Proof. exact status_ignore_levels. Qed.

(* the code is the specification, for both values of ignore_prior_limits *)
Theorem C03_run_is_gate_partial : forall (V : Type) (bin : binop -> V -> V -> V) (un : unop -> V -> V) (bin_ok : binop -> V -> V -> bool)
    (ltb leb : V -> V -> bool) (of_bool : bool -> V)
    (ignore : bool) (lims : list (limit V)) (lv : levels V) (n : node V) (vec : list V),
  levels_wf V lv n ->
  ldef V bin un bin_ok ltb leb of_bool (vec_args V n vec) lv ->
  constructible V bin un bin_ok ltb leb of_bool n vec ->
  run V bin un bin_ok ltb leb of_bool ignore lims lv n vec = gate V bin un bin_ok ltb leb of_bool ignore lims (flat V lv) n vec.
Proof. exact run_is_gate. Qed.

(* an instance is produced iff every value is inside its prior's limits and every assertion of
   every level is true of the values; the instance is then the C01 instance *)
Theorem C03_gate_iff_partial : forall (V : Type) (bin : binop -> V -> V -> V) (un : unop -> V -> V) (bin_ok : binop -> V -> V -> bool)
    (ltb leb : V -> V -> bool) (of_bool : bool -> V)
    (lims : list (limit V)) (lv : levels V) (n : node V) (vec : list V) (i : ival V),
  levels_wf V lv n ->
  ldef V bin un bin_ok ltb leb of_bool (vec_args V n vec) lv ->
  constructible V bin un bin_ok ltb leb of_bool n vec ->
  (run V bin un bin_ok ltb leb of_bool false lims lv n vec = VOk i <->
   List.length vec = prior_count V n /\ within V leb lims (vec_args V n vec) = true /\
   all_hold V bin un bin_ok ltb leb of_bool (vec_args V n vec) (flat V lv) = true /\ i = inst V bin un (vec_args V n vec) n).
Proof. exact run_ok_iff. Qed.

(* otherwise the fit exception (limit exception first, else assertion failure) *)
Theorem C03_rejects_partial : forall (V : Type) (bin : binop -> V -> V -> V) (un : unop -> V -> V) (bin_ok : binop -> V -> V -> bool)
    (ltb leb : V -> V -> bool) (of_bool : bool -> V)
    (lims : list (limit V)) (lv : levels V) (n : node V) (vec : list V),
  levels_wf V lv n ->
  ldef V bin un bin_ok ltb leb of_bool (vec_args V n vec) lv ->
  constructible V bin un bin_ok ltb leb of_bool n vec ->
  List.length vec = prior_count V n ->
  (within V leb lims (vec_args V n vec) = false -> run V bin un bin_ok ltb leb of_bool false lims lv n vec = VLimit) /\
  (within V leb lims (vec_args V n vec) = true ->
   all_hold V bin un bin_ok ltb leb of_bool (vec_args V n vec) (flat V lv) = false ->
   run V bin un bin_ok ltb leb of_bool false lims lv n vec = VAssert).
Proof. exact run_rejects. Qed.

(* a value outside its limits: the limit exception, unconditionally (limits are looked at first) *)
Theorem C03_limit_first : forall (V : Type) (bin : binop -> V -> V -> V) (un : unop -> V -> V) (bin_ok : binop -> V -> V -> bool)
    (ltb leb : V -> V -> bool) (of_bool : bool -> V)
    (lims : list (limit V)) (lv : levels V) (n : node V) (vec : list V),
  List.length vec = prior_count V n -> within V leb lims (vec_args V n vec) = false ->
  run V bin un bin_ok ltb leb of_bool false lims lv n vec = VLimit.
Proof. exact run_limit_first. Qed.

(* when the caller ignores limits/assertions an instance is always produced (if it can be constructed at all) *)
Theorem C03_ignore_total_partial : forall (V : Type) (bin : binop -> V -> V -> V) (un : unop -> V -> V) (bin_ok : binop -> V -> V -> bool)
    (ltb leb : V -> V -> bool) (of_bool : bool -> V)
    (lims : list (limit V)) (lv : levels V) (n : node V) (vec : list V),
  List.length vec = prior_count V n -> constructible V bin un bin_ok ltb leb of_bool n vec ->
  run V bin un bin_ok ltb leb of_bool true lims lv n vec = VOk (inst V bin un (vec_args V n vec) n).
Proof. exact run_ignore_total. Qed.

(* ... and that instance is complete: no parameter is left without a value anywhere in it (for the shapes the walk
   covers: tuple members are priors or constants, no bare tuple inside a collection) *)
Theorem C03_constructed_complete : forall (V : Type) (bin : binop -> V -> V -> V) (un : unop -> V -> V) (bin_ok : binop -> V -> V -> bool)
    (ltb leb : V -> V -> bool) (of_bool : bool -> V) (args : nat -> option V) (n : node V) (lv : levels V),
  covered V n = true ->
  status V bin un bin_ok ltb leb of_bool args true lv n = Ok tt ->
  no_missing V (inst V bin un args n) = true.
Proof. exact constructed_no_missing. Qed.

(* limits: `within` is the inequality lo <= v <= hi for every listed parameter, and speaks about every
   entry of the vector when limits are listed for every parameter *)
Theorem C03_limits_direct : forall (V : Type) (leb : V -> V -> bool) (lims : list (limit V)) (args : nat -> option V),
  within V leb lims args = true <->
  forall q lo hi v, In (q, (lo, hi)) lims -> args q = Some v -> leb lo v = true /\ leb v hi = true.
Proof. exact within_spec. Qed.

Theorem C03_limits_cover : forall (V : Type) (leb : V -> V -> bool) (lims : list (limit V)) (ids : list nat) (args : nat -> option V),
  covers V lims ids -> within V leb lims args = true ->
  forall q v, In q ids -> args q = Some v -> exists lo hi, In (q, (lo, hi)) lims /\ leb lo v = true /\ leb v hi = true.
Proof. exact within_covers. Qed.

Theorem C03_assertions_direct : forall (V : Type) (bin : binop -> V -> V -> V) (un : unop -> V -> V) (bin_ok : binop -> V -> V -> bool)
    (ltb leb : V -> V -> bool) (of_bool : bool -> V) (asserts : list (assertion V)) (args : nat -> option V),
  all_hold V bin un bin_ok ltb leb of_bool args asserts = true <->
  forall a, In a asserts -> holds V bin un bin_ok ltb leb of_bool args a = Ok true.
Proof. exact all_hold_spec. Qed.

(* the verdict of an inequality is the inequality evaluated on the numbers (operands may be
   parameters, constants or arithmetic expressions) *)
Theorem C03_verdict_lt : forall (V : Type) (bin : binop -> V -> V -> V) (un : unop -> V -> V) (bin_ok : binop -> V -> V -> bool)
    (ltb leb : V -> V -> bool) (of_bool : bool -> V) (args : nat -> option V) (l g : node V),
  holds V bin un bin_ok ltb leb of_bool args (ALt l g) = Ok true <->
  exists x y, operand V bin un bin_ok args l = Ok x /\ operand V bin un bin_ok args g = Ok y /\ ltb x y = true.
Proof. exact holds_lt. Qed.

Theorem C03_verdict_le : forall (V : Type) (bin : binop -> V -> V -> V) (un : unop -> V -> V) (bin_ok : binop -> V -> V -> bool)
    (ltb leb : V -> V -> bool) (of_bool : bool -> V) (args : nat -> option V) (l g : node V),
  holds V bin un bin_ok ltb leb of_bool args (ALe l g) = Ok true <->
  exists x y, operand V bin un bin_ok args l = Ok x /\ operand V bin un bin_ok args g = Ok y /\ leb x y = true.
Proof. exact holds_le. Qed.

(* what the operators build: x op y (either side may be the constant: reflected operators) means the
   inequality, for all four operators *)
Theorem C03_operator_builds : forall (V : Type) (bin : binop -> V -> V -> V) (un : unop -> V -> V) (bin_ok : binop -> V -> V -> bool)
    (ltb leb : V -> V -> bool) (of_bool : bool -> V) (args : nat -> option V) (op : cmpop) (x y : node V) (t : assertion V),
  arith_like V x || arith_like V y = true ->
  cmp_nodes V ltb leb op x y = Some t ->
  (holds V bin un bin_ok ltb leb of_bool args t = Ok true <->
   exists a b, operand V bin un bin_ok args x = Ok a /\ operand V bin un bin_ok args y = Ok b /\ cmp_consts V ltb leb op a b = true).
Proof. exact cmp_nodes_spec. Qed.

(* CHAINS OF ANY LENGTH (induction on how the chain was written; the code since 33cdc7f): the object the
   operators return for ((x ? y) op c) op' d ... is true of the values iff every inequality written is --
   each new operand compared with the greatest (< / <=) or lowest (> / >=) operand so far -- and it remembers
   the ends of what was written *)
Theorem C03_chain_all_links : forall (V : Type) (bin : binop -> V -> V -> V) (un : unop -> V -> V) (bin_ok : binop -> V -> V -> bool)
    (ltb leb : V -> V -> bool) (of_bool : bool -> V) (args : nat -> option V) (r : recipe V),
  rguard V r = true ->
  exists t, denote V ltb leb r = Some (t, rends V r) /\
            (holds V bin un bin_ok ltb leb of_bool args t = Ok true <-> means V bin un bin_ok ltb leb args r).
Proof. exact chain_all_links. Qed.

(* one more comparison on an assertion object of any length adds exactly the one inequality written *)
Theorem C03_chain_further : forall (V : Type) (bin : binop -> V -> V -> V) (un : unop -> V -> V) (bin_ok : binop -> V -> V -> bool)
    (ltb leb : V -> V -> bool) (of_bool : bool -> V)
    (args : nat -> option V) (first : assertion V) (e e' : node V * node V) (op : cmpop) (c : node V) (t : assertion V),
  let p := match op with CLt | CLe => snd e | CGt | CGe => fst e end in
  arith_like V p || arith_like V c = true ->
  chain V ltb leb first e op c = Some (t, e') ->
  (holds V bin un bin_ok ltb leb of_bool args t = Ok true <->
   holds V bin un bin_ok ltb leb of_bool args first = Ok true /\
   exists a b, operand V bin un bin_ok args p = Ok a /\ operand V bin un bin_ok args c = Ok b /\ cmp_consts V ltb leb op a b = true) /\
  e' = match op with CLt | CLe => (fst e, c) | CGt | CGe => (c, snd e) end.
Proof. exact chain_spec. Qed.

(* the verdict of an assertion is independent of the names under which its arithmetic operands keep their own
   operands, i.e. of the caller's variable names (the code since d91c8d6: such a name can no longer collide with
   an attribute of the compound object, so it is a name only; the correspondence runs comparisons written on
   variables called left, _left, assertions, ... and compares the objects built) *)
Theorem C03_operand_names_irrelevant : forall (V : Type) (bin : binop -> V -> V -> V) (un : unop -> V -> V) (bin_ok : binop -> V -> V -> bool)
    (ltb leb : V -> V -> bool) (of_bool : bool -> V) (args : nat -> option V) (a b : assertion V),
  erase_a V a = erase_a V b ->
  holds V bin un bin_ok ltb leb of_bool args a = holds V bin un bin_ok ltb leb of_bool args b.
Proof. exact names_irrelevant. Qed.

(* ---------- the unary node (ModifiedPrior: -p, abs(p)) ---------- *)
(* as an operand of a comparison: the operator applied to the operand's value under the same assignment; an
   exception of the operand is the exception of the unary form *)
Theorem C03_unary_operand : forall (V : Type) (bin : binop -> V -> V -> V) (un : unop -> V -> V) (bin_ok : binop -> V -> V -> bool)
    (args : nat -> option V) (o : unop) (nm : string) (c : node V),
  is_const V c = false ->
  (forall a, operand V bin un bin_ok args c = Ok a -> operand V bin un bin_ok args (NUn o nm c) = Ok (un o a)) /\
  (forall e, operand V bin un bin_ok args c = Err e -> operand V bin un bin_ok args (NUn o nm c) = Err e).
Proof. exact unary_operand. Qed.

(* x - y as the operators build it (x + (-y)) evaluates to bin OAdd x (un UNeg y) *)
Theorem C03_sub_operand : forall (V : Type) (bin : binop -> V -> V -> V) (un : unop -> V -> V) (bin_ok : binop -> V -> V -> bool)
    (args : nat -> option V) (ln rn nm : string) (l r : node V) (a b : V),
  is_const V r = false -> operand V bin un bin_ok args l = Ok a -> operand V bin un bin_ok args r = Ok b ->
  operand V bin un bin_ok args (NBin OAdd ln rn l (NUn UNeg nm r)) =
  if bin_ok OAdd a (un UNeg b) then Ok (bin OAdd a (un UNeg b)) else Err EZero.
Proof. exact sub_operand. Qed.

(* op(x) < g means the inequality on op(value of x) *)
Theorem C03_verdict_lt_unary : forall (V : Type) (bin : binop -> V -> V -> V) (un : unop -> V -> V) (bin_ok : binop -> V -> V -> bool)
    (ltb leb : V -> V -> bool) (of_bool : bool -> V) (args : nat -> option V) (o : unop) (nm : string) (c g : node V),
  is_const V c = false ->
  (holds V bin un bin_ok ltb leb of_bool args (ALt (NUn o nm c) g) = Ok true <->
   exists x y, operand V bin un bin_ok args c = Ok x /\ operand V bin un bin_ok args g = Ok y /\ ltb (un o x) y = true).
Proof. exact verdict_lt_unary. Qed.

(* a unary node held by a model is a level: its own assertions are checked first, the flag is handed to the
   operand; with construction and assertions defined the level-by-level check is the flat specification *)
Theorem C03_unary_level : forall (V : Type) (bin : binop -> V -> V -> V) (un : unop -> V -> V) (bin_ok : binop -> V -> V -> bool)
    (ltb leb : V -> V -> bool) (of_bool : bool -> V) (args : nat -> option V) (ignore : bool) (lv : levels V)
    (o : unop) (nm : string) (c : node V),
  status V bin un bin_ok ltb leb of_bool args ignore lv (NUn o nm c) =
  seq (if ignore then Ok tt else check_level V bin un bin_ok ltb leb of_bool args (here V lv))
      (seq (status V bin un bin_ok ltb leb of_bool args ignore (below V nm lv) c) (un_status V bin un args c)).
Proof. exact unary_level. Qed.

Theorem C03_unary_level_gates_partial : forall (V : Type) (bin : binop -> V -> V -> V) (un : unop -> V -> V) (bin_ok : binop -> V -> V -> bool)
    (ltb leb : V -> V -> bool) (of_bool : bool -> V) (args : nat -> option V) (lv : levels V) (o : unop) (nm : string) (c : node V),
  levels_wf V lv (NUn o nm c) -> ldef V bin un bin_ok ltb leb of_bool args lv ->
  status V bin un bin_ok ltb leb of_bool args true lv (NUn o nm c) = Ok tt ->
  status V bin un bin_ok ltb leb of_bool args false lv (NUn o nm c) =
  if all_hold V bin un bin_ok ltb leb of_bool args (flat V lv) then Ok tt else Fit.
Proof. exact unary_level_gates. Qed.

Print Assumptions C03_levels_flat_partial.
Print Assumptions C03_run_is_gate_partial.
Print Assumptions C03_chain_all_links.
Print Assumptions C03_unary_operand.
Print Assumptions C03_sub_operand.
Print Assumptions C03_verdict_lt_unary.
Print Assumptions C03_unary_level.
Print Assumptions C03_unary_level_gates_partial.
