(* C08 lemmas, part 3: the three round trips as renamings; the equivalence they establish; what the
   equivalence means for paths, sharing, counts, instances and order; sequences of round trips. *)
From Coq Require Import List String Bool Arith PeanoNat Lia Permutation Sorted.
From PAFC01 Require Import ModelTree Sorting Proofs Proofs2 Proofs3.
From PAFC08 Require Import Model Lib Proofs1 Proofs2.
Import ListNotations.
Local Open Scope string_scope.
Local Open Scope list_scope.

Section P3.
  Variable V : Type.
  Variable falsy : V -> bool.
  Variable cf : cfg.
  Notation snode := (snode V).
  Notation pspec := (pspec V).
  Notation assertion := (assertion V).
  Notation occs := (occs V).
  Notation node_ids := (node_ids V).
  Notation smap := (smap V).
  Notation tree := (tree V).

  (* ---------- what is compared: everything except the message id ---------- *)
  Definition forget (sp : pspec) : pspec := with_mid V sp None.
  Definition forget_f (p : nat) (sp : pspec) : nat * pspec := (p, forget sp).
  Definition ren_f (s : nat -> nat) (p : nat) (sp : pspec) : nat * pspec := (s p, forget sp).

  Lemma forget_idem (sp : pspec) : forget (forget sp) = forget sp.
  Proof. reflexivity. Qed.
  Lemma forget_with_mid (sp : pspec) (m : option nat) : forget (with_mid V sp m) = forget sp.
  Proof. reflexivity. Qed.

  (* one Python prior object per id: all occurrences of an id carry the same specification *)
  Definition consistent (n : snode) : Prop :=
    forall p a b, In (p, a) (occs n) -> In (p, b) (occs n) -> forget a = forget b.

  (* n' is n with parameter identities renamed injectively; same shape, classes, attribute names,
     constants, dict constants, prior families / limits / parameters in place, assertions *)
  Definition equiv (n n' : snode) : Prop :=
    exists s, inj_on s (node_ids n) /\ smap forget_f n' = smap (ren_f s) n.

  (* ---------- composition of maps ---------- *)
  Definition comp (g f : nat -> pspec -> nat * pspec) (p : nat) (sp : pspec) := g (fst (f p sp)) (snd (f p sp)).

  Lemma emap_comp (g f : nat -> pspec -> nat * pspec) (e : expr V) : emap V g (emap V f e) = emap V (comp g f) e.
  Proof. induction e as [p sp|v|o l IHl r IHr|o x IHx]; simpl; [reflexivity|reflexivity|rewrite IHl, IHr; reflexivity|rewrite IHx; reflexivity]. Qed.
  Lemma amap_comp (g f : nat -> pspec -> nat * pspec) (a : assertion) : amap V g (amap V f a) = amap V (comp g f) a.
  Proof.
    induction a as [l r|l r|a IHa b IHb]; simpl; [rewrite !emap_comp|rewrite !emap_comp|rewrite IHa, IHb]; reflexivity.
  Qed.
  Lemma smap_comp (g f : nat -> pspec -> nat * pspec) (n : snode) : smap g (smap f n) = smap (comp g f) n.
  Proof.
    induction n as [p sp|v|items|k ch asr IH] using (snode_ind' V); try reflexivity.
    rewrite !smap_node. f_equal.
    - unfold chmap. rewrite map_map. apply map_ext_in. intros [nm c] Hin. simpl. f_equal.
      rewrite Forall_forall in IH. exact (IH _ Hin).
    - rewrite map_map. apply map_ext. intro a. apply amap_comp.
  Qed.

  Lemma node_ids_smap (f : nat -> pspec -> nat * pspec) (s : nat -> nat) (n : snode) :
    (forall p sp, fst (f p sp) = s p) -> node_ids (smap f n) = map s (node_ids n).
  Proof.
    intro H. unfold Proofs1.node_ids. rewrite occs_smap, !map_map. apply map_ext. intros [p sp]. apply H.
  Qed.

  Lemma forall_nodes_true (n : snode) : forall_nodes V (fun _ => true) n = true.
  Proof.
    induction n as [p sp|v|items|k ch asr IH] using (snode_ind' V); try reflexivity.
    rewrite forall_nodes_node. simpl. apply forallb_forall. intros x Hin. rewrite Forall_forall in IH. exact (IH _ Hin).
  Qed.

  (* a map that keeps ids and changes at most the message id gives an equivalent model, with the identity *)
  Lemma equiv_keep (g : nat -> pspec -> nat * pspec) (n : snode) :
    (forall p sp, fst (g p sp) = p /\ forget (snd (g p sp)) = forget sp) -> smap forget_f (smap g n) = smap forget_f n.
  Proof.
    intro H. rewrite smap_comp. apply smap_ext. intros p sp _. unfold comp, forget_f.
    destruct (H p sp) as [A B]. rewrite A, B. reflexivity.
  Qed.

  Lemma forget_as_ren (n : snode) : smap forget_f n = smap (ren_f (fun q => q)) n.
  Proof. reflexivity. Qed.

  (* ---------- pickle ---------- *)
  Definition pickle_f (p : nat) (sp : pspec) : nat * pspec :=
    (p, match ps_fam V sp with FGaussian => with_mid V sp None | _ => sp end).

  Lemma pickle_total (n : snode) : pickle_rt V n = Ok (smap pickle_f n).
  Proof.
    unfold pickle_rt.
    rewrite (tnode_pure V (pickle_prior V) (fun d => d) (fun _ => None) (fun _ => false) (rebuild_same V)
                        pickle_f (fun _ => true) (fun _ _ => true)); auto.
    - apply forall_nodes_true.
    - intros p sp _. reflexivity.
  Qed.

  Lemma pickle_keeps (n : snode) : smap forget_f (smap pickle_f n) = smap forget_f n.
  Proof. apply equiv_keep. intros p sp. unfold pickle_f. simpl. split; [reflexivity|]. destruct (ps_fam V sp); reflexivity. Qed.

  (* ---------- database ---------- *)
  Definition is_bin_kind (k : kind) : bool := match k with KBin _ => true | _ => false end.
  Definition db_node_ok (n : snode) : bool :=
    match n with
    | SNode k _ asr => negb (is_bin_kind k) && (fix_chain cf || negb (existsb (is_and V) asr))
    | _ => true
    end.
  Definition mid_some (p : nat) (sp : pspec) : bool := match ps_mid V sp with Some _ => true | None => false end.
  Definition db_occ_ok (p : nat) (sp : pspec) : bool := fix_db_id cf || onat_eqb (ps_mid V sp) (Some p).

  Definition all_occs (R : nat -> pspec -> bool) (n : snode) : bool := forallb (fun ps => R (fst ps) (snd ps)) (occs n).

  Lemma all_occs_spec (R : nat -> pspec -> bool) (n : snode) :
    all_occs R n = true -> forall p sp, In (p, sp) (occs n) -> R p sp = true.
  Proof. unfold all_occs. rewrite forallb_forall. intros H p sp Hin. exact (H (p, sp) Hin). Qed.

  (* what a Prior row is rebuilt as: the stored id (own id when repaired, the message's otherwise) *)
  Definition db_f (p : nat) (sp : pspec) : nat * pspec :=
    if fix_db_id cf then (p, with_mid V sp (Some p))
    else match ps_mid V sp with Some m => (m, with_mid V sp (Some m)) | None => (p, sp) end.

  Lemma db_pure_hyps (m : snode) : db_node_ok m = true ->
    db_pre V cf m = None /\ forall ch asr, rebuild_bin_default V m ch asr = rebuild_same V m ch asr.
  Proof.
    destruct m as [p sp|v|items|k ch0 asr0]; simpl; intro H; try (split; reflexivity).
    apply andb_true_iff in H. destruct H as [Hk Ha]. split.
    - destruct (fix_chain cf); simpl in *; [reflexivity|]. destruct (existsb (is_and V) asr0); [discriminate|reflexivity].
    - intros ch asr. destruct k; simpl in *; try reflexivity. discriminate.
  Qed.

  Lemma db_total_gen (n : snode) :
    forall_nodes V db_node_ok n = true -> all_occs (fun p sp => fix_db_id cf || mid_some p sp) n = true ->
    db_rt V cf n = Ok (smap db_f n).
  Proof.
    intros HQ HR. unfold db_rt.
    rewrite (tnode_pure V (db_prior V cf) (fun d => d) (db_pre V cf) (fun _ => false) (rebuild_bin_default V)
                        db_f db_node_ok (fun p sp => fix_db_id cf || mid_some p sp)); auto.
    - intros p sp H. unfold db_prior, db_f, mid_some in *. destruct (fix_db_id cf); [reflexivity|]. simpl in H.
      destruct (ps_mid V sp); [reflexivity|discriminate].
    - intros m H. apply (db_pure_hyps m H).
    - intros m ch asr H. apply (db_pure_hyps m H).
    - intros p sp Hin. exact (all_occs_spec _ n HR p sp Hin).
  Qed.

  Lemma onat_eqb_eq (a b : option nat) : onat_eqb a b = true -> a = b.
  Proof.
    destruct a as [x|], b as [y|]; simpl; intro H; try discriminate; [|reflexivity].
    apply Nat.eqb_eq in H. subst. reflexivity.
  Qed.

  Lemma db_total (n : snode) :
    forall_nodes V db_node_ok n = true -> all_occs db_occ_ok n = true ->
    db_rt V cf n = Ok (smap (fun p sp => (p, with_mid V sp (Some p))) n).
  Proof.
    intros HQ HR. rewrite db_total_gen; [| exact HQ |].
    - f_equal. apply smap_ext. intros p sp Hin. pose proof (all_occs_spec _ n HR p sp Hin) as H.
      unfold db_occ_ok, db_f in *. destruct (fix_db_id cf); [reflexivity|]. simpl in H.
      apply onat_eqb_eq in H. rewrite H. reflexivity.
    - unfold all_occs in *. rewrite forallb_forall in *. intros [p sp] Hin. specialize (HR _ Hin). simpl in *.
      unfold db_occ_ok, mid_some in *. destruct (fix_db_id cf); [reflexivity|]. simpl in *.
      apply onat_eqb_eq in HR. rewrite HR. reflexivity.
  Qed.

  (* the pinned code in general: every occurrence of parameter p carries message id mu p *)
  Lemma db_total_mu (mu : nat -> nat) (n : snode) :
    fix_db_id cf = false ->
    forall_nodes V db_node_ok n = true ->
    (forall p sp, In (p, sp) (occs n) -> ps_mid V sp = Some (mu p)) ->
    db_rt V cf n = Ok (smap (fun p sp => (mu p, with_mid V sp (Some (mu p)))) n).
  Proof.
    intros F HQ HM. rewrite db_total_gen; [| exact HQ |].
    - f_equal. apply smap_ext. intros p sp Hin. unfold db_f. rewrite F, (HM p sp Hin). reflexivity.
    - unfold all_occs. rewrite forallb_forall. intros [p sp] Hin. simpl. unfold mid_some. rewrite (HM p sp Hin).
      apply orb_true_r.
  Qed.

  (* ---------- dictionary ---------- *)
  Definition dict_node_ok (n : snode) : bool :=
    match n with
    | SNode (KBin _) _ _ => false
    | SNode (KModel _ _) _ _ => negb (as_instance V cf n)
    | SDict items => fix_falsy cf || forallb (fun kv => negb (falsy (snd kv))) items
    | _ => true
    end.

  Lemma filter_all {A} (f : A -> bool) (l : list A) : forallb f l = true -> filter f l = l.
  Proof.
    induction l as [|x l IH]; simpl; intro H; [reflexivity|]. apply andb_true_iff in H. destruct H as [H1 H2].
    rewrite H1, (IH H2). reflexivity.
  Qed.

  Lemma dict_hyps (m : snode) : dict_node_ok m = true ->
    dict_pre V cf m = None /\ as_instance V cf m = false /\
    (forall ch asr, dict_post V cf m ch asr = rebuild_same V m ch asr) /\
    (forall items, m = SDict items -> dict_filter V falsy cf items = items).
  Proof.
    destruct m as [p sp|v|items|k ch0 asr0]; intro H.
    - repeat split; try reflexivity. intros; discriminate.
    - repeat split; try reflexivity. intros; discriminate.
    - repeat split; try reflexivity. intros items' E. inversion E; subst. unfold dict_filter. simpl in H.
      destruct (fix_falsy cf); [reflexivity|]. simpl in H. apply filter_all. exact H.
    - destruct k as [cls ctor| |idx|o|uo|cls ctor]; cbn [dict_node_ok] in H; try discriminate.
      + apply negb_true_iff in H. cbn [dict_pre dict_post]. rewrite H. cbn [andb].
        repeat split; try reflexivity. intros; discriminate.
      + repeat split; try reflexivity. intros; discriminate.
      + repeat split; try reflexivity. intros; discriminate.
      + repeat split; try reflexivity. intros; discriminate.
      + repeat split; try reflexivity. intros; discriminate.
  Qed.

  Definition sigma_of (st : dstate V) (p : nat) : nat :=
    match alookup p (loaded V st) with Some r => fst r | None => p end.

  Theorem dict_total (n : snode) :
    forall_nodes V dict_node_ok n = true -> all_occs (occ_ok V cf) n = true -> consistent n ->
    exists n' s, dict_rt V falsy cf n = Ok n' /\ inj_on s (node_ids n) /\
                 smap forget_f n' = smap (ren_f s) n /\
                 (forall q sq, In (q, sq) (occs n') -> ps_mid V sq = Some q).
  Proof.
    intros HQ HR HC. unfold dict_rt, dict_rt_from.
    set (st0 := mkd V [] (fresh_base V n)).
    assert (I0 : inv V st0) by (split; intros; discriminate).
    destruct (memo_node V falsy cf dict_node_ok
                (fun m H => proj1 (dict_hyps m H))
                (fun m H => proj1 (proj2 (dict_hyps m H)))
                (fun m ch asr H => proj1 (proj2 (proj2 (dict_hyps m H))) ch asr)
                (fun items H => proj2 (proj2 (proj2 (dict_hyps (SDict items) H))) items eq_refl)
                n HQ (all_occs_spec _ n HR) st0 I0) as [st' [E [I' [X [C F]]]]].
    exists (smap (look V st') n), (sigma_of st'). rewrite E. cbn [bind fst].
    assert (L : forall p sp, In (p, sp) (occs n) ->
              exists r sp0, alookup p (loaded V st') = Some r /\ In (p, sp0) (occs n) /\ snd r = with_mid V sp0 (Some (fst r))).
    { intros p sp Hin. destruct (alookup p (loaded V st')) as [r|] eqn:A; [|exfalso; exact (C p sp Hin A)].
      destruct (F p r A) as [B|[sp0 [Hin0 [E0 _]]]]; [discriminate|]. exists r, sp0. auto. }
    repeat split.
    - intros a b Ha Hb Eab. unfold Proofs1.node_ids in Ha, Hb.
      apply in_map_iff in Ha. destruct Ha as [[a' spa] [<- Ha]]. apply in_map_iff in Hb. destruct Hb as [[b' spb] [<- Hb]].
      simpl in *. destruct (L _ _ Ha) as [ra [_ [Aa _]]]. destruct (L _ _ Hb) as [rb [_ [Ab _]]].
      unfold sigma_of in Eab. rewrite Aa, Ab in Eab. exact (inv_inj V st' I' a' b' ra rb Aa Ab Eab).
    - rewrite smap_comp. apply smap_ext. intros p sp Hin. unfold comp, forget_f, ren_f, look, sigma_of.
      destruct (L _ _ Hin) as [r [sp0 [A [Hin0 E0]]]]. rewrite A, E0, forget_with_mid. f_equal. exact (HC p sp0 sp Hin0 Hin).
    - intros q sq Hin. rewrite occs_smap in Hin. apply in_map_iff in Hin. destruct Hin as [[p sp] [E1 Hin]].
      simpl in E1. unfold look in E1. destruct (L _ _ Hin) as [r [sp0 [A [_ E0]]]]. rewrite A in E1. subst r.
      simpl in E0. rewrite E0. reflexivity.
  Qed.

  (* ---------- the guards, per form ---------- *)
  Definition guard (f : form) (n : snode) : bool :=
    match f with
    | FPickle => true
    | FDb => forall_nodes V db_node_ok n && all_occs db_occ_ok n
    | FDict => forall_nodes V dict_node_ok n && all_occs (occ_ok V cf) n
    end.

  Theorem rt_equiv (f : form) (n : snode) :
    guard f n = true -> consistent n -> exists n', rt V falsy cf f n = Ok n' /\ equiv n n'.
  Proof.
    intros G HC. destruct f; simpl in G.
    - apply andb_true_iff in G. destruct G as [G1 G2].
      destruct (dict_total n G1 G2 HC) as [n' [s [E [I [S _]]]]]. exists n'. split; [exact E|]. exists s. auto.
    - exists (smap pickle_f n). split; [apply pickle_total|]. exists (fun q => q). split; [intros a b _ _ E; exact E|].
      rewrite pickle_keeps. reflexivity.
    - apply andb_true_iff in G. destruct G as [G1 G2]. eexists. split; [apply (db_total n G1 G2)|].
      exists (fun q => q). split; [intros a b _ _ E; exact E|].
      rewrite equiv_keep; [reflexivity|]. intros p sp. split; reflexivity.
  Qed.

  (* pickle and database forms keep the identities themselves (hence the order) *)
  Theorem rt_identity (f : form) (n : snode) :
    f <> FDict -> guard f n = true -> exists n', rt V falsy cf f n = Ok n' /\ smap forget_f n' = smap forget_f n.
  Proof.
    intros NF G. destruct f; [contradiction| |]; simpl in G.
    - exists (smap pickle_f n). split; [apply pickle_total|apply pickle_keeps].
    - apply andb_true_iff in G. destruct G as [G1 G2]. eexists. split; [apply (db_total n G1 G2)|].
      apply equiv_keep. intros p sp. split; reflexivity.
  Qed.

  (* ---------- equivalence is preserved along sequences ---------- *)
  Lemma occs_forget (n : snode) : occs (smap forget_f n) = map (fun ps => (fst ps, forget (snd ps))) (occs n).
  Proof. rewrite occs_smap. reflexivity. Qed.

  Lemma equiv_consistent (n n' : snode) : equiv n n' -> consistent n -> consistent n'.
  Proof.
    intros [s [Hi E]] HC q a b Ha Hb.
    assert (K : forall x, In (q, x) (occs n') -> exists p sp, In (p, sp) (occs n) /\ s p = q /\ forget sp = forget x).
    { intros x Hx.
      assert (Hin : In (q, forget x) (occs (smap forget_f n'))).
      { rewrite occs_forget. apply in_map_iff. exists (q, x). split; [reflexivity|exact Hx]. }
      rewrite E, occs_smap in Hin. apply in_map_iff in Hin. destruct Hin as [[p sp] [E1 Hin]].
      unfold ren_f in E1. simpl in E1. exists p, sp.
      repeat split; [exact Hin|exact (f_equal fst E1)|exact (f_equal snd E1)]. }
    destruct (K a Ha) as [p1 [s1 [H1 [E1 F1]]]]. destruct (K b Hb) as [p2 [s2 [H2 [E2 F2]]]].
    assert (p1 = p2).
    { apply Hi; [exact (in_map fst _ _ H1)|exact (in_map fst _ _ H2)|congruence]. }
    subst p2. rewrite <- F1, <- F2. exact (HC p1 s1 s2 H1 H2).
  Qed.

  Lemma equiv_refl (n : snode) : equiv n n.
  Proof. exists (fun q => q). split; [intros a b _ _ E; exact E|reflexivity]. Qed.

  Lemma equiv_trans (a b c : snode) : equiv a b -> equiv b c -> equiv a c.
  Proof.
    intros [s1 [I1 E1]] [s2 [I2 E2]]. exists (fun q => s2 (s1 q)). split.
    - assert (Nb : node_ids b = map s1 (node_ids a)).
      { assert (Nf : node_ids (smap forget_f b) = node_ids b).
        { rewrite (node_ids_smap forget_f (fun q => q)) by reflexivity. apply map_id. }
        rewrite <- Nf, E1. apply node_ids_smap. reflexivity. }
      intros x y Hx Hy E. apply I1; auto. apply I2; auto; rewrite Nb; apply in_map; assumption.
    - rewrite E2.
      assert (R : smap (ren_f s2) b = smap (ren_f s2) (smap forget_f b)).
      { rewrite smap_comp. apply smap_ext. intros p sp _. reflexivity. }
      rewrite R, E1, smap_comp. apply smap_ext. intros p sp _. reflexivity.
  Qed.

  Fixpoint guards (fs : list form) (n : snode) : Prop :=
    match fs with
    | [] => True
    | f :: r => guard f n = true /\ forall n', rt V falsy cf f n = Ok n' -> guards r n'
    end.

  Theorem rt_seq_equiv (fs : list form) : forall n,
    consistent n -> guards fs n -> exists n', rt_seq V falsy cf fs n = Ok n' /\ equiv n n'.
  Proof.
    induction fs as [|f fs IH]; intros n HC G.
    - exists n. split; [reflexivity|apply equiv_refl].
    - destruct G as [G1 G2]. destruct (rt_equiv f n G1 HC) as [n1 [E1 Q1]].
      destruct (IH n1 (equiv_consistent n n1 Q1 HC) (G2 n1 E1)) as [n2 [E2 Q2]].
      exists n2. split; [cbn [rt_seq]; rewrite E1; exact E2|exact (equiv_trans _ _ _ Q1 Q2)].
  Qed.

  (* ---------- from the stored model to the ModelTree view ---------- *)
  Lemma walk_const_attrs (items : list (string * V)) :
    walk V (NColl (map (fun kv => (fst kv, NConst (snd kv))) items)) = [].
  Proof. cbn [walk]. induction items as [|[k v] items IH]; simpl; [reflexivity|exact IH]. Qed.

  Lemma zip_members_in (l : list (string * node V)) (idx : list nat) (k : string) (i : nat) (c : node V) :
    In (k, (i, c)) (zip_members V l idx) -> In (k, c) l.
  Proof.
    revert idx. induction l as [|[nm x] l IH]; intros [|j idx] H; simpl in H; try contradiction.
    destruct H as [E|H]; [inversion E; subst; left; reflexivity|right; exact (IH _ H)].
  Qed.

  Lemma erase_ids_incl (n : snode) : forall b q, In q (prior_ids V (erase V b n)) -> In q (node_ids n).
  Proof.
    induction n as [p sp|v|items|k ch asr IH] using (snode_ind' V); intros b q H.
    - simpl in H. destruct H as [<-|[]]. left; reflexivity.
    - contradiction.
    - unfold prior_ids in H. cbn [erase] in H. rewrite walk_const_attrs in H. contradiction.
    - assert (K : forall b' kk c, In (kk, c) (ech V b' ch) -> In q (prior_ids V c) -> In q (node_ids (SNode k ch asr))).
      { intros b' kk c Hin Hq. unfold ech in Hin. apply in_map_iff in Hin. destruct Hin as [[nm x] [E Hin]].
        simpl in E. assert (Ec : c = erase V b' x) by congruence. subst c. clear E.
        rewrite Forall_forall in IH. pose proof (IH _ Hin b' q Hq) as Hx. simpl in Hx.
        unfold Proofs1.node_ids in *. rewrite occs_node, map_app. apply in_or_app. left.
        unfold ch_occs. apply in_map_iff in Hx. destruct Hx as [ps [E2 Hps]]. apply in_map_iff. exists ps. split; [exact E2|].
        apply in_flat_map. exists (nm, x). split; [exact Hin|exact Hps]. }
      assert (KA : forall b' cls_attrs, cls_attrs = ech V b' ch ->
                   In q (map snd ((fix go (a : list (string * node V)) : list (path * nat) :=
                                     match a with [] => [] | (k0, c) :: a' => prefix_paths k0 (walk V c) ++ go a' end) cls_attrs)) ->
                   In q (node_ids (SNode k ch asr))).
      { intros b' a Ea Hq. apply in_map_iff in Hq. destruct Hq as [[p q'] [Eq Hpq]]. simpl in Eq. subst q'.
        destruct (attrs_walk_in V a p q Hpq) as [kk [c [p' [_ [Hin Hw]]]]]. subst a.
        apply (K b' kk c Hin). unfold prior_ids. apply in_map_iff. exists (p', q). auto. }
      unfold prior_ids in H. cbn [erase] in H. rewrite !erase_children in H.
      destruct k as [cls ctor| |idx|o|uo|cls ctor].
      + cbn [walk] in H. exact (KA false _ eq_refl H).
      + cbn [walk] in H. exact (KA b _ eq_refl H).
      + destruct b.
        * cbn [walk] in H. exact (KA true _ eq_refl H).
        * cbn [walk] in H. apply in_map_iff in H. destruct H as [[p q'] [Eq Hpq]]. simpl in Eq. subst q'.
          destruct (members_walk_in V _ p q Hpq) as [kk [i [c [p' [_ [Hin Hw]]]]]].
          apply zip_members_in in Hin. apply (K false kk c Hin). unfold prior_ids. apply in_map_iff. exists (p', q). auto.
      + destruct (ech V false ch) as [|[ln l] [|[rn r] [|x t]]] eqn:Ech; try contradiction.
        cbn [walk] in H.
        assert (Hl : In (ln, l) (ech V false ch)) by (rewrite Ech; left; reflexivity).
        assert (Hr : In (rn, r) (ech V false ch)) by (rewrite Ech; right; left; reflexivity).
        destruct (String.eqb ln rn).
        * unfold prefix_paths in H. rewrite map_map in H. simpl in H. exact (K false rn r Hr H).
        * rewrite map_app in H. apply in_app_or in H. unfold prefix_paths in H. rewrite !map_map in H. simpl in H.
          destruct H as [H|H]; [exact (K false ln l Hl H)|exact (K false rn r Hr H)].
      + destruct (ech V false ch) as [|[nm c] [|x t]] eqn:Ech; try contradiction.
        cbn [walk] in H.
        assert (Hc : In (nm, c) (ech V false ch)) by (rewrite Ech; left; reflexivity).
        unfold prefix_paths in H. rewrite map_map in H. simpl in H. exact (K false nm c Hc H).
      + cbn [walk] in H. exact (KA true _ eq_refl H).
  Qed.

  Lemma tree_forget (n : snode) : tree (smap forget_f n) = tree n.
  Proof. rewrite (tree_smap V forget_f (fun q => q)) by reflexivity. apply ren_id. Qed.

  (* the ModelTree of an equivalent model is the ModelTree of the original, renamed injectively *)
  Theorem equiv_tree (n n' : snode) :
    equiv n n' -> exists s, inj_on s (prior_ids V (tree n)) /\ tree n' = ren V s (tree n).
  Proof.
    intros [s [Hi E]]. exists s. split.
    - intros a b Ha Hb. apply Hi; apply (erase_ids_incl n false); assumption.
    - rewrite <- (tree_forget n'), E. apply tree_smap. reflexivity.
  Qed.

  Theorem identity_tree (n n' : snode) : smap forget_f n' = smap forget_f n -> tree n' = tree n.
  Proof. intro E. rewrite <- (tree_forget n'), E. apply tree_forget. Qed.
End P3.
