(* C08: the full statement refuted on the faithful model of the pinned code (witnesses replayed against the
   implementation in findings/C08-*.py), and non-vacuity of the hypotheses of the theorems. *)
From Coq Require Import List String Bool Arith.
From Coq Require Import Floats.PrimFloat.
From PAFCommon Require Import PyFloat.
From PAFC01 Require Import ModelTree Model Proofs2 Proofs3.
From PAFC08 Require Import Model Lib Proofs1 Proofs2 Proofs3 Proofs4 Proofs5 Proofs6 Proofs7 Proofs8 Proofs9.
Import ListNotations.
Local Open Scope string_scope.
Local Open Scope list_scope.

Definition uni (m : option nat) : pspec float := mkspec FUniform 0%float 1%float [] m.
Definition gau (m : option nat) : pspec float := mkspec FGaussian neg_infinity infinity [0.5%float; 0.25%float] m.
Definition lgau (m : option nat) : pspec float := mkspec FLogGaussian 0%float infinity [0.5%float; 0.25%float] m.
Definition g2 (a b : fsnode) (asr : list (assertion float)) : fsnode := SNode (KModel "G2" ["a"; "b"]) [("a", a); ("b", b)] asr.

Notation frt_seq := (rt_seq float ffalsy cfg_pinned).
Notation fdb := (db_rt float cfg_pinned).
Notation fdict := (dict_rt float ffalsy cfg_pinned).
Notation ftree := (tree float).
Notation fequiv := (equiv float).

(* ---- database: b = a.new() shares a's message, hence its stored id: two parameters become one ---- *)
Definition w_new : fsnode := g2 (SPrior 0 (uni (Some 0))) (SPrior 1 (uni (Some 0))) [].

Lemma db_merges_refuted :
  exists n n', consistent float n /\ fdb n = Ok n' /\ prior_count float (ftree n) = 2 /\ prior_count float (ftree n') = 1 /\ ~ fequiv n n'.
Proof.
  exists w_new. eexists. split; [|split; [vm_compute; reflexivity|]].
  - intros p a b Ha Hb. simpl in Ha, Hb. destruct Ha as [Ha|[Ha|[]]], Hb as [Hb|[Hb|[]]]; congruence.
  - split; [vm_compute; reflexivity|]. split; [vm_compute; reflexivity|].
    intro Q. apply equiv_count in Q. vm_compute in Q. discriminate.
Qed.

(* ---- database: prior-passed prior (id 0, message id 5) next to an ordinary one (id 3): nothing merges, the order flips ---- *)
Definition w_passed : fsnode :=
  SNode KColl [("m", g2 (SPrior 0 (gau (Some 5))) (SConst 1%float) []); ("s", SPrior 3 (uni (Some 3)))] [].

Lemma db_order_refuted :
  exists n n', fdb n = Ok n' /\ unique_prior_paths float (ftree n) = [["m"; "a"]; ["s"]]
               /\ unique_prior_paths float (ftree n') = [["s"]; ["m"; "a"]].
Proof. exists w_passed. eexists. split; [vm_compute; reflexivity|]. split; vm_compute; reflexivity. Qed.

(* ---- pickle, then database: the pickled GaussianPrior's message has no id_ ---- *)
Lemma pickle_then_db_refuted :
  exists n, guard float ffalsy cfg_pinned FDb n = true /\ frt_seq [FPickle; FDb] n = Err EAttributeError.
Proof. exists (g2 (SPrior 0 (gau (Some 0))) (SConst 1%float) []). split; vm_compute; reflexivity. Qed.

(* ---- dict and database: b = p + q hangs its operands under the caller's variable names ---- *)
Definition w_arith : fsnode :=
  g2 (SPrior 0 (uni (Some 0))) (SNode (KBin OAdd) [("p", SPrior 0 (uni (Some 0))); ("q", SPrior 1 (uni (Some 1)))] []) [].

Lemma arith_names_refuted :
  exists n, consistent float n /\
    (exists n', fdict n = Ok n' /\ map fst (walk float (ftree n)) = [["a"]; ["b"; "p"]; ["b"; "q"]]
                /\ map fst (walk float (ftree n')) = [["a"]; ["b"; "left_"]; ["b"; "right_"]] /\ ~ fequiv n n') /\
    (exists n', fdb n = Ok n' /\ map fst (walk float (ftree n')) = [["a"]; ["b"; "left_"]; ["b"; "right_"]] /\ ~ fequiv n n').
Proof.
  exists w_arith. split; [|split].
  - intros p a b Ha Hb. simpl in Ha, Hb. destruct Ha as [Ha|[Ha|[Ha|[]]]], Hb as [Hb|[Hb|[Hb|[]]]]; congruence.
  - eexists. split; [vm_compute; reflexivity|]. split; [vm_compute; reflexivity|]. split; [vm_compute; reflexivity|].
    intro Q. apply equiv_paths in Q. vm_compute in Q. discriminate.
  - eexists. split; [vm_compute; reflexivity|]. split; [vm_compute; reflexivity|].
    intro Q. apply equiv_paths in Q. vm_compute in Q. discriminate.
Qed.

(* ---- dict: a component without free parameters is written as an instance ---- *)
Definition w_zero_tuple : fsnode :=
  SNode KColl [("z", SNode (KModel "T2" ["c"; "pos"])
                       [("c", SConst 1%float);
                        ("pos", SNode (KTuple [0; 1]) [("pos_0", SConst 0.5%float); ("pos_1", SConst 0.25%float)] [])] []);
               ("h", g2 (SPrior 0 (uni (Some 0))) (SConst 2%float) [])] [].

Lemma zero_prior_tuple_refuted :
  exists n n', fdict n = Ok n' /\
    ival_eqb (inst_from_paths float fbin funop (ftree n') [(["h"; "a"], 0.5%float)])
             (inst_from_paths float fbin funop (ftree n) [(["h"; "a"], 0.5%float)]) = false.
Proof. exists w_zero_tuple. eexists. split; [vm_compute; reflexivity|vm_compute; reflexivity]. Qed.

Definition w_zero_extra : fsnode :=
  SNode KColl [("z", SNode (KModel "G2" ["a"; "b"]) [("a", SConst 1%float); ("b", SConst 2%float); ("extra", SConst 3%float)] []);
               ("h", g2 (SPrior 0 (uni (Some 0))) (SConst 2%float) [])] [].

Lemma zero_prior_extra_refuted :
  exists n, fdict n = Err ETypeError /\ pickle_rt float n = Ok n /\ fdb n = Ok n.
Proof. exists w_zero_extra. repeat split; vm_compute; reflexivity. Qed.

(* ---- dict: LogGaussianPrior; dict-valued constant with a falsy entry ---- *)
Lemma loggaussian_refuted : exists n, fdict n = Err ETypeError /\ dict_rt float ffalsy cfg_fixed n <> Err ETypeError.
Proof. exists (g2 (SPrior 0 (lgau (Some 0))) (SConst 1%float) []). split; vm_compute; [reflexivity|discriminate]. Qed.

Lemma falsy_refuted :
  exists n n', fdict n = Ok n' /\ snode_eqb (smap float (forget_f float) n') (smap float (forget_f float) n) = false.
Proof.
  exists (SNode (KModel "G2" ["a"; "b"]) [("a", SPrior 0 (uni (Some 0))); ("b", SConst 1%float);
                                          ("opts", SDict [("k", 0%float); ("j", 1.5%float)])] []).
  eexists. split; [vm_compute; reflexivity|vm_compute; reflexivity].
Qed.

(* ---- database: chained assertion (a < b) < c ---- *)
Definition w_chain : fsnode :=
  SNode (KModel "G3" ["x"; "y"; "z"])
        [("x", SPrior 0 (uni (Some 0))); ("y", SPrior 1 (uni (Some 1))); ("z", SPrior 2 (uni (Some 2)))]
        [AAnd (ALt (EPrior 0 (uni (Some 0))) (EPrior 1 (uni (Some 1)))) (ALt (EPrior 1 (uni (Some 1))) (EPrior 2 (uni (Some 2))))].

Lemma chained_refuted : fdb w_chain = Err EAttributeError /\ guard float ffalsy cfg_pinned FDict w_chain = true.
Proof. split; vm_compute; reflexivity. Qed.

(* ---------- non-vacuity: a shared prior, a tuple, a constant, a simple assertion ---------- *)
Definition ex : fsnode :=
  SNode KColl
        [("g", SNode (KModel "T2" ["c"; "pos"])
                 [("c", SPrior 4 (uni (Some 4)));
                  ("pos", SNode (KTuple [0; 1]) [("pos_0", SPrior 2 (gau (Some 2))); ("pos_1", SConst 7%float)] [])]
                 [ALt (EPrior 2 (gau (Some 2))) (EBin OMul (EPrior 4 (uni (Some 4))) (EConst 2%float))]);
         ("h", g2 (SPrior 4 (uni (Some 4))) (SConst 0.5%float) [])] [].

Example ex_consistent : consistent float ex.
Proof.
  intros p a b Ha Hb. simpl in Ha, Hb.
  destruct Ha as [Ha|[Ha|[Ha|[Ha|[Ha|[]]]]]], Hb as [Hb|[Hb|[Hb|[Hb|[Hb|[]]]]]]; congruence.
Qed.

Example ex_guards : guard float ffalsy cfg_pinned FDict ex = true /\ guard float ffalsy cfg_pinned FDb ex = true
                    /\ plain float ex = true.
Proof. repeat split; vm_compute; reflexivity. Qed.

Example ex_wf : wf float (ftree ex).
Proof.
  simpl. repeat split; try discriminate; repeat (constructor; [simpl; intuition discriminate|]); constructor.
Qed.

Example ex_guards_seq : guards float ffalsy cfg_fixed [FDict; FPickle; FDb; FDict] ex.
Proof. apply guards_fixed; [exact ex_consistent|vm_compute; reflexivity]. Qed.

(* the ids really change under dict (fresh ids in order of first occurrence: 4 -> 5, 2 -> 6) and the sequence runs *)
Example ex_dict : exists n', fdict ex = Ok n' /\ ordered_ids float (ftree ex) = [2; 4] /\ ordered_ids float (ftree n') = [5; 6]
                             /\ unique_prior_paths float (ftree ex) = [["g"; "pos"; "pos_0"]; ["h"; "a"]]
                             /\ unique_prior_paths float (ftree n') = [["h"; "a"]; ["g"; "pos"; "pos_0"]].
Proof. eexists. split; [vm_compute; reflexivity|]. repeat split; vm_compute; reflexivity. Qed.

Example ex_seq_pinned : exists n', frt_seq [FDict; FDb; FPickle; FDict] ex = Ok n'.
Proof. eexists. vm_compute. reflexivity. Qed.

Example ex_mono_hyp : mono_on (fun q => q + 3) (prior_ids float (ftree ex)).
Proof. intros a b _ _ H. apply Nat.add_lt_mono_r. exact H. Qed.

(* hypotheses of the theorems about models with arithmetic priors (C08_db_arith, C08_dict_arith) *)
Example arith_hyps :
  forall_nodes float (dict_node_ok2 float ffalsy cfg_pinned) w_arith = true /\
  all_occs float (occ_ok float cfg_pinned) w_arith = true /\
  forall_nodes float (db_chain_ok float cfg_pinned) w_arith = true /\ all_occs float (db_occ_ok float cfg_pinned) w_arith = true.
Proof. repeat split; vm_compute; reflexivity. Qed.

Example arith_wf : wf float (ftree w_arith).
Proof. simpl. repeat split; try discriminate; repeat (constructor; [simpl; intuition discriminate|]); constructor. Qed.

(* the message-id table of C08_db_pinned for the prior-passed example *)
Example passed_mu : forall p sp, In (p, sp) (occs float w_passed) -> ps_mid float sp = Some ((fun q => if Nat.eqb q 0 then 5 else q) p).
Proof. intros p sp H. simpl in H. destruct H as [H|[H|[]]]; inversion H; subst; reflexivity. Qed.

(* under the repaired code the former witnesses round-trip *)
Lemma former_witnesses_fixed :
  (exists n', db_rt float cfg_fixed w_new = Ok n' /\ prior_count float (tree float n') = 2) /\
  (exists n', db_rt float cfg_fixed w_passed = Ok n' /\ unique_prior_paths float (tree float n') = unique_prior_paths float (tree float w_passed)) /\
  (exists n', db_rt float cfg_fixed w_chain = Ok n' /\ snode_eqb n' w_chain = true) /\
  (exists n', rt_seq float ffalsy cfg_fixed [FPickle; FDb] (g2 (SPrior 0 (gau (Some 0))) (SConst 1%float) []) = Ok n').
Proof.
  repeat split; eexists; (split; [vm_compute; reflexivity|vm_compute; reflexivity]) || (vm_compute; reflexivity).
Qed.

(* hypotheses of C08_round_trip_arith / C08_iter_arith on the model with b = p + q *)
Example arith_guard2 : guard2 float ffalsy cfg_fixed FDict w_arith = true /\ guard2 float ffalsy cfg_fixed FDb w_arith = true.
Proof. split; vm_compute; reflexivity. Qed.

(* with the repair C08-dict-instance-exact (0b56c35, part of cfg_fixed) the two witnesses about components without free
   parameters satisfy the guard of C08_round_trip_partial / the hypothesis of C08_iter_next and round-trip *)
Lemma zero_prior_next :
  plain_cf float cfg_fixed w_zero_tuple = true /\ plain_cf float cfg_fixed w_zero_extra = true /\
  (exists n', dict_rt float ffalsy cfg_fixed w_zero_tuple = Ok n' /\
     ival_eqb (inst_from_paths float fbin funop (ftree n') [(["h"; "a"], 0.5%float)])
              (inst_from_paths float fbin funop (ftree w_zero_tuple) [(["h"; "a"], 0.5%float)]) = true) /\
  (exists n', dict_rt float ffalsy cfg_fixed w_zero_extra = Ok n' /\
     snode_eqb (smap float (forget_f float) (norm float n')) (smap float (forget_f float) (norm float w_zero_extra)) = true).
Proof.
  split; [vm_compute; reflexivity|]. split; [vm_compute; reflexivity|]. split.
  - eexists. split; [vm_compute; reflexivity|vm_compute; reflexivity].
  - eexists. split; [vm_compute; reflexivity|vm_compute; reflexivity].
Qed.

(* a component that IS rebuilt exactly by its class stays an instance under cfg_fixed *)
Example exact_stays_instance :
  as_instance float cfg_fixed (SNode (KModel "G2" ["a"; "b"]) [("a", SConst 1%float); ("b", SConst 2%float)] []) = true.
Proof. vm_compute. reflexivity. Qed.

(* ---------- the unary node: Model(G2, a = abs(p0 - p1), b = -p1) with p0 - p1 = SumPrior(p0, NegativePrior(p1)) and an
   assertion -p1 < p0 on the model.  All three forms succeed on the repaired code; the unary names ("self", "p1")
   survive, the binary names become left_ / right_ in the dict and database forms ---------- *)
Definition w_unary : fsnode :=
  g2 (SNode (KUn UAbs) [("self", SNode (KBin OAdd) [("p0", SPrior 0 (uni (Some 0)));
                                                      ("other", SNode (KUn UNeg) [("p1", SPrior 1 (uni (Some 1)))] [])] [])] [])
     (SNode (KUn UNeg) [("p1", SPrior 1 (uni (Some 1)))] [])
     [ALt (EUn UNeg (EPrior 1 (uni (Some 1)))) (EPrior 0 (uni (Some 0)))].

Example w_unary_tree :
  map fst (walk float (ftree w_unary)) = [["a"; "self"; "p0"]; ["a"; "self"; "other"; "p1"]; ["b"; "p1"]].
Proof. vm_compute. reflexivity. Qed.

Example w_unary_round_trips :
  (exists n', rt float ffalsy cfg_fixed FPickle w_unary = Ok n' /\ map fst (walk float (ftree n')) = map fst (walk float (ftree w_unary))) /\
  (exists n', rt float ffalsy cfg_fixed FDb w_unary = Ok n' /\
              map fst (walk float (ftree n')) = [["a"; "self"; "left_"]; ["a"; "self"; "right_"; "p1"]; ["b"; "p1"]]) /\
  (exists n', rt float ffalsy cfg_fixed FDict w_unary = Ok n' /\
              map fst (walk float (ftree n')) = [["a"; "self"; "left_"]; ["a"; "self"; "right_"; "p1"]; ["b"; "p1"]] /\
              prior_count float (ftree n') = 2).
Proof. repeat split; eexists; vm_compute; repeat split; reflexivity. Qed.

(* a model whose arithmetic is unary only is inside the guards of C08_round_trip_partial for every form *)
Definition w_unary_only : fsnode :=
  g2 (SNode (KUn UAbs) [("self", SNode (KUn UNeg) [("p0", SPrior 0 (uni (Some 0)))] [])] [])
     (SNode (KUn UNeg) [("p1", SPrior 1 (uni (Some 1)))] []) [ALt (EUn UNeg (EPrior 1 (uni (Some 1)))) (EPrior 0 (uni (Some 0)))].
Example w_unary_only_guards :
  guard float ffalsy cfg_fixed FDict w_unary_only = true /\ guard float ffalsy cfg_fixed FDb w_unary_only = true /\
  guard float ffalsy cfg_fixed FPickle w_unary_only = true.
Proof. vm_compute. repeat split; reflexivity. Qed.
Example w_unary_only_names_kept :
  exists n', rt float ffalsy cfg_fixed FDict w_unary_only = Ok n' /\
             map fst (walk float (ftree n')) = [["a"; "self"; "p0"]; ["b"; "p1"]].
Proof. eexists. vm_compute. split; reflexivity. Qed.
