(* C08 model: the three persistence round trips of a composed model.

   A stored model is a tree [snode] that refines the shared ModelTree [node] (C01) with what the
   storage code reads and writes: the specification of every prior occurrence (family, limits,
   parameters, and the id carried by its message object, [ps_mid]), the assertions of every
   Model / Collection level, plain instance objects, and dictionary-valued constants.
   [erase] maps it back to the ModelTree node, so that walk / paths / ordered_ids / inst of C01 apply.

   The three codecs are instances of ONE traversal [tnode] (children in __dict__ order, then the
   assertions of the level, threading a state):

   dict   ModelObject.dict / Prior.dict / CompoundPrior.dict / CompoundAssertion.dict composed with
          ModelObject.from_dict / Prior.from_dict (loaded_ids re-linking, fresh ids from the
          process-wide counter in order of first occurrence) / Compound.from_dict;
          "instance" branch for Models without free parameters, the "dict" branch's `if value`
          filter, attribute names of arithmetic priors recomputed by retrieve_name (left_/right_),
          LogGaussianPrior.dict lacking mean/sigma.
   pickle AbstractModel.__getstate__/__setstate__ (identity-preserving graph copy); NormalMessage.__reduce__
          drops the `id_` attribute that Prior.__init__ put on the message.
   db     database.model.Object.from_object dispatch / Object.__call__: Prior rows store
          __database_args__, where `id_` is read through Prior.__getattr__ from the MESSAGE (ps_mid);
          every row is rebuilt as its own object (identity = the stored id); Compound rows store the two
          operands only (names recomputed; CompoundAssertion has no .left -> AttributeError on write).

   Everything here is executable; the correspondence check runs [check_case] by vm_compute. *)
From Coq Require Import List String Bool Arith PeanoNat.
From Coq Require Import Floats.PrimFloat.
From PAFCommon Require Import PyFloat.
From PAFC01 Require Import ModelTree Model.
Import ListNotations.
Local Open Scope string_scope.
Local Open Scope list_scope.

Inductive family := FUniform | FLogUniform | FGaussian | FLogGaussian.
Inductive form := FDict | FPickle | FDb.
Inductive err := ETypeError | EAttributeError.
Definition is_loggaussian (f : family) : bool := match f with FLogGaussian => true | _ => false end.
Inductive outcome (A : Type) := Ok (a : A) | Err (e : err).
Arguments Ok {A}. Arguments Err {A}.

(* Which of the proposed repairs (proposed_fixes/C08-*.diff) the modelled code contains.  The pinned
   tree has none of them.  Every theorem is parametric in the configuration; the correspondence check
   is told the configuration of the tree it faces (probed by the harness on four fixed inputs, see
   c08_impl.probe) and disagrees on the generated cases if the probe is wrong. *)
Record cfg := mkcfg {
  fix_db_id : bool;          (* C08-db-prior-id: Prior rows store prior.id instead of prior.id_ (= message.id_) *)
  fix_loggaussian : bool;    (* C08-dict-loggaussian: LogGaussianPrior.dict writes mean and sigma *)
  fix_chain : bool;          (* C08-db-chained-assertion: Compound rows accept CompoundAssertion *)
  fix_falsy : bool;          (* C08-dict-falsy-constant: the "dict" branch of from_dict keeps falsy values *)
  fix_instance : bool        (* C08-dict-instance-exact (0b56c35): a Model without free parameters is written as type
                                "instance" only when cls(kw-arguments) rebuilds it exactly, otherwise as type "model" *)
}.
Definition cfg_pinned := mkcfg false false false false false.
Definition cfg_four := mkcfg true true true true false.       (* /repo after 111eb99, a2e2dae, a21f2bc, 04fca50 (history) *)
Definition cfg_fixed := mkcfg true true true true true.       (* /repo as it is: also 0b56c35 (C08-dict-instance-exact) *)
Definition cfg_next := cfg_fixed.

Definition bind {A B} (x : outcome A) (f : A -> outcome B) : outcome B :=
  match x with Ok a => f a | Err e => Err e end.

Section C08.
  Variable V : Type.
  Variable falsy : V -> bool.          (* Python truthiness of a float: `not value` *)
  Variable cf : cfg.

  Record pspec := mkspec {
    ps_fam : family; ps_lo : V; ps_hi : V;
    ps_par : list V;                    (* [mean; sigma] for the Gaussian families, [] otherwise *)
    ps_mid : option nat                 (* message.id_ (what `prior.id_` returns); None = attribute missing *)
  }.
  Definition with_mid (sp : pspec) (m : option nat) : pspec :=
    mkspec (ps_fam sp) (ps_lo sp) (ps_hi sp) (ps_par sp) m.

  (* operands of assertions: priors, constants, arithmetic (attribute names are not observable there) *)
  Inductive expr := EPrior (pid : nat) (sp : pspec) | EConst (v : V) | EBin (o : binop) (l r : expr)
                  | EUn (o : unop) (e : expr).          (* -x, abs(x) (x - y is written x + (-y)) *)
  Inductive assertion :=
  | ALt (l g : expr)              (* GreaterThanLessThanAssertion(lower, greater) *)
  | ALe (l g : expr)              (* GreaterThanLessThanEqualAssertion *)
  | AAnd (a b : assertion).       (* CompoundAssertion(assertion_1, assertion_2) *)

  Inductive kind :=
  | KModel (cls : string) (ctor : list string)   (* af.Model(cls): constructor argument names *)
  | KColl                                          (* af.Collection *)
  | KTuple (idx : list nat)                        (* TuplePrior: numeric position of every member *)
  | KBin (o : binop)                               (* CompoundPrior: the two children are keyed by its attribute names *)
  | KUn (o : unop)                                 (* ModifiedPrior (-x, abs(x)): ONE child, keyed by `_prior_name`, which all
                                                      three storage forms write and read back (dict "name", db child name) *)
  | KInst (cls : string) (ctor : list string).    (* a plain instance of cls (no Model around it) *)

  Inductive snode :=
  | SPrior (pid : nat) (sp : pspec)
  | SConst (v : V)
  | SDict (items : list (string * V))              (* a dict-valued constant *)
  | SNode (k : kind) (ch : list (string * snode)) (asr : list assertion).

  (* ---------- back to the shared ModelTree ---------- *)
  Fixpoint zip_members (ch : list (string * node V)) (idx : list nat) : list (string * (nat * node V)) :=
    match ch, idx with
    | (nm, c) :: ch', i :: idx' => (nm, (i, c)) :: zip_members ch' idx'
    | _, _ => []
    end.

  (* [in_inst]: inside a plain instance a TuplePrior object is NOT turned into a tuple by
     instance construction (nobody calls value_for_arguments on it): it stays an object with named members *)
  Fixpoint erase (in_inst : bool) (n : snode) : node V :=
    match n with
    | SPrior p _ => NPrior p
    | SConst v => NConst v
    | SDict items => NColl (map (fun kv => (fst kv, NConst (snd kv))) items)
    | SNode k ch _ =>
        let ech := fun (b : bool) =>
          (fix go (ch : list (string * snode)) : list (string * node V) :=
             match ch with [] => [] | (nm, c) :: r => (nm, erase b c) :: go r end) ch in
        match k with
        | KModel cls ctor => NModel cls ctor (ech false)
        | KColl => NColl (ech in_inst)
        | KInst cls ctor => NModel cls ctor (ech true)
        | KTuple idx => if in_inst then NColl (ech true) else NTuple (zip_members (ech false) idx)
        | KBin o => match ech false with
                    | [(ln, l); (rn, r)] => NBin o ln rn l r
                    | _ => NColl []
                    end
        | KUn o => match ech false with
                   | [(nm, c)] => NUn o nm c
                   | _ => NColl []
                   end
        end
    end.

  Definition tree (n : snode) : node V := erase false n.

  (* ---------- the one traversal ---------- *)
  Section Trav.
    Variable S : Type.
    Variable fprior : nat -> pspec -> S -> outcome ((nat * pspec) * S).   (* a prior occurrence *)
    Variable fdict : list (string * V) -> list (string * V).               (* a dict constant *)
    Variable pre : snode -> option err.                                      (* raised at this node *)
    Variable skip_asr : snode -> bool.                                       (* assertions of this node are not stored *)
    Variable post : snode -> list (string * snode) -> list assertion -> snode.   (* rebuild from new children/assertions *)

    Fixpoint texpr (e : expr) (st : S) : outcome (expr * S) :=
      match e with
      | EPrior p sp => bind (fprior p sp st) (fun r => Ok (EPrior (fst (fst r)) (snd (fst r)), snd r))
      | EConst v => Ok (e, st)
      | EBin o l r =>
          bind (texpr l st) (fun a => bind (texpr r (snd a)) (fun b => Ok (EBin o (fst a) (fst b), snd b)))
      | EUn o x => bind (texpr x st) (fun a => Ok (EUn o (fst a), snd a))
      end.

    Fixpoint tassert (a : assertion) (st : S) : outcome (assertion * S) :=
      match a with
      | ALt l g => bind (texpr l st) (fun x => bind (texpr g (snd x)) (fun y => Ok (ALt (fst x) (fst y), snd y)))
      | ALe l g => bind (texpr l st) (fun x => bind (texpr g (snd x)) (fun y => Ok (ALe (fst x) (fst y), snd y)))
      | AAnd a1 a2 => bind (tassert a1 st) (fun x => bind (tassert a2 (snd x)) (fun y => Ok (AAnd (fst x) (fst y), snd y)))
      end.

    Fixpoint tasserts (l : list assertion) (st : S) : outcome (list assertion * S) :=
      match l with
      | [] => Ok ([], st)
      | a :: r => bind (tassert a st) (fun x => bind (tasserts r (snd x)) (fun y => Ok (fst x :: fst y, snd y)))
      end.

    Fixpoint tnode (n : snode) (st : S) : outcome (snode * S) :=
      match n with
      | SPrior p sp => bind (fprior p sp st) (fun r => Ok (SPrior (fst (fst r)) (snd (fst r)), snd r))
      | SConst v => Ok (n, st)
      | SDict items => Ok (SDict (fdict items), st)
      | SNode k ch asr =>
          match pre n with
          | Some e => Err e
          | None =>
              bind ((fix go (ch : list (string * snode)) (st : S) : outcome (list (string * snode) * S) :=
                       match ch with
                       | [] => Ok ([], st)
                       | (nm, c) :: r =>
                           bind (tnode c st) (fun x => bind (go r (snd x)) (fun y => Ok ((nm, fst x) :: fst y, snd y)))
                       end) ch st)
                   (fun x =>
                      if skip_asr n then Ok (post n (fst x) [], snd x)
                      else bind (tasserts asr (snd x)) (fun y => Ok (post n (fst x) (fst y), snd y)))
          end
      end.
  End Trav.

  Definition rebuild_same (n : snode) (ch : list (string * snode)) (asr : list assertion) : snode :=
    match n with SNode k _ _ => SNode k ch asr | _ => n end.

  Definition is_bin (n : snode) : bool := match n with SNode (KBin _) _ _ => true | _ => false end.

  (* CompoundPrior.__init__ names its operand attributes by retrieve_name: after a reload no caller
     frame holds the operands, so the names are the defaults left_/right_ ... *)
  Definition rebuild_bin_default (n : snode) (ch : list (string * snode)) (asr : list assertion) : snode :=
    match n, ch with
    | SNode (KBin o) _ _, [(_, l); (_, r)] => SNode (KBin o) [("left_", l); ("right_", r)] asr
    | _, _ => rebuild_same n ch asr
    end.

  (* ---------- pickle ---------- *)
  Definition pickle_prior (p : nat) (sp : pspec) (st : unit) : outcome ((nat * pspec) * unit) :=
    Ok ((p, match ps_fam sp with FGaussian => with_mid sp None | _ => sp end), st).

  Definition pickle_rt (n : snode) : outcome snode :=
    bind (tnode unit pickle_prior (fun d => d) (fun _ => None) (fun _ => false) rebuild_same n tt)
         (fun r => Ok (fst r)).

  (* ---------- database ---------- *)
  Definition db_prior (p : nat) (sp : pspec) (st : unit) : outcome ((nat * pspec) * unit) :=
    if fix_db_id cf then Ok ((p, with_mid sp (Some p)), st)
    else match ps_mid sp with
         | Some m => Ok ((m, with_mid sp (Some m)), st)     (* cls(kw-arguments) with id_ = the stored message id *)
         | None => Err EAttributeError                        (* getattr(model, "id_") on a message without id_ *)
         end.

  Definition is_and (a : assertion) : bool := match a with AAnd _ _ => true | _ => false end.

  Definition db_pre (n : snode) : option err :=
    match n with
    | SNode _ _ asr =>
        if negb (fix_chain cf) && existsb is_and asr then Some EAttributeError else None   (* compound.left on a CompoundAssertion *)
    | _ => None
    end.

  Definition db_rt (n : snode) : outcome snode :=
    bind (tnode unit db_prior (fun d => d) db_pre (fun _ => false) rebuild_bin_default n tt)
         (fun r => Ok (fst r)).

  (* ---------- dictionary / JSON ---------- *)
  Record dstate := mkd { d_loaded : list (nat * (nat * pspec)); d_next : nat }.

  Fixpoint alookup {B} (k : nat) (l : list (nat * B)) : option B :=
    match l with
    | [] => None
    | (k', v) :: l' => if Nat.eqb k k' then Some v else alookup k l'
    end.

  (* Prior.from_dict: loaded_ids[id] if present; otherwise a new prior of the recorded type with the
     recorded arguments (a fresh id), remembered under the recorded id *)
  Definition dict_prior (p : nat) (sp : pspec) (st : dstate) : outcome ((nat * pspec) * dstate) :=
    match alookup p (d_loaded st) with
    | Some r => Ok (r, st)
    | None =>
        if is_loggaussian (ps_fam sp) && negb (fix_loggaussian cf)
        then Err ETypeError                            (* dict() has no mean/sigma: __init__ missing arguments *)
        else let q := d_next st in
             let sp' := with_mid sp (Some q) in
             Ok ((q, sp'), mkd (d_loaded st ++ [(p, (q, sp'))]) (S q))
    end.

  Definition dict_filter (items : list (string * V)) : list (string * V) :=
    if fix_falsy cf then items else filter (fun kv => negb (falsy (snd kv))) items.

  Definition no_priors (n : snode) : bool := match walk V (tree n) with [] => true | _ => false end.

  Definition has_extras (ctor : list string) (ch : list (string * snode)) : bool :=
    existsb (fun kv => negb (existsb (String.eqb (fst kv)) ctor)) ch.

  (* can cls(kw-arguments) rebuild this parameter-free component exactly: every attribute a constructor
     argument, no tuple prior, every component it holds likewise *)
  Fixpoint inst_exact (n : snode) : bool :=
    match n with
    | SConst _ | SDict _ => true
    | SPrior _ _ => false
    | SNode (KModel _ ctor) ch _ =>
        negb (has_extras ctor ch) &&
        (fix go (ch : list (string * snode)) : bool :=
           match ch with [] => true | (_, c) :: r => inst_exact c && go r end) ch
    | SNode (KInst _ _) _ _ => true
    | SNode _ _ _ => false
    end.

  (* dict(): an AbstractPriorModel that is not a Collection and has prior_count = 0 is written as
     type "instance" (with the proposed repair: only when that is exact); from_dict then CALLS cls(kw-arguments) *)
  Definition as_instance (n : snode) : bool :=
    match n with
    | SNode (KModel _ _) _ _ => no_priors n && (negb (fix_instance cf) || inst_exact n)
    | _ => false
    end.

  Definition dict_pre (n : snode) : option err :=
    match n with
    | SNode (KModel _ ctor) ch _ =>
        if as_instance n && has_extras ctor ch then Some ETypeError else None     (* unexpected keyword argument *)
    | _ => None
    end.

  Definition dict_post (n : snode) (ch : list (string * snode)) (asr : list assertion) : snode :=
    match n with
    | SNode (KModel cls ctor) _ _ => if as_instance n then SNode (KInst cls ctor) ch [] else SNode (KModel cls ctor) ch asr
    | SNode (KBin o) _ _ =>
        (* CompoundPrior.__init__ (d91c8d6): an operand is kept under the caller's variable name unless that name
           starts with "_" or is an attribute / property / method of the compound object; on reload the only
           variables holding the operands are the parameters `left` / `right` of __init__, both properties of the
           class: the defaults left_ / right_ are used -- also when both operands are ONE re-linked prior object *)
        match ch with
        | [(_, l); (_, r)] => SNode (KBin o) [("left_", l); ("right_", r)] asr
        | _ => SNode (KBin o) ch asr
        end
    | _ => rebuild_same n ch asr
    end.

  Definition sp_nums (p : nat) (sp : pspec) : list nat :=
    p :: match ps_mid sp with Some m => [m] | None => [] end.
  Fixpoint expr_nums (e : expr) : list nat :=
    match e with EPrior p sp => sp_nums p sp | EConst _ => [] | EBin _ l r => expr_nums l ++ expr_nums r
               | EUn _ x => expr_nums x end.
  Fixpoint assert_nums (a : assertion) : list nat :=
    match a with ALt l g | ALe l g => expr_nums l ++ expr_nums g | AAnd a b => assert_nums a ++ assert_nums b end.
  Fixpoint nums (n : snode) : list nat :=
    match n with
    | SPrior p sp => sp_nums p sp
    | SConst _ | SDict _ => []
    | SNode _ ch asr =>
        (fix go (ch : list (string * snode)) : list nat :=
           match ch with [] => [] | (_, c) :: r => nums c ++ go r end) ch ++ flat_map assert_nums asr
    end.

  (* the id counter is process-wide and monotone: a fresh id exceeds every id and message id in the model *)
  Definition fresh_base (n : snode) : nat := S (fold_right Nat.max 0 (nums n)).

  Definition dict_rt_from (base : nat) (n : snode) : outcome (snode * dstate) :=
    tnode dstate dict_prior dict_filter dict_pre as_instance dict_post n (mkd [] base).

  Definition dict_rt (n : snode) : outcome snode :=
    bind (dict_rt_from (fresh_base n) n) (fun r => Ok (fst r)).

  Definition rt (f : form) (n : snode) : outcome snode :=
    match f with FDict => dict_rt n | FPickle => pickle_rt n | FDb => db_rt n end.

  (* n-fold / mixed sequences of round trips *)
  Fixpoint rt_seq (fs : list form) (n : snode) : outcome snode :=
    match fs with
    | [] => Ok n
    | f :: fs' => bind (rt f n) (rt_seq fs')
    end.

  (* ---------- order-isomorphic renumbering (ids are compared up to a strictly monotone renaming) ---------- *)
  Definition rename_prior (g : nat -> nat) (p : nat) (sp : pspec) (st : unit) : outcome ((nat * pspec) * unit) :=
    Ok ((g p, with_mid sp (option_map g (ps_mid sp))), st).

  Definition rename_all (g : nat -> nat) (n : snode) : snode :=
    match tnode unit (rename_prior g) (fun d => d) (fun _ => None) (fun _ => false) rebuild_same n tt with
    | Ok r => fst r
    | Err _ => n
    end.

  Fixpoint dedup (l : list nat) : list nat :=
    match l with
    | [] => []
    | x :: r => if existsb (Nat.eqb x) r then dedup r else x :: dedup r
    end.

  Definition rank (l : list nat) (x : nat) : nat := List.length (filter (fun y => Nat.ltb y x) (dedup l)).

  Definition norm (n : snode) : snode := rename_all (rank (nums n)) n.

  (* renumbering by first occurrence: compares two models up to ANY injective renaming (dict form, whose
     fresh ids are not required to keep any order) *)
  Fixpoint nodup_first (seen l : list nat) : list nat :=
    match l with
    | [] => []
    | x :: r => if existsb (Nat.eqb x) seen then nodup_first seen r else x :: nodup_first (x :: seen) r
    end.
  Fixpoint index_of (x : nat) (l : list nat) : nat :=
    match l with [] => 0 | y :: r => if Nat.eqb x y then 0 else S (index_of x r) end.
  Definition canon (n : snode) : snode := rename_all (fun x => index_of x (nodup_first [] (nums n))) n.
End C08.

Arguments mkspec {V}. Arguments EPrior {V}. Arguments EConst {V}. Arguments EBin {V}. Arguments EUn {V}.
Arguments ALt {V}. Arguments ALe {V}. Arguments AAnd {V}.
Arguments SPrior {V}. Arguments SConst {V}. Arguments SDict {V}. Arguments SNode {V}.

(* ---------- executable instance over binary64 and the correspondence cases ---------- *)
Definition ffalsy (x : float) : bool := PrimFloat.eqb x 0%float.    (* 0.0 and -0.0 are falsy, nan is truthy *)

Definition fsnode := snode float.

Definition family_eqb (a b : family) : bool :=
  match a, b with
  | FUniform, FUniform | FLogUniform, FLogUniform | FGaussian, FGaussian | FLogGaussian, FLogGaussian => true
  | _, _ => false
  end.
Definition err_eqb (a b : err) : bool :=
  match a, b with ETypeError, ETypeError | EAttributeError, EAttributeError => true | _, _ => false end.
Definition binop_eqb (a b : binop) : bool :=
  match a, b with OAdd, OAdd | OSub, OSub | OMul, OMul | ODiv, ODiv | OFloorDiv, OFloorDiv | OMod, OMod => true | _, _ => false end.
Definition unop_eqb (a b : unop) : bool :=
  match a, b with UNeg, UNeg | UAbs, UAbs => true | _, _ => false end.
Definition onat_eqb (a b : option nat) : bool :=
  match a, b with Some x, Some y => Nat.eqb x y | None, None => true | _, _ => false end.

Definition spec_eqb (a b : pspec float) : bool :=
  family_eqb (ps_fam float a) (ps_fam float b) && fbits_eqb (ps_lo float a) (ps_lo float b)
  && fbits_eqb (ps_hi float a) (ps_hi float b) && flist_eqb (ps_par float a) (ps_par float b)
  && onat_eqb (ps_mid float a) (ps_mid float b).

Fixpoint expr_eqb (a b : expr float) : bool :=
  match a, b with
  | EPrior p s, EPrior q t => Nat.eqb p q && spec_eqb s t
  | EConst x, EConst y => fbits_eqb x y
  | EBin o l r, EBin o' l' r' => binop_eqb o o' && expr_eqb l l' && expr_eqb r r'
  | EUn o x, EUn o' x' => unop_eqb o o' && expr_eqb x x'
  | _, _ => false
  end.

Fixpoint assert_eqb (a b : assertion float) : bool :=
  match a, b with
  | ALt l g, ALt l' g' | ALe l g, ALe l' g' => expr_eqb l l' && expr_eqb g g'
  | AAnd x y, AAnd x' y' => assert_eqb x x' && assert_eqb y y'
  | _, _ => false
  end.

Definition kind_eqb (a b : kind) : bool :=
  match a, b with
  | KModel c l, KModel c' l' | KInst c l, KInst c' l' => String.eqb c c' && list_eqb String.eqb l l'
  | KColl, KColl => true
  | KTuple i, KTuple j => list_eqb Nat.eqb i j
  | KBin o, KBin o' => binop_eqb o o'
  | KUn o, KUn o' => unop_eqb o o'
  | _, _ => false
  end.

Fixpoint snode_eqb (a b : fsnode) : bool :=
  match a, b with
  | SPrior p s, SPrior q t => Nat.eqb p q && spec_eqb s t
  | SConst x, SConst y => fbits_eqb x y
  | SDict i, SDict j => list_eqb (fun x y => String.eqb (fst x) (fst y) && fbits_eqb (snd x) (snd y)) i j
  | SNode k ch asr, SNode k' ch' asr' =>
      kind_eqb k k' && list_eqb assert_eqb asr asr' &&
      (fix go (x y : list (string * fsnode)) : bool :=
         match x, y with
         | [], [] => true
         | (n1, c1) :: x', (n2, c2) :: y' => String.eqb n1 n2 && snode_eqb c1 c2 && go x' y'
         | _, _ => false
         end) ch ch'
  | _, _ => false
  end.

(* what the library says about one (re)loaded live model *)
Record obs := {
  o_state : fsnode;                 (* raw __dict__ abstraction of the live object, ids renumbered by rank *)
  o_paths : list path;              (* model.paths *)
  o_count : nat;                    (* model.prior_count *)
  o_ids : list nat;                 (* priors_ordered_by_id, renumbered the same way *)
  o_pv : list (path * float);       (* the path arguments handed to instance_from_path_arguments *)
  o_inst : option fival             (* its result with assertions ignored (None: construction raised, e.g. division by zero) *)
}.

Inductive step := StepOk (f : form) (o : obs) | StepErr (f : form) (e : err).
Record case := { c_cfg : cfg; c_init : obs; c_steps : list step }.

Definition view_ok (o : obs) : bool :=
  let n := tree float (o_state o) in
  list_eqb path_eqb (paths float n) (o_paths o)
  && Nat.eqb (prior_count float n) (o_count o)
  && list_eqb Nat.eqb (ordered_ids float n) (o_ids o)
  && match o_inst o with Some i => ival_eqb (inst_from_paths float fbin funop n (o_pv o)) i | None => true end.

Definition frt := rt float ffalsy.

(* every step is checked against the model started from the PREVIOUS OBSERVED state *)
Fixpoint check_steps (cf : cfg) (prev : fsnode) (l : list step) : bool :=
  match l with
  | [] => true
  | StepOk f o :: l' =>
      match frt cf f prev with
      | Ok s => (match f with
                 | FDict => snode_eqb (canon float s) (canon float (o_state o))
                 | _ => snode_eqb (norm float s) (o_state o)
                 end) && view_ok o && check_steps cf (o_state o) l'
      | Err _ => false
      end
  | StepErr f e :: l' =>
      match frt cf f prev with
      | Err e' => err_eqb e e' && match l' with [] => true | _ => false end
      | Ok _ => false
      end
  end.

Definition check_case (c : case) : bool :=
  snode_eqb (norm float (o_state (c_init c))) (o_state (c_init c))
  && view_ok (c_init c) && check_steps (c_cfg c) (o_state (c_init c)) (c_steps c).
