(* C08 -- write/read HISTORIES on one store: "every read returns the model LAST written".

   The store of the library is a set of slots (a db.Fit object each; a JSON / pickle file each).  A slot holds
   the image ATTACHED to the live object (Fit.__model, the row object made by Object.from_object in the setter)
   and the image STORED in the database (what a new session loads).  For files both coincide.
   The codec is abstract here ([enc] = the setter / the writer, may raise; [dec] = the getter / the reader); the
   correspondence instantiates one read with one trip of the codec model of Model.v ([frt]) started from the
   state written directly before.  Nothing in this file depends on the shape of models, so it holds for every
   storage form and every configuration of the code.

   Histories are lists with the MOST RECENT operation first. *)
From Coq Require Import List Bool Arith.
Import ListNotations.

Section Store.
  Variables M R : Type.
  Variable enc : M -> option R.      (* None: the write raises and leaves the slot as it was *)
  Variable dec : R -> M.

  Record slot := mkslot { attached : option R; stored : option R; in_session : bool }.
  Definition store := nat -> slot.
  Definition init : store := fun _ => mkslot None None false.

  Inductive op :=
  | Write (k : nat) (m : M)          (* fit.model = m / the file of slot k is rewritten *)
  | WriteBack (k : nat)              (* fit.model = fit.model *)
  | Add (k : nat)                    (* session.add(fit) *)
  | Flush                            (* session.flush() / session.commit() *)
  | Reload.                          (* commit, then expire_all() or close + new session + query: objects of the session are rebuilt from the rows *)

  Definition upd (s : store) (k : nat) (v : slot) : store := fun j => if Nat.eqb j k then v else s j.
  Definition set_attached (x : slot) (r : R) : slot := mkslot (Some r) (stored x) (in_session x).
  Definition flush_slot (x : slot) : slot := if in_session x then mkslot (attached x) (attached x) true else x.
  Definition reload_slot (x : slot) : slot :=
    let y := flush_slot x in if in_session y then mkslot (stored y) (stored y) true else y.

  Definition step (s : store) (o : op) : store :=
    match o with
    | Write k m => match enc m with Some r => upd s k (set_attached (s k) r) | None => s end
    | WriteBack k => match attached (s k) with
                     | Some r => match enc (dec r) with Some r' => upd s k (set_attached (s k) r') | None => s end
                     | None => s
                     end
    | Add k => upd s k (mkslot (attached (s k)) (stored (s k)) true)
    | Flush => fun j => flush_slot (s j)
    | Reload => fun j => reload_slot (s j)
    end.

  Fixpoint run (h : list op) : store := match h with [] => init | o :: h' => step (run h') o end.

  Definition read (s : store) (k : nat) : option M := option_map dec (attached (s k)).

  (* ---- declaratively: the image a history leaves in slot k (only writes to k matter, the last one wins) ---- *)
  Fixpoint image (h : list op) (k : nat) : option R :=
    match h with
    | [] => None
    | Write j m :: h' => if Nat.eqb k j then match enc m with Some r => Some r | None => image h' k end else image h' k
    | WriteBack j :: h' =>
        if Nat.eqb k j then match image h' k with
                            | Some r => match enc (dec r) with Some r' => Some r' | None => Some r end
                            | None => None
                            end
        else image h' k
    | _ :: h' => image h' k
    end.

  (* the model written last by an EXPLICIT, successful write *)
  Fixpoint last_write (h : list op) (k : nat) : option M :=
    match h with
    | [] => None
    | Write j m :: h' => if Nat.eqb k j then match enc m with Some _ => Some m | None => last_write h' k end else last_write h' k
    | _ :: h' => last_write h' k
    end.

  Lemma flush_attached : forall x, attached (flush_slot x) = attached x.
  Proof. intros [a s b]; unfold flush_slot; simpl; destruct b; reflexivity. Qed.

  Lemma reload_attached : forall x, attached (reload_slot x) = attached x.
  Proof. intros [a s b]; unfold reload_slot, flush_slot; simpl; destruct b; reflexivity. Qed.

  Lemma attached_image : forall h k, attached (run h k) = image h k.
  Proof.
    induction h as [|o h IH]; intro k; simpl.
    - reflexivity.
    - destruct o as [j m | j | j | | ]; simpl.
      + destruct (enc m) as [r|] eqn:E.
        * unfold upd. destruct (Nat.eqb k j) eqn:Ekj; [reflexivity | apply IH].
        * destruct (Nat.eqb k j); apply IH.
      + destruct (Nat.eqb k j) eqn:Ekj.
        * apply Nat.eqb_eq in Ekj; subst j. rewrite <- IH.
          destruct (attached (run h k)) as [r|] eqn:Ea; [| exact Ea].
          destruct (enc (dec r)) as [r'|] eqn:E.
          -- unfold upd. rewrite Nat.eqb_refl. reflexivity.
          -- exact Ea.
        * destruct (attached (run h j)) as [r|]; [| apply IH].
          destruct (enc (dec r)) as [r'|]; [| apply IH].
          unfold upd. rewrite Ekj. apply IH.
      + unfold upd. destruct (Nat.eqb k j) eqn:Ekj; [| apply IH].
        apply Nat.eqb_eq in Ekj; subst j. simpl. apply IH.
      + rewrite flush_attached. apply IH.
      + rewrite reload_attached. apply IH.
  Qed.

  (* LAST WRITE WINS, for any history: a read returns the decoded image of the last write to that slot *)
  Theorem last_write_wins : forall h k, read (run h) k = option_map dec (image h k).
  Proof. intros h k. unfold read. rewrite attached_image. reflexivity. Qed.

  (* a new session sees the same: after a reload the stored image of a slot of the session is that image too *)
  Theorem reload_stored : forall h k, in_session (run h k) = true ->
    stored (run (Reload :: h) k) = image h k /\ read (run (Reload :: h)) k = option_map dec (image h k).
  Proof.
    intros h k Hs. split.
    - simpl. unfold reload_slot, flush_slot. rewrite Hs. simpl. apply attached_image.
    - rewrite last_write_wins. reflexivity.
  Qed.

  (* operations on other slots, and add / flush / reload, never change what a slot returns *)
  Theorem other_slots : forall h o k,
    match o with Write j _ | WriteBack j => j <> k | _ => True end ->
    read (run (o :: h)) k = read (run h) k.
  Proof.
    intros h o k H. rewrite !last_write_wins. f_equal.
    destruct o as [j m | j | j | | ]; simpl; try reflexivity.
    - destruct (Nat.eqb k j) eqn:E; [apply Nat.eqb_eq in E; congruence | reflexivity].
    - destruct (Nat.eqb k j) eqn:E; [apply Nat.eqb_eq in E; congruence | reflexivity].
  Qed.

  (* ---- under ANY equivalence that one trip respects, every read is equivalent to the model last written
          explicitly, however many write-backs, flushes and reloads lie in between ---- *)
  Variable E : M -> M -> Prop.
  Hypothesis E_trans : forall a b c, E a b -> E b c -> E a c.
  Hypothesis trip_E : forall m r, enc m = Some r -> E m (dec r).

  Lemma image_equiv : forall h k m, last_write h k = Some m -> exists r, image h k = Some r /\ E m (dec r).
  Proof.
    induction h as [|o h IH]; intros k m H; simpl in *.
    - discriminate.
    - destruct o as [j m0 | j | j | | ]; try (apply IH; exact H).
      + destruct (Nat.eqb k j); [| apply IH; exact H].
        destruct (enc m0) as [r|] eqn:En; [| apply IH; exact H].
        inversion H; subst m0. exists r. split; [reflexivity | apply trip_E; exact En].
      + destruct (Nat.eqb k j); [| apply IH; exact H].
        destruct (IH k m H) as [r [Hr Hm]]. rewrite Hr.
        destruct (enc (dec r)) as [r'|] eqn:En.
        * exists r'. split; [reflexivity |]. eapply E_trans; [exact Hm | apply trip_E; exact En].
        * exists r. split; [reflexivity | exact Hm].
  Qed.

  Theorem history_equiv : forall h k m, last_write h k = Some m ->
    exists m', read (run h) k = Some m' /\ E m m'.
  Proof.
    intros h k m H. destruct (image_equiv h k m H) as [r [Hr Hm]].
    exists (dec r). split; [| exact Hm]. rewrite last_write_wins, Hr. reflexivity.
  Qed.
End Store.
