(* C08 property theorems: statements only (filled below). *)
From Coq Require Import List String Bool.
From PAFC01 Require Import ModelTree.
From PAFC08 Require Import Model.
Import ListNotations.
