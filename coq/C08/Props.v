(* C08 property theorems: statements only, each closed by `exact`.
   [rt V falsy cf f n] is one round trip of the stored model n through form f (dict / pickle / database)
   for the code described by cf (cfg_pinned = the tree as it was pinned, cfg_fixed = /repo as it is, with the five applied C08 repairs);
   [tree n] is the C01 ModelTree of n; [equiv n n'] : n' is n with parameter identities renamed injectively
   and NOTHING else changed (shape, classes, attribute names, constants, dict constants, family / limits /
   parameters of the prior at every place, assertions). *)
From Coq Require Import List String Bool Permutation.
From Coq Require Import Floats.PrimFloat.
From PAFC01 Require Import ModelTree Model Proofs2 Proofs3.
From PAFC08 Require Import Model Lib Proofs1 Proofs2 Proofs3 Proofs4 Proofs5 Proofs6 Proofs7 Proofs8 Proofs9 Witness.
Import ListNotations.

(* ---- one round trip (any of the three forms) succeeds and yields an equivalent model; PARTIAL: under
   [guard], which excludes exactly the finding classes of the pinned code (for cf = cfg_fixed it reduces to
   [plain]: no arithmetic prior, no component without free parameters) ---- *)
Theorem C08_round_trip_partial : forall (V : Type) (falsy : V -> bool) (cf : cfg) (f : form) (n : snode V),
  guard V falsy cf f n = true -> consistent V n ->
  exists n', rt V falsy cf f n = Ok n' /\ equiv V n n'.
Proof. exact rt_equiv. Qed.

(* ---- the dict/JSON decoder (loaded_ids re-linking, fresh ids): refinement to an injective renaming;
   afterwards every prior's message carries the prior's own id ---- *)
Theorem C08_dict_partial : forall (V : Type) (falsy : V -> bool) (cf : cfg) (n : snode V),
  forall_nodes V (dict_node_ok V falsy cf) n = true -> all_occs V (occ_ok V cf) n = true -> consistent V n ->
  exists n' s, dict_rt V falsy cf n = Ok n' /\ inj_on s (node_ids V n) /\
               smap V (forget_f V) n' = smap V (ren_f V s) n /\
               (forall q sq, In (q, sq) (occs V n') -> ps_mid V sq = Some q).
Proof. exact dict_total. Qed.

(* ---- pickle and database forms keep the identities themselves: the ModelTree (hence paths, order,
   ordered_ids, instances from vectors) is unchanged ---- *)
Theorem C08_pickle_db_partial : forall (V : Type) (falsy : V -> bool) (cf : cfg) (f : form) (n : snode V),
  f <> FDict -> guard V falsy cf f n = true ->
  exists n', rt V falsy cf f n = Ok n' /\ tree V n' = tree V n /\ smap V (forget_f V) n' = smap V (forget_f V) n.
Proof. exact rt_identity_tree. Qed.

(* ---- repeated and mixed round trips ---- *)
Theorem C08_iter_partial : forall (V : Type) (falsy : V -> bool) (cf : cfg) (fs : list form) (n : snode V),
  consistent V n -> guards V falsy cf fs n ->
  exists n', rt_seq V falsy cf fs n = Ok n' /\ equiv V n n'.
Proof. exact rt_seq_equiv. Qed.

(* the repaired code: every sequence of round trips of a plain model *)
Theorem C08_iter_fixed : forall (V : Type) (falsy : V -> bool) (fs : list form) (n : snode V),
  consistent V n -> plain V n = true ->
  exists n', rt_seq V falsy cfg_fixed fs n = Ok n' /\ equiv V n n'.
Proof. exact fixed_sequences. Qed.

(* any configuration containing the first four repairs; for cfg_fixed (0b56c35 included) [plain_cf]
   admits components without free parameters that carry tuple or extra attributes (they are then written as "model") *)
Theorem C08_iter_next : forall (V : Type) (falsy : V -> bool) (cf : cfg),
  fix_db_id cf = true -> fix_loggaussian cf = true -> fix_chain cf = true -> fix_falsy cf = true ->
  forall (fs : list form) (n : snode V), consistent V n -> plain_cf V cf n = true ->
  exists n', rt_seq V falsy cf fs n = Ok n' /\ equiv V n n'.
Proof. exact full_sequences. Qed.

Theorem C08_zero_prior_fixed :
  plain_cf float cfg_fixed w_zero_tuple = true /\ plain_cf float cfg_fixed w_zero_extra = true /\
  (exists n', dict_rt float ffalsy cfg_fixed w_zero_tuple = Ok n' /\
     ival_eqb (inst_from_paths float fbin funop (tree float n') [(["h"; "a"]%string, 0.5%float)])
              (inst_from_paths float fbin funop (tree float w_zero_tuple) [(["h"; "a"]%string, 0.5%float)]) = true) /\
  (exists n', dict_rt float ffalsy cfg_fixed w_zero_extra = Ok n' /\
     snode_eqb (smap float (forget_f float) (norm float n')) (smap float (forget_f float) (norm float w_zero_extra)) = true).
Proof. exact zero_prior_next. Qed.

(* ---- what equivalence means, in the terms of C01 ---- *)
(* same parameter paths (in walk order; as advertised by model.paths up to order) *)
Theorem C08_paths : forall (V : Type) (n n' : snode V), equiv V n n' ->
  map fst (walk V (tree V n')) = map fst (walk V (tree V n)) /\ Permutation (paths V (tree V n')) (paths V (tree V n)).
Proof. exact (fun V n n' Q => conj (equiv_paths V n n' Q) (equiv_paths_sorted V n n' Q)). Qed.

(* reading back never merges distinct parameters nor splits a shared one; same number of free parameters *)
Theorem C08_sharing : forall (V : Type) (n n' : snode V) (i j : nat) (d : path * nat), equiv V n n' ->
  i < List.length (walk V (tree V n)) -> j < List.length (walk V (tree V n)) ->
  (snd (nth i (walk V (tree V n')) d) = snd (nth j (walk V (tree V n')) d)
   <-> snd (nth i (walk V (tree V n)) d) = snd (nth j (walk V (tree V n)) d)).
Proof. exact equiv_partition. Qed.

Theorem C08_count : forall (V : Type) (n n' : snode V), equiv V n n' -> prior_count V (tree V n') = prior_count V (tree V n).
Proof. exact equiv_count. Qed.

(* supplying the same value for each path yields equal instances (fixed values, derived values, tuples included) *)
Theorem C08_instance : forall (V : Type) (bin : binop -> V -> V -> V) (un : unop -> V -> V) (n n' : snode V) (pv : list (path * V)),
  equiv V n n' -> wf V (tree V n) ->
  inst_from_paths V bin un (tree V n') pv = inst_from_paths V bin un (tree V n) pv.
Proof. exact equiv_instance. Qed.

(* the ModelTree of an equivalent model is the original one renamed injectively *)
Theorem C08_equiv_tree : forall (V : Type) (n n' : snode V), equiv V n n' ->
  exists s, inj_on s (prior_ids V (tree V n)) /\ tree V n' = ren V s (tree V n).
Proof. exact equiv_tree. Qed.

(* a renaming that keeps the order of the model's ids keeps the parameter order *)
Theorem C08_order : forall (V : Type) (s : nat -> nat) (n : node V),
  mono_on s (prior_ids V n) -> ordered_ids V (ren V s n) = map s (ordered_ids V n).
Proof. exact ordered_ids_ren. Qed.

(* the same facts for ANY renaming s of a ModelTree that is injective on the model's own parameters
   (used with C08_db_pinned: the pinned database form merges nothing iff the message ids are distinct) *)
Theorem C08_ren_sharing : forall (V : Type) (s : nat -> nat) (n : node V) (i j : nat) (d : path * nat),
  inj_on s (prior_ids V n) -> i < List.length (walk V n) -> j < List.length (walk V n) ->
  (snd (nth i (walk V (ren V s n)) (second s d)) = snd (nth j (walk V (ren V s n)) (second s d))
   <-> snd (nth i (walk V n) d) = snd (nth j (walk V n) d)).
Proof. exact partition_ren. Qed.

Theorem C08_ren_count : forall (V : Type) (s : nat -> nat) (n : node V),
  inj_on s (prior_ids V n) -> prior_count V (ren V s n) = prior_count V n.
Proof. exact prior_count_ren. Qed.

Theorem C08_ren_instance : forall (V : Type) (bin : binop -> V -> V -> V) (un : unop -> V -> V) (s : nat -> nat) (n : node V) (pv : list (path * V)),
  wf V n -> inj_on s (prior_ids V n) -> inst_from_paths V bin un (ren V s n) pv = inst_from_paths V bin un n pv.
Proof. exact inst_from_paths_ren. Qed.

(* ---- the pinned database form in general: parameter p comes back under its MESSAGE id mu p ---- *)
Theorem C08_db_pinned : forall (V : Type) (cf : cfg) (mu : nat -> nat) (n : snode V),
  fix_db_id cf = false -> forall_nodes V (db_node_ok V cf) n = true ->
  (forall p sp, In (p, sp) (occs V n) -> ps_mid V sp = Some (mu p)) ->
  exists n', db_rt V cf n = Ok n' /\ tree V n' = ren V mu (tree V n).
Proof. exact db_pinned_tree. Qed.

(* ---- the codecs in general (arithmetic priors, components without free parameters, dict constants
   included): the stateful dict decoder computes the declarative image of the model under its final
   lookup table; the database codec computes the image with every prior under its own id ---- *)
Theorem C08_dict_image : forall (V : Type) (falsy : V -> bool) (cf : cfg) (n : snode V),
  forall_nodes V (fun m => match dict_pre V cf m with None => true | Some _ => false end) n = true ->
  ok_all V cf (vocc V (as_instance V cf) n) ->
  exists st', dict_rt V falsy cf n = Ok (pmap V (look V st') (dict_filter V falsy cf) (as_instance V cf) (dict_post V cf) n) /\
              inv V st' /\ covers V st' (vocc V (as_instance V cf) n) /\
              from V (mkd V [] (fresh_base V n)) st' (vocc V (as_instance V cf) n).
Proof. exact dict_image. Qed.

Theorem C08_db_image : forall (V : Type) (cf : cfg) (n : snode V),
  forall_nodes V (db_chain_ok V cf) n = true -> all_occs V (db_occ_ok V cf) n = true ->
  db_rt V cf n = Ok (pmap V (fun p sp => (p, with_mid V sp (Some p))) (fun d => d) (fun _ => false) (rebuild_bin_default V) n).
Proof. exact db_image. Qed.

(* models WITH arithmetic priors through the database: the operand attribute names change (C08_arith_names_refuted)
   but the parameter order, the count and the instance built from every vector do not *)
Theorem C08_db_arith : forall (V : Type) (cf : cfg) (bin : binop -> V -> V -> V) (un : unop -> V -> V) (n : snode V) (vec : list V),
  forall_nodes V (db_chain_ok V cf) n = true -> all_occs V (db_occ_ok V cf) n = true -> wf V (tree V n) ->
  exists n', db_rt V cf n = Ok n' /\
             ordered_ids V (tree V n') = ordered_ids V (tree V n) /\
             prior_count V (tree V n') = prior_count V (tree V n) /\
             inst_from_vector V bin un (tree V n') vec = inst_from_vector V bin un (tree V n) vec.
Proof. exact db_arith. Qed.

(* models WITH arithmetic priors through dict/JSON: the reload succeeds, renames the parameters injectively,
   keeps their number, and builds the same instance from every assignment of values to parameters *)
Theorem C08_dict_arith : forall (V : Type) (bin : binop -> V -> V -> V) (un : unop -> V -> V) (falsy : V -> bool) (cf : cfg) (n : snode V),
  forall_nodes V (dict_node_ok2 V falsy cf) n = true -> all_occs V (occ_ok V cf) n = true -> wf V (tree V n) ->
  exists n' s, dict_rt V falsy cf n = Ok n' /\ inj_on s (node_ids V n) /\
               prior_count V (tree V n') = prior_count V (tree V n) /\
               forall a : nat -> option V, inst V bin un a (tree V n') = inst V bin un (fun q => a (s q)) (tree V n).
Proof. exact dict_arith. Qed.

(* ---- models with arithmetic priors ANYWHERE: with the operands of every arithmetic prior put under the fixed
   names l / r ([bn]: the stored forms do not keep those names, finding arith-names), a round trip -- and any
   sequence of them -- is an injective renaming and changes nothing else.  With C08_paths / C08_sharing /
   C08_count / C08_instance applied to [bn n] this gives the specification at every place, the sharing
   partition, the constants and the assertions of the WHOLE model, not only order / count / instances. ---- *)
Theorem C08_round_trip_arith : forall (V : Type) (falsy : V -> bool) (cf : cfg) (f : form) (n : snode V),
  guard2 V falsy cf f n = true -> consistent V n ->
  exists n', rt V falsy cf f n = Ok n' /\ equiv V (bn V n) (bn V n').
Proof. exact rt_equiv_bn. Qed.

Theorem C08_iter_arith : forall (V : Type) (falsy : V -> bool) (cf : cfg) (fs : list form) (n : snode V),
  consistent V n -> guards2 V falsy cf fs n ->
  exists n', rt_seq V falsy cf fs n = Ok n' /\ equiv V (bn V n) (bn V n').
Proof. exact rt_seq_equiv_bn. Qed.

(* ---- the former witnesses under the repaired code (positive counterparts of the _refuted theorems below,
   which are statements about cfg_pinned, the tree as it was pinned) ---- *)
Theorem C08_former_witnesses_fixed :
  (exists n', db_rt float cfg_fixed w_new = Ok n' /\ prior_count float (tree float n') = 2) /\
  (exists n', db_rt float cfg_fixed w_passed = Ok n' /\ unique_prior_paths float (tree float n') = unique_prior_paths float (tree float w_passed)) /\
  (exists n', db_rt float cfg_fixed w_chain = Ok n' /\ snode_eqb n' w_chain = true) /\
  (exists n', rt_seq float ffalsy cfg_fixed [FPickle; FDb] (g2 (SPrior 0 (gau (Some 0))) (SConst 1%float) []) = Ok n').
Proof. exact former_witnesses_fixed. Qed.

(* ---- the full statement is refuted on the faithful model: *_refuted = the defect the tree still has (arithmetic
   operand names); *_legacy_refuted = history, statements
   about cfg_pinned (the tree as it was pinned) whose defects are repaired in /repo (111eb99, a2e2dae, a21f2bc, 04fca50,
   0b56c35): their positive counterparts for the code as it is are C08_iter_fixed, C08_iter_next, C08_former_witnesses_fixed
   and C08_zero_prior_fixed.  The only defect the tree still has is C08_arith_names_refuted. ---- *)
Theorem C08_db_legacy_refuted :
  exists n n', consistent float n /\ db_rt float cfg_pinned n = Ok n' /\
               prior_count float (tree float n) = 2 /\ prior_count float (tree float n') = 1 /\ ~ equiv float n n'.
Proof. exact db_merges_refuted. Qed.

Theorem C08_db_order_legacy_refuted :
  exists n n', db_rt float cfg_pinned n = Ok n' /\ unique_prior_paths float (tree float n) = [["m"; "a"]; ["s"]]%string
               /\ unique_prior_paths float (tree float n') = [["s"]; ["m"; "a"]]%string.
Proof. exact db_order_refuted. Qed.

Theorem C08_pickle_then_db_legacy_refuted :
  exists n, guard float ffalsy cfg_pinned FDb n = true /\ rt_seq float ffalsy cfg_pinned [FPickle; FDb] n = Err EAttributeError.
Proof. exact pickle_then_db_refuted. Qed.

Theorem C08_arith_names_refuted :
  exists n, consistent float n /\
    (exists n', dict_rt float ffalsy cfg_pinned n = Ok n' /\ map fst (walk float (tree float n)) = [["a"]; ["b"; "p"]; ["b"; "q"]]%string
                /\ map fst (walk float (tree float n')) = [["a"]; ["b"; "left_"]; ["b"; "right_"]]%string /\ ~ equiv float n n') /\
    (exists n', db_rt float cfg_pinned n = Ok n' /\ map fst (walk float (tree float n')) = [["a"]; ["b"; "left_"]; ["b"; "right_"]]%string
                /\ ~ equiv float n n').
Proof. exact arith_names_refuted. Qed.

Theorem C08_zero_prior_legacy_refuted :
  exists n n', dict_rt float ffalsy cfg_pinned n = Ok n' /\
    ival_eqb (inst_from_paths float fbin funop (tree float n') [(["h"; "a"]%string, 0.5%float)])
             (inst_from_paths float fbin funop (tree float n) [(["h"; "a"]%string, 0.5%float)]) = false.
Proof. exact zero_prior_tuple_refuted. Qed.

Theorem C08_zero_prior_extra_legacy_refuted :
  exists n, dict_rt float ffalsy cfg_pinned n = Err ETypeError /\ pickle_rt float n = Ok n /\ db_rt float cfg_pinned n = Ok n.
Proof. exact zero_prior_extra_refuted. Qed.

Theorem C08_loggaussian_legacy_refuted :
  exists n, dict_rt float ffalsy cfg_pinned n = Err ETypeError /\ dict_rt float ffalsy cfg_fixed n <> Err ETypeError.
Proof. exact loggaussian_refuted. Qed.

Theorem C08_falsy_legacy_refuted :
  exists n n', dict_rt float ffalsy cfg_pinned n = Ok n' /\
               snode_eqb (smap float (forget_f float) n') (smap float (forget_f float) n) = false.
Proof. exact falsy_refuted. Qed.

Theorem C08_chained_legacy_refuted :
  db_rt float cfg_pinned w_chain = Err EAttributeError /\ guard float ffalsy cfg_pinned FDict w_chain = true.
Proof. exact chained_refuted. Qed.

(* ---------- the unary node (ModifiedPrior: -x, abs(x)) ----------
   every storage form writes the operand's attribute name and reads it back: kind, operator and name survive; a unary
   node stays inside the guards of C08_round_trip_partial (so the reloaded model is EQUIVALENT, names included);
   its ModelTree view is the NUn node of C01 *)
Theorem C08_unary_rebuilt : forall (V : Type) (cf : cfg) (o : unop) (ch0 ch : list (string * snode V)) (a0 a : list (assertion V)),
  dict_post V cf (SNode (KUn o) ch0 a0) ch a = SNode (KUn o) ch a /\
  rebuild_bin_default V (SNode (KUn o) ch0 a0) ch a = SNode (KUn o) ch a /\
  rebuild_same V (SNode (KUn o) ch0 a0) ch a = SNode (KUn o) ch a.
Proof. exact unary_rebuilt. Qed.

Theorem C08_unary_in_guards : forall (V : Type) (falsy : V -> bool) (cf : cfg) (o : unop) (ch : list (string * snode V))
    (a : list (assertion V)),
  dict_node_ok V falsy cf (SNode (KUn o) ch a) = true /\
  db_node_ok V cf (SNode (KUn o) ch a) = (fix_chain cf || negb (existsb (is_and V) a))%bool /\
  dict_pre V cf (SNode (KUn o) ch a) = None /\ as_instance V cf (SNode (KUn o) ch a) = false.
Proof. exact unary_in_guards. Qed.

Theorem C08_unary_tree : forall (V : Type) (o : unop) (nm : string) (c : snode V) (a : list (assertion V)),
  tree V (SNode (KUn o) [(nm, c)] a) = NUn o nm (tree V c).
Proof. exact unary_tree. Qed.

Theorem C08_unary_name_canonical : forall (V : Type) (o : unop) (nm : string) (c : node V),
  cn V (NUn o nm c) = NUn o nm (cn V c) /\ forall s, ren V s (NUn o nm c) = NUn o nm (ren V s c).
Proof. exact unary_name_canonical. Qed.

Print Assumptions C08_round_trip_partial.
Print Assumptions C08_dict_partial.
Print Assumptions C08_iter_partial.
Print Assumptions C08_iter_fixed.
Print Assumptions C08_instance.
Print Assumptions C08_db_legacy_refuted.
Print Assumptions C08_dict_image.
Print Assumptions C08_db_arith.
Print Assumptions C08_dict_arith.
Print Assumptions C08_iter_arith.
Print Assumptions C08_unary_rebuilt.
Print Assumptions C08_unary_in_guards.
Print Assumptions C08_unary_tree.
Print Assumptions C08_unary_name_canonical.

(* ---- write/read HISTORIES on one store object (History.v): for any history of writes, write-backs, add /
   flush / commit / reload on any number of slots, a read returns the decoded image of the LAST write to that
   slot; under any equivalence one trip respects it is equivalent to the model last written explicitly ---- *)
From PAFC08 Require Import History HistoryWitness.
Theorem C08_history_last_write_wins : forall (M R : Type) (enc : M -> option R) (dec : R -> M) (h : list (op M)) (k : nat),
  read M R dec (run M R enc dec h) k = option_map dec (image M R enc dec h k).
Proof. exact last_write_wins. Qed.
Theorem C08_history_new_session : forall (M R : Type) (enc : M -> option R) (dec : R -> M) (h : list (op M)) (k : nat),
  in_session R (run M R enc dec h k) = true ->
  stored R (run M R enc dec (Reload M :: h) k) = image M R enc dec h k /\
  read M R dec (run M R enc dec (Reload M :: h)) k = option_map dec (image M R enc dec h k).
Proof. exact reload_stored. Qed.
Theorem C08_history_other_slots : forall (M R : Type) (enc : M -> option R) (dec : R -> M) (h : list (op M)) (o : op M) (k : nat),
  match o with Write _ j _ | WriteBack _ j => j <> k | _ => True end ->
  read M R dec (run M R enc dec (o :: h)) k = read M R dec (run M R enc dec h) k.
Proof. exact other_slots. Qed.
Theorem C08_history_equiv : forall (M R : Type) (enc : M -> option R) (dec : R -> M) (E : M -> M -> Prop),
  (forall a b c, E a b -> E b c -> E a c) -> (forall m r, enc m = Some r -> E m (dec r)) ->
  forall (h : list (op M)) (k : nat) (m : M), last_write M R enc h k = Some m ->
  exists m', read M R dec (run M R enc dec h) k = Some m' /\ E m m'.
Proof. exact history_equiv. Qed.
Print Assumptions C08_history_last_write_wins.
Print Assumptions C08_history_equiv.
