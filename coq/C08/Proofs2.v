(* C08 lemmas, part 2: the memoising dictionary decoder refines a renaming.
   State = (loaded_ids, next fresh id).  [memo t m oc x]: running the stateful traversal t on x from any
   good state succeeds, and its result is the PURE map m under the FINAL lookup table. *)
From Coq Require Import List String Bool Arith PeanoNat Lia.
From PAFC01 Require Import ModelTree.
From PAFC08 Require Import Model Lib Proofs1.
Import ListNotations.
Local Open Scope string_scope.
Local Open Scope list_scope.

Section P2.
  Variable V : Type.
  Variable falsy : V -> bool.
  Variable cf : cfg.
  Notation snode := (snode V).
  Notation pspec := (pspec V).
  Notation expr := (expr V).
  Notation assertion := (assertion V).
  Notation dstate := (dstate V).
  Notation occs := (occs V).

  Definition loaded (st : dstate) := d_loaded V st.
  Definition next (st : dstate) := d_next V st.

  Definition look (st : dstate) (p : nat) (sp : pspec) : nat * pspec :=
    match alookup p (loaded st) with Some r => r | None => (p, sp) end.

  Record inv (st : dstate) : Prop := {
    inv_lt : forall p r, alookup p (loaded st) = Some r -> fst r < next st;
    inv_inj : forall p1 p2 r1 r2, alookup p1 (loaded st) = Some r1 -> alookup p2 (loaded st) = Some r2 ->
                                  fst r1 = fst r2 -> p1 = p2
  }.

  Definition ext (st st' : dstate) : Prop :=
    (forall p r, alookup p (loaded st) = Some r -> alookup p (loaded st') = Some r) /\ next st <= next st'.

  Definition covers (st : dstate) (O : list (nat * pspec)) : Prop :=
    forall p sp, In (p, sp) O -> alookup p (loaded st) <> None.

  (* every entry of the final table was there before or was created for an occurrence of O *)
  Definition from (st st' : dstate) (O : list (nat * pspec)) : Prop :=
    forall p r, alookup p (loaded st') = Some r ->
      alookup p (loaded st) = Some r \/
      (exists sp, In (p, sp) O /\ snd r = with_mid V sp (Some (fst r)) /\ next st <= fst r).

  Definition agree (f g : nat -> pspec -> nat * pspec) (O : list (nat * pspec)) : Prop :=
    forall p sp, In (p, sp) O -> f p sp = g p sp.

  Lemma ext_refl (st : dstate) : ext st st.
  Proof. split; [auto|lia]. Qed.

  Lemma ext_trans (a b c : dstate) : ext a b -> ext b c -> ext a c.
  Proof. intros [H1 L1] [H2 L2]. split; [auto|lia]. Qed.

  Lemma look_agree (st1 st2 : dstate) (O : list (nat * pspec)) :
    ext st1 st2 -> covers st1 O -> agree (look st1) (look st2) O.
  Proof.
    intros [E _] C p sp Hin. unfold look. destruct (alookup p (loaded st1)) as [r|] eqn:A.
    - rewrite (E _ _ A). reflexivity.
    - exfalso. exact (C _ _ Hin A).
  Qed.

  Lemma covers_ext (st1 st2 : dstate) (O : list (nat * pspec)) : ext st1 st2 -> covers st1 O -> covers st2 O.
  Proof.
    intros [E _] C p sp Hin. destruct (alookup p (loaded st1)) as [r|] eqn:A.
    - rewrite (E _ _ A). discriminate.
    - exfalso. exact (C _ _ Hin A).
  Qed.

  Lemma covers_app (st : dstate) (O1 O2 : list (nat * pspec)) : covers st O1 -> covers st O2 -> covers st (O1 ++ O2).
  Proof. intros C1 C2 p sp Hin. apply in_app_or in Hin. destruct Hin; [eapply C1|eapply C2]; eauto. Qed.

  Lemma from_trans (a b c : dstate) (O1 O2 : list (nat * pspec)) :
    ext a b -> from a b O1 -> from b c O2 -> from a c (O1 ++ O2).
  Proof.
    intros [_ L] F1 F2 p r H. destruct (F2 p r H) as [H'|[sp [Hin [E Hn]]]].
    - destruct (F1 p r H') as [H''|[sp [Hin [E Hn]]]]; [left; exact H''|].
      right. exists sp. repeat split; auto. apply in_or_app. auto.
    - right. exists sp. repeat split; auto; [apply in_or_app; auto|lia].
  Qed.

  Lemma from_refl (st : dstate) (O : list (nat * pspec)) : from st st O.
  Proof. intros p r H. left. exact H. Qed.

  Lemma from_weaken (a b : dstate) (O O' : list (nat * pspec)) : incl O O' -> from a b O -> from a b O'.
  Proof.
    intros I F p r H. destruct (F p r H) as [H'|[sp [Hin [E Hn]]]]; [left; exact H'|].
    right. exists sp. repeat split; auto.
  Qed.

  Definition memo {X : Type} (t : X -> dstate -> outcome (X * dstate))
             (m : (nat -> pspec -> nat * pspec) -> X -> X) (oc : X -> list (nat * pspec)) (x : X) : Prop :=
    forall st, inv st ->
      exists st', t x st = Ok (m (look st') x, st') /\ inv st' /\ ext st st' /\ covers st' (oc x) /\ from st st' (oc x).

  (* two traversals in sequence *)
  Lemma memo_seq {X Y : Type} tx mx ox (x : X) ty my oy (y : Y) :
    memo tx mx ox x -> memo ty my oy y ->
    (forall f g, agree f g (ox x) -> mx f x = mx g x) ->
    forall st, inv st ->
      exists st1 st2, tx x st = Ok (mx (look st2) x, st1) /\ ty y st1 = Ok (my (look st2) y, st2) /\
                      inv st2 /\ ext st st2 /\ covers st2 (ox x ++ oy y) /\ from st st2 (ox x ++ oy y).
  Proof.
    intros Mx My Hx st I.
    destruct (Mx st I) as [st1 [E1 [I1 [X1 [C1 F1]]]]].
    destruct (My st1 I1) as [st2 [E2 [I2 [X2 [C2 F2]]]]].
    exists st1, st2. repeat split.
    - rewrite E1. f_equal. f_equal. apply Hx. apply look_agree; assumption.
    - exact E2.
    - apply I2.
    - apply I2.
    - apply (ext_trans _ _ _ X1 X2).
    - apply (ext_trans _ _ _ X1 X2).
    - apply covers_app; [apply (covers_ext st1); assumption|exact C2].
    - apply (from_trans st st1 st2); assumption.
  Qed.

  (* ---------- one prior occurrence ---------- *)
  Lemma alookup_app_single {B} (k p : nat) (r : B) (l : list (nat * B)) :
    alookup k (l ++ [(p, r)]) = match alookup k l with Some x => Some x | None => if Nat.eqb k p then Some r else None end.
  Proof.
    induction l as [|[k' v] l IH]; simpl; [reflexivity|].
    destruct (Nat.eqb k k'); [reflexivity|exact IH].
  Qed.

  Definition occ_ok (p : nat) (sp : pspec) : bool := fix_loggaussian cf || negb (is_loggaussian (ps_fam V sp)).

  Lemma memo_prior (p : nat) (sp : pspec) :
    occ_ok p sp = true ->
    memo (fun (x : nat * pspec) st => dict_prior V cf (fst x) (snd x) st)
         (fun f x => f (fst x) (snd x)) (fun x => [x]) (p, sp).
  Proof.
    intros HR st I. cbn [fst snd]. unfold dict_prior. fold (loaded st).
    destruct (alookup p (loaded st)) as [r|] eqn:A.
    - exists st. repeat split.
      + unfold look. rewrite A. reflexivity.
      + apply I.
      + apply I.
      + auto.
      + lia.
      + intros p' sp' [E|[]]. inversion E; subst. rewrite A. discriminate.
      + apply from_refl.
    - assert (NG : is_loggaussian (ps_fam V sp) && negb (fix_loggaussian cf) = false).
      { unfold occ_ok in HR. destruct (fix_loggaussian cf), (is_loggaussian (ps_fam V sp)); simpl in *; congruence. }
      rewrite NG. fold (next st).
      set (q := next st). set (sp' := with_mid V sp (Some q)).
      set (st' := mkd V (loaded st ++ [(p, (q, sp'))]) (S q)).
      assert (L : forall k, alookup k (loaded st') = match alookup k (loaded st) with
                                                       | Some x => Some x
                                                       | None => if Nat.eqb k p then Some (q, sp') else None end).
      { intro k. unfold st', loaded. simpl. apply alookup_app_single. }
      exists st'. repeat split.
      + unfold look. rewrite L, A, Nat.eqb_refl. reflexivity.
      + intros k r H. rewrite L in H. unfold next, st'. simpl. fold (next st).
        destruct (alookup k (loaded st)) as [x|] eqn:B.
        * inversion H; subst. pose proof (inv_lt st I k r B). unfold q. lia.
        * destruct (Nat.eqb k p); [|discriminate]. inversion H; subst. simpl. lia.
      + intros k1 k2 r1 r2 H1 H2 E. rewrite L in H1, H2.
        destruct (alookup k1 (loaded st)) as [x1|] eqn:B1; destruct (alookup k2 (loaded st)) as [x2|] eqn:B2.
        * inversion H1; inversion H2; subst. exact (inv_inj st I k1 k2 r1 r2 B1 B2 E).
        * inversion H1; subst. destruct (Nat.eqb k2 p); [|discriminate]. inversion H2; subst. simpl in E.
          pose proof (inv_lt st I k1 r1 B1). unfold q in E. lia.
        * inversion H2; subst. destruct (Nat.eqb k1 p); [|discriminate]. inversion H1; subst. simpl in E.
          pose proof (inv_lt st I k2 r2 B2). unfold q in E. lia.
        * destruct (Nat.eqb_spec k1 p); [|discriminate]. destruct (Nat.eqb_spec k2 p); [|discriminate]. congruence.
      + intros k r H. rewrite L, H. reflexivity.
      + unfold next, st'. simpl. fold (next st). unfold q. lia.
      + intros p' sp'' [E|[]]. inversion E; subst. rewrite L, A, Nat.eqb_refl. discriminate.
      + intros k r H. rewrite L in H. destruct (alookup k (loaded st)) as [x|] eqn:B.
        * left. exact H.
        * destruct (Nat.eqb_spec k p) as [->|_]; [|discriminate]. inversion H; subst.
          right. exists sp. repeat split; [left; reflexivity|]. simpl. unfold q. lia.
  Qed.

  (* ---------- expressions, assertions, lists ---------- *)
  Definition ok_all (O : list (nat * pspec)) : Prop := forall p sp, In (p, sp) O -> occ_ok p sp = true.

  Lemma memo_expr (e : expr) : ok_all (expr_occs V e) -> memo (texpr V dstate (dict_prior V cf)) (emap V) (expr_occs V) e.
  Proof.
    induction e as [p sp|v|o l IHl r IHr|o x IHx]; intro H; [| | |
      intros st I; destruct (IHx H st I) as [st' [E R]]; exists st'; cbn [texpr emap expr_occs]; rewrite E; cbn [bind fst snd];
      split; [reflexivity|exact R]].
    - intros st I. destruct (memo_prior p sp (H p sp (or_introl eq_refl)) st I) as [st' [E R]].
      exists st'. cbn [fst snd] in E. cbn [texpr emap expr_occs]. rewrite E. cbn [bind fst snd].
      split; [destruct (look st' p sp); reflexivity|exact R].
    - intros st I. exists st. repeat split; try apply I; auto; try lia; [intros p sp []|apply from_refl].
    - intros st I.
      assert (Hl : ok_all (expr_occs V l)) by (intros p sp Hin; apply H; simpl; apply in_or_app; auto).
      assert (Hr : ok_all (expr_occs V r)) by (intros p sp Hin; apply H; simpl; apply in_or_app; auto).
      destruct (memo_seq _ _ _ l _ _ _ r (IHl Hl) (IHr Hr) (fun f g A => emap_ext V f g l A) st I)
        as [st1 [st2 [E1 [E2 R]]]].
      exists st2. cbn [texpr emap expr_occs]. rewrite E1. cbn [bind fst snd]. rewrite E2. cbn [bind fst snd].
      split; [reflexivity|exact R].
  Qed.

  Lemma memo_assert (a : assertion) :
    ok_all (assert_occs V a) -> memo (tassert V dstate (dict_prior V cf)) (amap V) (assert_occs V) a.
  Proof.
    induction a as [l g|l g|a IHa b IHb]; intro H.
    - intros st I.
      assert (Hl : ok_all (expr_occs V l)) by (intros p sp Hin; apply H; simpl; apply in_or_app; auto).
      assert (Hg : ok_all (expr_occs V g)) by (intros p sp Hin; apply H; simpl; apply in_or_app; auto).
      destruct (memo_seq _ _ _ l _ _ _ g (memo_expr l Hl) (memo_expr g Hg) (fun f g0 A => emap_ext V f g0 l A) st I)
        as [st1 [st2 [E1 [E2 R]]]].
      exists st2. cbn [tassert amap assert_occs]. rewrite E1. cbn [bind fst snd]. rewrite E2. cbn [bind fst snd].
      split; [reflexivity|exact R].
    - intros st I.
      assert (Hl : ok_all (expr_occs V l)) by (intros p sp Hin; apply H; simpl; apply in_or_app; auto).
      assert (Hg : ok_all (expr_occs V g)) by (intros p sp Hin; apply H; simpl; apply in_or_app; auto).
      destruct (memo_seq _ _ _ l _ _ _ g (memo_expr l Hl) (memo_expr g Hg) (fun f g0 A => emap_ext V f g0 l A) st I)
        as [st1 [st2 [E1 [E2 R]]]].
      exists st2. cbn [tassert amap assert_occs]. rewrite E1. cbn [bind fst snd]. rewrite E2. cbn [bind fst snd].
      split; [reflexivity|exact R].
    - intros st I.
      assert (Ha : ok_all (assert_occs V a)) by (intros p sp Hin; apply H; simpl; apply in_or_app; auto).
      assert (Hb : ok_all (assert_occs V b)) by (intros p sp Hin; apply H; simpl; apply in_or_app; auto).
      destruct (memo_seq _ _ _ a _ _ _ b (IHa Ha) (IHb Hb) (fun f g0 A => amap_ext V f g0 a A) st I)
        as [st1 [st2 [E1 [E2 R]]]].
      exists st2. cbn [tassert amap assert_occs]. rewrite E1. cbn [bind fst snd]. rewrite E2. cbn [bind fst snd].
      split; [reflexivity|exact R].
  Qed.

  Lemma memo_asserts (asr : list assertion) :
    ok_all (flat_map (assert_occs V) asr) ->
    memo (tasserts V dstate (dict_prior V cf)) (fun f => map (amap V f)) (flat_map (assert_occs V)) asr.
  Proof.
    induction asr as [|a asr IH]; intro H.
    - intros st I. exists st. repeat split; try apply I; auto; try lia; [intros p sp []|apply from_refl].
    - intros st I.
      assert (Ha : ok_all (assert_occs V a)) by (intros p sp Hin; apply H; simpl; apply in_or_app; auto).
      assert (Hr : ok_all (flat_map (assert_occs V) asr)) by (intros p sp Hin; apply H; simpl; apply in_or_app; auto).
      destruct (memo_seq _ _ _ a _ _ _ asr (memo_assert a Ha) (IH Hr) (fun f g0 A => amap_ext V f g0 a A) st I)
        as [st1 [st2 [E1 [E2 R]]]].
      exists st2. cbn [tasserts map flat_map]. rewrite E1. cbn [bind fst snd]. rewrite E2. cbn [bind fst snd].
      split; [reflexivity|exact R].
  Qed.

  (* ---------- the tree ---------- *)
  Section Nodes.
    Variable Q : snode -> bool.
    Notation fdict := (dict_filter V falsy cf).
    Notation pre := (dict_pre V cf).
    Notation skip := (as_instance V cf).
    Notation post := (dict_post V cf).
    Hypothesis Hpre : forall m, Q m = true -> pre m = None.
    Hypothesis Hskip : forall m, Q m = true -> skip m = false.
    Hypothesis Hpost : forall m ch asr, Q m = true -> post m ch asr = rebuild_same V m ch asr.
    Hypothesis Hdict : forall items, Q (SDict items) = true -> fdict items = items.
    Notation dnode := (tnode V dstate (dict_prior V cf) fdict pre skip post).
    Notation dchildren := (tchildren V dstate (dict_prior V cf) fdict pre skip post).

    Lemma chmap_ext (f g : nat -> pspec -> nat * pspec) (ch : list (string * snode)) :
      agree f g (ch_occs V ch) -> chmap V f ch = chmap V g ch.
    Proof.
      induction ch as [|[nm c] ch IH]; intro A; [reflexivity|]. unfold chmap in *. simpl. f_equal.
      - f_equal. apply smap_ext. intros p sp Hin. apply A. unfold ch_occs. simpl. apply in_or_app. auto.
      - apply IH. intros p sp Hin. apply A. unfold ch_occs. simpl. apply in_or_app. auto.
    Qed.

    Lemma memo_node (n : snode) :
      forall_nodes V Q n = true -> ok_all (occs n) -> memo dnode (smap V) occs n.
    Proof.
      induction n as [p sp|v|items|k ch asr IH] using (snode_ind' V); intros HQ HO.
      - intros st I. destruct (memo_prior p sp (HO p sp (or_introl eq_refl)) st I) as [st' [E R]].
        exists st'. cbn [fst snd] in E. cbn [tnode smap Proofs1.occs]. rewrite E. cbn [bind fst snd].
        split; [destruct (look st' p sp); reflexivity|exact R].
      - intros st I. exists st. repeat split; try apply I; auto; try lia; [intros p sp []|apply from_refl].
      - intros st I. exists st. cbn [tnode smap]. rewrite (Hdict _ (forall_nodes_top V Q _ HQ)).
        repeat split; try apply I; auto; try lia; [intros p sp []|apply from_refl].
      - rewrite forall_nodes_node in HQ. apply andb_true_iff in HQ. destruct HQ as [Qn Qc].
        rewrite occs_node in HO.
        assert (Mch : memo dchildren (chmap V) (ch_occs V) ch).
        { assert (HOc : ok_all (ch_occs V ch)) by (intros p sp Hin; apply HO; apply in_or_app; auto).
          clear HO Qn. induction ch as [|[nm c] ch IHc].
          - intros st I. exists st. repeat split; try apply I; auto; try lia; [intros p sp []|apply from_refl].
          - inversion IH as [|? ? H1 H2]; subst. simpl in Qc. apply andb_true_iff in Qc. destruct Qc as [Q1 Q2].
            simpl in H1.
            assert (O1 : ok_all (occs c)) by (intros p sp Hin; apply HOc; unfold ch_occs; simpl; apply in_or_app; auto).
            assert (O2 : ok_all (ch_occs V ch)) by (intros p sp Hin; apply HOc; unfold ch_occs; simpl; apply in_or_app; auto).
            intros st I.
            destruct (memo_seq _ _ _ c _ _ _ ch (H1 Q1 O1) (IHc H2 Q2 O2) (fun f g0 A => smap_ext V f g0 c A) st I)
              as [st1 [st2 [E1 [E2 R]]]].
            exists st2. cbn [tchildren]. rewrite E1. cbn [bind fst snd]. rewrite E2. cbn [bind fst snd].
            split; [reflexivity|exact R]. }
        assert (Mas : memo (tasserts V dstate (dict_prior V cf)) (fun f => map (amap V f)) (flat_map (assert_occs V)) asr).
        { apply memo_asserts. intros p sp Hin. apply HO. apply in_or_app. auto. }
        intros st I.
        destruct (memo_seq _ _ _ ch _ _ _ asr Mch Mas (fun f g0 A => chmap_ext f g0 ch A) st I)
          as [st1 [st2 [E1 [E2 R]]]].
        exists st2. rewrite tnode_node. rewrite (Hpre _ Qn), (Hskip _ Qn). rewrite E1. cbn [bind fst snd].
        rewrite E2. cbn [bind fst snd]. rewrite (Hpost _ _ _ Qn). rewrite smap_node, occs_node.
        split; [reflexivity|exact R].
    Qed.
  End Nodes.
End P2.
