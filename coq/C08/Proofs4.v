(* C08 lemmas, part 4: what the equivalence established by a round trip means for the observables of
   C01 (paths, sharing, count, instances, order); the repaired code; the pinned database form in general. *)
From Coq Require Import List String Bool Arith PeanoNat Lia Permutation Sorted.
From PAFC01 Require Import ModelTree Sorting Proofs Proofs2 Proofs3.
From PAFC08 Require Import Model Lib Proofs1 Proofs2 Proofs3.
Import ListNotations.
Local Open Scope string_scope.
Local Open Scope list_scope.

Section P4.
  Variable V : Type.
  Variable bin : binop -> V -> V -> V.
  Variable un : unop -> V -> V.
  Variable falsy : V -> bool.
  Notation snode := (snode V).
  Notation pspec := (pspec V).
  Notation tree := (tree V).
  Notation equiv := (equiv V).

  (* same list of parameter paths, in walk order *)
  Theorem equiv_paths (n n' : snode) : equiv n n' -> map fst (walk V (tree n')) = map fst (walk V (tree n)).
  Proof. intro Q. destruct (equiv_tree V n n' Q) as [s [_ E]]. rewrite E. apply walk_paths_ren. Qed.

  Theorem equiv_paths_sorted (n n' : snode) : equiv n n' -> Permutation (paths V (tree n')) (paths V (tree n)).
  Proof.
    intro Q. unfold paths, path_priors.
    eapply Permutation_trans; [apply Permutation_map; apply sort_by_perm|].
    rewrite (equiv_paths n n' Q). apply Permutation_sym. apply Permutation_map. apply sort_by_perm.
  Qed.

  (* never merges distinct parameters, never splits a shared one *)
  Theorem equiv_partition (n n' : snode) (i j : nat) (d : path * nat) :
    equiv n n' -> i < List.length (walk V (tree n)) -> j < List.length (walk V (tree n)) ->
    (snd (nth i (walk V (tree n')) d) = snd (nth j (walk V (tree n')) d)
     <-> snd (nth i (walk V (tree n)) d) = snd (nth j (walk V (tree n)) d)).
  Proof.
    intros Q Li Lj. destruct (equiv_tree V n n' Q) as [s [Hi E]]. rewrite E.
    assert (L : List.length (walk V (ren V s (tree n))) = List.length (walk V (tree n))) by (rewrite walk_ren; apply map_length).
    rewrite (nth_indep _ d (second s d)) by (rewrite L; exact Li).
    rewrite (nth_indep (walk V (ren V s (tree n))) d (second s d)) by (rewrite L; exact Lj).
    apply partition_ren; assumption.
  Qed.

  Theorem equiv_count (n n' : snode) : equiv n n' -> prior_count V (tree n') = prior_count V (tree n).
  Proof. intro Q. destruct (equiv_tree V n n' Q) as [s [Hi E]]. rewrite E. apply prior_count_ren. exact Hi. Qed.

  (* supplying the same value for each path yields equal instances *)
  Theorem equiv_instance (n n' : snode) (pv : list (path * V)) :
    equiv n n' -> wf V (tree n) ->
    inst_from_paths V bin un (tree n') pv = inst_from_paths V bin un (tree n) pv.
  Proof. intros Q W. destruct (equiv_tree V n n' Q) as [s [Hi E]]. rewrite E. apply inst_from_paths_ren; assumption. Qed.

  (* ---------- pickle and database: the ModelTree itself is unchanged (order included) ---------- *)
  Theorem rt_identity_tree (cf : cfg) (f : form) (n : snode) :
    f <> FDict -> guard V falsy cf f n = true ->
    exists n', rt V falsy cf f n = Ok n' /\ tree n' = tree n /\ smap V (forget_f V) n' = smap V (forget_f V) n.
  Proof.
    intros NF G. destruct (rt_identity V falsy cf f n NF G) as [n' [E S]].
    exists n'. repeat split; [exact E|exact (identity_tree V n n' S)|exact S].
  Qed.

  (* ---------- the pinned database form in general: identities become the message ids ---------- *)
  Theorem db_pinned_tree (cf : cfg) (mu : nat -> nat) (n : snode) :
    fix_db_id cf = false -> forall_nodes V (db_node_ok V cf) n = true ->
    (forall p sp, In (p, sp) (occs V n) -> ps_mid V sp = Some (mu p)) ->
    exists n', db_rt V cf n = Ok n' /\ tree n' = ren V mu (tree n).
  Proof.
    intros F HQ HM. eexists. split; [apply (db_total_mu V cf mu n F HQ HM)|].
    apply tree_smap. reflexivity.
  Qed.

  (* ---------- the repaired code: no guard beyond "no arithmetic prior, no component without free parameters" ---------- *)
  Definition plain_node (n : snode) : bool :=
    match n with
    | SNode (KBin _) _ _ => false
    | SNode (KModel _ _) _ _ => negb (no_priors V n)
    | _ => true
    end.
  Definition plain (n : snode) : bool := forall_nodes V plain_node n.

  Lemma forall_nodes_impl (P Q : snode -> bool) (n : snode) :
    (forall m, P m = true -> Q m = true) -> forall_nodes V P n = true -> forall_nodes V Q n = true.
  Proof.
    intro H. induction n as [p sp|v|items|k ch asr IH] using (snode_ind' V); try (simpl; intro A; apply andb_true_iff in A;
      destruct A as [A _]; rewrite (H _ A); reflexivity).
    rewrite !forall_nodes_node. intro A. apply andb_true_iff in A. destruct A as [A1 A2].
    rewrite (H _ A1). simpl. rewrite forallb_forall in *. intros x Hin. rewrite Forall_forall in IH.
    apply (IH _ Hin). apply A2. exact Hin.
  Qed.

  Lemma all_occs_true (R : nat -> pspec -> bool) (n : snode) : (forall p sp, R p sp = true) -> all_occs V R n = true.
  Proof. intro H. unfold all_occs. apply forallb_forall. intros [p sp] _. apply H. Qed.

  Lemma guard_fixed (f : form) (n : snode) : plain n = true -> guard V falsy cfg_fixed f n = true.
  Proof.
    intro P. destruct f; simpl; [|reflexivity|].
    - apply andb_true_iff. split; [|apply all_occs_true; reflexivity].
      apply (forall_nodes_impl plain_node); [|exact P].
      intros [p sp|v|items|[cls ctor| |idx|o|uo|cls ctor] ch asr] Hm; cbn [plain_node dict_node_ok] in *; auto.
      apply negb_true_iff in Hm. cbn [as_instance]. rewrite Hm. reflexivity.
    - apply andb_true_iff. split; [|apply all_occs_true; reflexivity].
      apply (forall_nodes_impl plain_node); [|exact P]. intros [p sp|v|items|[cls ctor| |idx|o|uo|cls ctor] ch asr]; simpl; auto.
  Qed.

  Lemma no_priors_smap (f : nat -> pspec -> nat * pspec) (s : nat -> nat) (n : snode) :
    (forall p sp, fst (f p sp) = s p) -> no_priors V (smap V f n) = no_priors V n.
  Proof.
    intro H. unfold no_priors. rewrite (tree_smap V f s H), walk_ren. destruct (walk V (tree n)); reflexivity.
  Qed.

  Lemma plain_smap (f : nat -> pspec -> nat * pspec) (s : nat -> nat) (n : snode) :
    (forall p sp, fst (f p sp) = s p) -> plain (smap V f n) = plain n.
  Proof.
    intro H. unfold plain. induction n as [p sp|v|items|k ch asr IH] using (snode_ind' V); try reflexivity.
    assert (T : plain_node (smap V f (SNode k ch asr)) = plain_node (SNode k ch asr)).
    { destruct k; try (rewrite smap_node; reflexivity).
      change (negb (no_priors V (smap V f (SNode (KModel cls ctor) ch asr))) = negb (no_priors V (SNode (KModel cls ctor) ch asr))).
      rewrite (no_priors_smap f s _ H). reflexivity. }
    rewrite smap_node in *. rewrite !forall_nodes_node. rewrite T. f_equal.
    unfold chmap. clear T. induction ch as [|[nm c] ch IHc]; [reflexivity|].
    inversion IH as [|? ? H1 H2]; subst. simpl in *. rewrite H1, (IHc H2). reflexivity.
  Qed.

  Lemma plain_equiv (n n' : snode) : equiv n n' -> plain n' = plain n.
  Proof.
    intros [s [_ E]]. rewrite <- (plain_smap (forget_f V) (fun q => q) n') by reflexivity.
    rewrite E. apply (plain_smap _ s). reflexivity.
  Qed.

  Lemma guards_fixed (fs : list form) : forall n, consistent V n -> plain n = true -> guards V falsy cfg_fixed fs n.
  Proof.
    induction fs as [|f fs IH]; intros n HC P; [exact I|]. split; [apply guard_fixed; exact P|].
    intros n' E. destruct (rt_equiv V falsy cfg_fixed f n (guard_fixed f n P) HC) as [n1 [E1 Q1]].
    rewrite E in E1. inversion E1; subst n1. apply IH.
    - exact (equiv_consistent V n n' Q1 HC).
    - rewrite (plain_equiv n n' Q1). exact P.
  Qed.

  Theorem fixed_sequences (fs : list form) (n : snode) :
    consistent V n -> plain n = true -> exists n', rt_seq V falsy cfg_fixed fs n = Ok n' /\ equiv n n'.
  Proof. intros HC P. apply rt_seq_equiv; [exact HC|apply guards_fixed; assumption]. Qed.
End P4.
