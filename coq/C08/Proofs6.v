(* C08 lemmas, part 6: the dict/JSON form of a model WITH arithmetic priors.  The operand attribute names
   are recomputed on reload (the defaults left_/right_, see d91c8d6), so
   the paths through an arithmetic prior change; the values do not: under the renaming established by the
   decoder every assignment of values to parameters yields the same instance. *)
From Coq Require Import List String Bool Arith PeanoNat Lia Permutation Sorted.
From PAFC01 Require Import ModelTree Sorting Proofs Proofs2 Proofs3.
From PAFC08 Require Import Model Lib Proofs1 Proofs2 Proofs3 Proofs4 Proofs5.
Import ListNotations.
Local Open Scope string_scope.
Local Open Scope list_scope.

Section P6.
  Variable V : Type.
  Variable bin : binop -> V -> V -> V.
  Variable un : unop -> V -> V.
  Notation snode := (snode V).
  Notation pspec := (pspec V).
  Notation node := (node V).

  (* ---------- the ModelTree of the dict image ---------- *)
  Variable falsy : V -> bool.
  Variable cf : cfg.
  Notation fdict := (dict_filter V falsy cf).
  Notation skip := (as_instance V cf).
  Notation post := (dict_post V cf).

  (* components without free parameters excluded; arithmetic priors allowed *)
  Definition dict_node_ok2 (n : snode) : bool :=
    match n with
    | SNode (KModel _ _) _ _ => negb (as_instance V cf n)
    | SDict items => fix_falsy cf || forallb (fun kv => negb (falsy (snd kv))) items
    | _ => true
    end.

  Lemma ok2_pre (m : snode) : dict_node_ok2 m = true -> dict_pre V cf m = None /\ as_instance V cf m = false.
  Proof.
    destruct m as [p sp|v|items|[cls ctor| |idx|o|uo|cls ctor] ch asr]; simpl; intro H; try (split; reflexivity).
    apply negb_true_iff in H. unfold dict_pre, as_instance. rewrite H. split; reflexivity.
  Qed.

  Section Image.
    Variable f : nat -> pspec -> nat * pspec.
    Variable s : nat -> nat.
    Hypothesis Hf : forall p sp, fst (f p sp) = s p.
    Notation img := (pmap V f fdict skip post).

    Lemma dict_post_bin (o : binop) ch0 asr0 (ln' rn' : string) (l' r' : snode) asr :
      dict_post V cf (SNode (KBin o) ch0 asr0) [(ln', l'); (rn', r')] asr = SNode (KBin o) [("left_", l'); ("right_", r')] asr.
    Proof. reflexivity. Qed.

    Lemma erase_dict_image (n : snode) :
      forall_nodes V dict_node_ok2 n = true ->
      forall b, erase V b (img n) = cn V (ren V s (erase V b n)).
    Proof.
      induction n as [p sp|v|items|k ch asr IH] using (snode_ind' V); intros HQ b.
      - simpl. rewrite Hf. reflexivity.
      - reflexivity.
      - cbn [pmap erase ren cn]. apply forall_nodes_top in HQ. simpl in HQ.
        assert (Ef : fdict items = items).
        { unfold dict_filter. destruct (fix_falsy cf); [reflexivity|]. simpl in HQ. apply filter_all. exact HQ. }
        rewrite Ef. f_equal. rewrite ren_attrs_eq, cn_attrs_eq. unfold ren_attrs, cn_attrs. rewrite !map_map. reflexivity.
      - rewrite forall_nodes_node in HQ. apply andb_true_iff in HQ. destruct HQ as [Qn Qc].
        rewrite pmap_node. destruct (ok2_pre _ Qn) as [_ SK]. rewrite SK.
        assert (E : forall b', ech V b' (pchmap V f fdict skip post ch) = cn_attrs V (ren_attrs V s (ech V b' ch))).
        { intro b'. unfold ech, pchmap, cn_attrs, ren_attrs. rewrite !map_map. apply map_ext_in. intros [nm c] Hin. simpl.
          rewrite Forall_forall in IH. rewrite forallb_forall in Qc.
          pose proof (IH _ Hin (Qc _ Hin) b') as E0. simpl in E0. rewrite E0. reflexivity. }
        destruct k as [cls ctor| |idx|o|uo|cls ctor].
        + (* Model with free parameters *)
          cbn [dict_node_ok2] in Qn. apply negb_true_iff in Qn. cbn [dict_post]. rewrite Qn.
          cbn [erase]. rewrite !erase_children, E. cbn [ren cn]. rewrite ren_attrs_eq, cn_attrs_eq. reflexivity.
        + unfold dict_post, rebuild_same. cbn [erase]. rewrite !erase_children, E. cbn [ren cn].
          rewrite ren_attrs_eq, cn_attrs_eq. reflexivity.
        + unfold dict_post, rebuild_same. cbn [erase]. rewrite !erase_children. destruct b.
          * rewrite E. cbn [ren cn]. rewrite ren_attrs_eq, cn_attrs_eq. reflexivity.
          * rewrite E. cbn [ren cn]. rewrite ren_members_eq, cn_members_eq. f_equal.
            clear Qn SK. generalize (ech V false ch). intro l. revert idx. induction l as [|[nm c] l IHl]; intros [|i idx]; simpl; try reflexivity.
            rewrite IHl. reflexivity.
        + (* arithmetic prior *)
          destruct ch as [|[ln l] [|[rn r] [|x t]]].
          * reflexivity.
          * reflexivity.
          * inversion IH as [|? ? Hl H2]; subst. inversion H2 as [|? ? Hr _]; subst. simpl in Hl, Hr, Qc.
            apply andb_true_iff in Qc. destruct Qc as [Ql Qc]. apply andb_true_iff in Qc. destruct Qc as [Qr _].
            cbn [pchmap map fst snd]. rewrite dict_post_bin.
            cbn [erase ren cn]. rewrite (Hl Ql false), (Hr Qr false). reflexivity.
          * destruct x as [xn xc]. reflexivity.
        + (* unary form: the operand's attribute name is written ("name") and read back *)
          unfold dict_post, rebuild_same. cbn [erase]. rewrite !erase_children, E.
          destruct (ech V false ch) as [|[nm c] [|x t]]; reflexivity.
        + unfold dict_post, rebuild_same. cbn [erase]. rewrite !erase_children, E. cbn [ren cn].
          rewrite ren_attrs_eq, cn_attrs_eq. reflexivity.
    Qed.
  End Image.

  Lemma wf_ren (s : nat -> nat) (n : node) : wf V n -> wf V (ren V s n).
  Proof.
    induction n as [q|c|ms IH|o ln rn l r IHl IHr|uo unm uc IHc|cls ctor attrs IH|attrs IH] using (node_ind' V); intro W;
      [| | | |exact (IHc W)| |].
    - exact I.
    - exact I.
    - cbn [ren wf]. rewrite ren_members_eq. destruct W as [ND W]. split.
      + unfold ren_members. rewrite map_map. simpl. exact ND.
      + clear ND. induction ms as [|[k [i c]] ms IHms]; [exact I|].
        inversion IH as [|? ? Hc Hr]; subst. simpl in Hc. destruct W as [W1 W2]. simpl. split; [exact (Hc W1)|exact (IHms Hr W2)].
    - destruct W as [Hne [Wl Wr]]. cbn [ren wf]. repeat split; auto.
    - cbn [ren wf]. rewrite ren_attrs_eq. destruct W as [ND W]. split.
      + unfold ren_attrs. rewrite map_map. simpl. exact ND.
      + clear ND. induction attrs as [|[k c] attrs IHa]; [exact I|].
        inversion IH as [|? ? Hc Hr]; subst. simpl in Hc. destruct W as [W1 W2]. simpl. split; [exact (Hc W1)|exact (IHa Hr W2)].
    - cbn [ren wf]. rewrite ren_attrs_eq. destruct W as [ND W]. split.
      + unfold ren_attrs. rewrite map_map. simpl. exact ND.
      + clear ND. induction attrs as [|[k c] attrs IHa]; [exact I|].
        inversion IH as [|? ? Hc Hr]; subst. simpl in Hc. destruct W as [W1 W2]. simpl. split; [exact (Hc W1)|exact (IHa Hr W2)].
  Qed.

  (* dict round trip of a model that may contain arithmetic priors: it succeeds; the parameters are renamed
     injectively; the number of free parameters is kept; and whatever values the parameters are given, the
     reloaded model builds the same instance (constants, tuples and derived values included) *)
  Theorem dict_arith (n : snode) :
    forall_nodes V dict_node_ok2 n = true -> all_occs V (occ_ok V cf) n = true -> wf V (tree V n) ->
    exists n' s, dict_rt V falsy cf n = Ok n' /\ inj_on s (node_ids V n) /\
                 prior_count V (tree V n') = prior_count V (tree V n) /\
                 forall a : nat -> option V, inst V bin un a (tree V n') = inst V bin un (fun q => a (s q)) (tree V n).
  Proof.
    intros HQ HR W.
    assert (HQ' : forall_nodes V (fun m => match dict_pre V cf m with None => true | Some _ => false end) n = true).
    { apply (forall_nodes_impl V dict_node_ok2); [|exact HQ]. intros m H. rewrite (proj1 (ok2_pre m H)). reflexivity. }
    assert (VO : forall m, forall_nodes V dict_node_ok2 m = true -> vocc V skip m = occs V m).
    { intro m. induction m as [p sp|v|items|k ch asr IH] using (snode_ind' V); intro H; try reflexivity.
      rewrite forall_nodes_node in H. apply andb_true_iff in H. destruct H as [Hn Hc].
      rewrite vocc_node, occs_node. rewrite (proj2 (ok2_pre _ Hn)). f_equal.
      unfold ch_vocc, ch_occs. clear Hn. induction ch as [|[nm c] ch IHc]; [reflexivity|].
      inversion IH as [|? ? H1 H2]; subst. simpl in *. apply andb_true_iff in Hc. destruct Hc as [Hc1 Hc2].
      rewrite (H1 Hc1), (IHc H2 Hc2). reflexivity. }
    assert (HO : ok_all V cf (vocc V skip n)).
    { intros p sp Hin. rewrite (VO n HQ) in Hin. exact (all_occs_spec V _ n HR p sp Hin). }
    destruct (dict_image V falsy cf n HQ' HO) as [st' [E [I' [C F]]]].
    exists (pmap V (look V st') fdict skip post n), (sigma_of V st'). split; [exact E|].
    assert (Hs : forall p sp, fst (look V st' p sp) = sigma_of V st' p).
    { intros p sp. unfold look, sigma_of. destruct (alookup p (loaded V st')); reflexivity. }
    assert (Hi : inj_on (sigma_of V st') (node_ids V n)).
    { intros a b Ha Hb Eab. unfold Proofs1.node_ids in Ha, Hb. rewrite <- (VO n HQ) in Ha, Hb.
      apply in_map_iff in Ha. destruct Ha as [[a' spa] [<- Ha]]. apply in_map_iff in Hb. destruct Hb as [[b' spb] [<- Hb]].
      simpl in *. unfold sigma_of in Eab.
      destruct (alookup a' (loaded V st')) as [ra|] eqn:Aa; [|exfalso; exact (C _ _ Ha Aa)].
      destruct (alookup b' (loaded V st')) as [rb|] eqn:Ab; [|exfalso; exact (C _ _ Hb Ab)].
      exact (inv_inj V st' I' a' b' ra rb Aa Ab Eab). }
    split; [exact Hi|].
    unfold tree. rewrite (erase_dict_image (look V st') (sigma_of V st') Hs n HQ false).
    assert (W' : wf V (ren V (sigma_of V st') (erase V false n))) by (apply wf_ren; exact W).
    split.
    - destruct (vector_cn V bin un _ [] W') as [_ [Ec _]]. rewrite Ec. apply prior_count_ren.
      intros a b Ha Hb. apply Hi; apply (erase_ids_incl V n false); assumption.
    - intro a. rewrite inst_cn. apply inst_ren.
  Qed.
End P6.
