(* C08 lemmas, part 1: induction principle for stored models, the pure renaming map [smap], the
   traversal [tnode] when it is pure (pickle, database, renumbering), and the ModelTree view of a renaming. *)
From Coq Require Import List String Bool Arith PeanoNat Lia.
From PAFC01 Require Import ModelTree Proofs.
From PAFC08 Require Import Model Lib.
Import ListNotations.
Local Open Scope string_scope.
Local Open Scope list_scope.

Section P1.
  Variable V : Type.
  Notation snode := (snode V).
  Notation pspec := (pspec V).
  Notation expr := (expr V).
  Notation assertion := (assertion V).

  (* ---------- induction over the nested tree ---------- *)
  Section Ind.
    Variable P : snode -> Prop.
    Hypothesis Hp : forall p sp, P (SPrior p sp).
    Hypothesis Hc : forall v, P (SConst v).
    Hypothesis Hd : forall items, P (SDict items).
    Hypothesis Hn : forall k ch asr, Forall (fun kc => P (snd kc)) ch -> P (SNode k ch asr).
    Fixpoint snode_ind' (n : snode) : P n :=
      match n with
      | SPrior p sp => Hp p sp
      | SConst v => Hc v
      | SDict items => Hd items
      | SNode k ch asr =>
          Hn k ch asr ((fix go (ch : list (string * snode)) : Forall (fun kc => P (snd kc)) ch :=
                          match ch with
                          | [] => Forall_nil _
                          | x :: r => Forall_cons x (snode_ind' (snd x)) (go r)
                          end) ch)
      end.
  End Ind.

  (* ---------- every prior occurrence (tree, then assertions, in traversal order) ---------- *)
  Fixpoint expr_occs (e : expr) : list (nat * pspec) :=
    match e with EPrior p sp => [(p, sp)] | EConst _ => [] | EBin _ l r => expr_occs l ++ expr_occs r
               | EUn _ x => expr_occs x end.
  Fixpoint assert_occs (a : assertion) : list (nat * pspec) :=
    match a with ALt l g | ALe l g => expr_occs l ++ expr_occs g | AAnd a b => assert_occs a ++ assert_occs b end.
  Fixpoint occs (n : snode) : list (nat * pspec) :=
    match n with
    | SPrior p sp => [(p, sp)]
    | SConst _ | SDict _ => []
    | SNode _ ch asr =>
        (fix go (ch : list (string * snode)) : list (nat * pspec) :=
           match ch with [] => [] | (_, c) :: r => occs c ++ go r end) ch ++ flat_map assert_occs asr
    end.
  Definition node_ids (n : snode) : list nat := map fst (occs n).

  Definition ch_occs (ch : list (string * snode)) : list (nat * pspec) := flat_map (fun kc => occs (snd kc)) ch.

  Lemma occs_node (k : kind) (ch : list (string * snode)) (asr : list assertion) :
    occs (SNode k ch asr) = ch_occs ch ++ flat_map assert_occs asr.
  Proof.
    cbn [occs]. f_equal. unfold ch_occs. induction ch as [|[nm c] ch IH]; simpl; [reflexivity|]. rewrite IH. reflexivity.
  Qed.

  (* a predicate on every node of the tree *)
  Fixpoint forall_nodes (Q : snode -> bool) (n : snode) : bool :=
    Q n && match n with
           | SNode _ ch _ =>
               (fix go (ch : list (string * snode)) : bool :=
                  match ch with [] => true | (_, c) :: r => forall_nodes Q c && go r end) ch
           | _ => true
           end.

  Lemma forall_nodes_node (Q : snode -> bool) (k : kind) (ch : list (string * snode)) (asr : list assertion) :
    forall_nodes Q (SNode k ch asr) = Q (SNode k ch asr) && forallb (fun kc => forall_nodes Q (snd kc)) ch.
  Proof.
    cbn [forall_nodes]. f_equal. induction ch as [|[nm c] ch IH]; simpl; [reflexivity|]. rewrite IH. reflexivity.
  Qed.

  Lemma forall_nodes_top (Q : snode -> bool) (n : snode) : forall_nodes Q n = true -> Q n = true.
  Proof. destruct n; simpl; intro H; apply andb_true_iff in H; tauto. Qed.

  (* ---------- the pure map ---------- *)
  Section Map.
    Variable f : nat -> pspec -> nat * pspec.

    Fixpoint emap (e : expr) : expr :=
      match e with
      | EPrior p sp => EPrior (fst (f p sp)) (snd (f p sp))
      | EConst v => EConst v
      | EBin o l r => EBin o (emap l) (emap r)
      | EUn o x => EUn o (emap x)
      end.
    Fixpoint amap (a : assertion) : assertion :=
      match a with
      | ALt l g => ALt (emap l) (emap g)
      | ALe l g => ALe (emap l) (emap g)
      | AAnd a b => AAnd (amap a) (amap b)
      end.
    Fixpoint smap (n : snode) : snode :=
      match n with
      | SPrior p sp => SPrior (fst (f p sp)) (snd (f p sp))
      | SConst v => SConst v
      | SDict items => SDict items
      | SNode k ch asr =>
          SNode k ((fix go (ch : list (string * snode)) : list (string * snode) :=
                      match ch with [] => [] | (nm, c) :: r => (nm, smap c) :: go r end) ch)
                (map amap asr)
      end.
    Definition chmap (ch : list (string * snode)) : list (string * snode) := map (fun kc => (fst kc, smap (snd kc))) ch.

    Lemma smap_node (k : kind) (ch : list (string * snode)) (asr : list assertion) :
      smap (SNode k ch asr) = SNode k (chmap ch) (map amap asr).
    Proof.
      cbn [smap]. f_equal. unfold chmap. induction ch as [|[nm c] ch IH]; simpl; [reflexivity|]. rewrite IH. reflexivity.
    Qed.

    Lemma expr_occs_emap (e : expr) : expr_occs (emap e) = map (fun ps => f (fst ps) (snd ps)) (expr_occs e).
    Proof.
      induction e as [p sp|v|o l IHl r IHr|o x IHx]; simpl; [destruct (f p sp); reflexivity|reflexivity| |exact IHx].
      rewrite map_app, IHl, IHr. reflexivity.
    Qed.
    Lemma assert_occs_amap (a : assertion) : assert_occs (amap a) = map (fun ps => f (fst ps) (snd ps)) (assert_occs a).
    Proof.
      induction a as [l g|l g|a IHa b IHb]; simpl; rewrite map_app;
        [rewrite !expr_occs_emap|rewrite !expr_occs_emap|rewrite IHa, IHb]; reflexivity.
    Qed.
    Lemma occs_smap (n : snode) : occs (smap n) = map (fun ps => f (fst ps) (snd ps)) (occs n).
    Proof.
      induction n as [p sp|v|items|k ch asr IH] using snode_ind'.
      - simpl. destruct (f p sp); reflexivity.
      - reflexivity.
      - reflexivity.
      - rewrite smap_node, !occs_node, map_app. f_equal.
        + unfold ch_occs, chmap. induction ch as [|[nm c] ch IHc]; [reflexivity|].
          inversion IH as [|? ? H1 H2]; subst. simpl in *. rewrite map_app, H1, (IHc H2). reflexivity.
        + induction asr as [|a asr IHa]; [reflexivity|]. simpl. rewrite map_app, assert_occs_amap, IHa. reflexivity.
    Qed.
  End Map.

  (* two maps that agree on the occurrences of a model give the same result *)
  Lemma emap_ext (f g : nat -> pspec -> nat * pspec) (e : expr) :
    (forall p sp, In (p, sp) (expr_occs e) -> f p sp = g p sp) -> emap f e = emap g e.
  Proof.
    induction e as [p sp|v|o l IHl r IHr|o x IHx]; simpl; intro H.
    - rewrite (H p sp); [reflexivity|left; reflexivity].
    - reflexivity.
    - rewrite IHl, IHr; [reflexivity| |]; intros p sp Hin; apply H; apply in_or_app; auto.
    - rewrite (IHx H). reflexivity.
  Qed.
  Lemma amap_ext (f g : nat -> pspec -> nat * pspec) (a : assertion) :
    (forall p sp, In (p, sp) (assert_occs a) -> f p sp = g p sp) -> amap f a = amap g a.
  Proof.
    induction a as [l r|l r|a IHa b IHb]; simpl; intro H.
    - rewrite (emap_ext f g l), (emap_ext f g r); [reflexivity| |]; intros p sp Hin; apply H; apply in_or_app; auto.
    - rewrite (emap_ext f g l), (emap_ext f g r); [reflexivity| |]; intros p sp Hin; apply H; apply in_or_app; auto.
    - rewrite IHa, IHb; [reflexivity| |]; intros p sp Hin; apply H; apply in_or_app; auto.
  Qed.
  Lemma amaps_ext (f g : nat -> pspec -> nat * pspec) (asr : list assertion) :
    (forall p sp, In (p, sp) (flat_map assert_occs asr) -> f p sp = g p sp) -> map (amap f) asr = map (amap g) asr.
  Proof.
    induction asr as [|a asr IH]; simpl; intro H; [reflexivity|].
    rewrite (amap_ext f g a), IH; [reflexivity| |]; intros p sp Hin; apply H; apply in_or_app; auto.
  Qed.
  Lemma smap_ext (f g : nat -> pspec -> nat * pspec) (n : snode) :
    (forall p sp, In (p, sp) (occs n) -> f p sp = g p sp) -> smap f n = smap g n.
  Proof.
    induction n as [p sp|v|items|k ch asr IH] using snode_ind'; intro H.
    - simpl. rewrite (H p sp); [reflexivity|left; reflexivity].
    - reflexivity.
    - reflexivity.
    - rewrite !smap_node. rewrite occs_node in H. f_equal.
      + unfold chmap. assert (Hc : forall p sp, In (p, sp) (ch_occs ch) -> f p sp = g p sp)
          by (intros; apply H; apply in_or_app; auto).
        clear H. induction ch as [|[nm c] ch IHc]; [reflexivity|].
        inversion IH as [|? ? H1 H2]; subst. simpl in *. f_equal.
        * f_equal. apply H1. intros p sp Hin. apply Hc. apply in_or_app. auto.
        * apply IHc; [exact H2|]. intros p sp Hin. apply Hc. apply in_or_app. auto.
      + apply amaps_ext. intros p sp Hin. apply H. apply in_or_app. auto.
  Qed.

  (* ---------- the traversal, unfolded one level ---------- *)
  Section Trav.
    Variable S : Type.
    Variable fprior : nat -> pspec -> S -> outcome ((nat * pspec) * S).
    Variable fdict : list (string * V) -> list (string * V).
    Variable pre : snode -> option err.
    Variable skip_asr : snode -> bool.
    Variable post : snode -> list (string * snode) -> list assertion -> snode.
    Notation tnode := (tnode V S fprior fdict pre skip_asr post).
    Notation tasserts := (tasserts V S fprior).

    Fixpoint tchildren (ch : list (string * snode)) (st : S) : outcome (list (string * snode) * S) :=
      match ch with
      | [] => Ok ([], st)
      | (nm, c) :: r => bind (tnode c st) (fun x => bind (tchildren r (snd x)) (fun y => Ok ((nm, fst x) :: fst y, snd y)))
      end.

    Lemma tnode_node (k : kind) (ch : list (string * snode)) (asr : list assertion) (st : S) :
      tnode (SNode k ch asr) st =
      match pre (SNode k ch asr) with
      | Some e => Err e
      | None =>
          bind (tchildren ch st)
               (fun x => if skip_asr (SNode k ch asr) then Ok (post (SNode k ch asr) (fst x) [], snd x)
                         else bind (tasserts asr (snd x)) (fun y => Ok (post (SNode k ch asr) (fst x) (fst y), snd y)))
      end.
    Proof.
      cbn [Model.tnode]. destruct (pre (SNode k ch asr)); reflexivity.
    Qed.
  End Trav.

  (* ---------- a traversal without state is the pure map ---------- *)
  Section Pure.
    Variable fprior : nat -> pspec -> unit -> outcome ((nat * pspec) * unit).
    Variable fdict : list (string * V) -> list (string * V).
    Variable pre : snode -> option err.
    Variable skip_asr : snode -> bool.
    Variable post : snode -> list (string * snode) -> list assertion -> snode.
    Variable f : nat -> pspec -> nat * pspec.
    Variable Q : snode -> bool.          (* nodes on which the traversal is inert *)
    Variable R : nat -> pspec -> bool.   (* prior occurrences on which fprior succeeds as f *)
    Hypothesis HR : forall p sp, R p sp = true -> fprior p sp tt = Ok (f p sp, tt).
    Hypothesis Hpre : forall m, Q m = true -> pre m = None.
    Hypothesis Hskip : forall m, Q m = true -> skip_asr m = false.
    Hypothesis Hpost : forall m ch asr, Q m = true -> post m ch asr = rebuild_same V m ch asr.
    Hypothesis Hdict : forall items, Q (SDict items) = true -> fdict items = items.

    Definition occs_ok (l : list (nat * pspec)) : Prop := forall p sp, In (p, sp) l -> R p sp = true.

    Lemma texpr_pure (e : expr) : occs_ok (expr_occs e) -> texpr V unit fprior e tt = Ok (emap f e, tt).
    Proof.
      induction e as [p sp|v|o l IHl r IHr|o x IHx]; intro H; cbn [texpr emap].
      - rewrite (HR p sp); [reflexivity|apply H; left; reflexivity].
      - reflexivity.
      - rewrite IHl by (intros p sp Hin; apply H; simpl; apply in_or_app; auto). cbn [bind fst snd].
        rewrite IHr by (intros p sp Hin; apply H; simpl; apply in_or_app; auto). reflexivity.
      - rewrite (IHx H). reflexivity.
    Qed.

    Lemma tassert_pure (a : assertion) : occs_ok (assert_occs a) -> tassert V unit fprior a tt = Ok (amap f a, tt).
    Proof.
      induction a as [l g|l g|a IHa b IHb]; intro H; cbn [tassert amap].
      - rewrite (texpr_pure l) by (intros p sp Hin; apply H; simpl; apply in_or_app; auto). cbn [bind fst snd].
        rewrite (texpr_pure g) by (intros p sp Hin; apply H; simpl; apply in_or_app; auto). reflexivity.
      - rewrite (texpr_pure l) by (intros p sp Hin; apply H; simpl; apply in_or_app; auto). cbn [bind fst snd].
        rewrite (texpr_pure g) by (intros p sp Hin; apply H; simpl; apply in_or_app; auto). reflexivity.
      - rewrite IHa by (intros p sp Hin; apply H; simpl; apply in_or_app; auto). cbn [bind fst snd].
        rewrite IHb by (intros p sp Hin; apply H; simpl; apply in_or_app; auto). reflexivity.
    Qed.

    Lemma tasserts_pure (asr : list assertion) :
      occs_ok (flat_map assert_occs asr) -> tasserts V unit fprior asr tt = Ok (map (amap f) asr, tt).
    Proof.
      induction asr as [|a asr IH]; intro H; [reflexivity|]. cbn [tasserts map].
      rewrite tassert_pure by (intros p sp Hin; apply H; simpl; apply in_or_app; auto). cbn [bind fst snd].
      rewrite IH by (intros p sp Hin; apply H; simpl; apply in_or_app; auto). reflexivity.
    Qed.

    Lemma tnode_pure (n : snode) :
      forall_nodes Q n = true -> occs_ok (occs n) ->
      tnode V unit fprior fdict pre skip_asr post n tt = Ok (smap f n, tt).
    Proof.
      induction n as [p sp|v|items|k ch asr IH] using snode_ind'; intros HQ HO.
      - cbn [tnode smap]. rewrite (HR p sp); [reflexivity|apply HO; left; reflexivity].
      - reflexivity.
      - cbn [tnode smap]. rewrite Hdict; [reflexivity|]. exact (forall_nodes_top Q _ HQ).
      - rewrite tnode_node. rewrite forall_nodes_node in HQ. apply andb_true_iff in HQ. destruct HQ as [Qn Qc].
        rewrite (Hpre _ Qn), (Hskip _ Qn). rewrite occs_node in HO.
        assert (Hch : tchildren unit fprior fdict pre skip_asr post ch tt = Ok (chmap f ch, tt)).
        { assert (HOc : occs_ok (ch_occs ch)) by (intros p sp Hin; apply HO; apply in_or_app; auto).
          clear HO Qn. induction ch as [|[nm c] ch IHc]; [reflexivity|].
          inversion IH as [|? ? H1 H2]; subst. simpl in Qc. apply andb_true_iff in Qc. destruct Qc as [Q1 Q2].
          cbn [tchildren]. simpl in H1. rewrite H1; [|exact Q1|intros p sp Hin; apply HOc; simpl; apply in_or_app; auto].
          cbn [bind fst snd]. rewrite IHc; [reflexivity|exact H2|exact Q2|].
          intros p sp Hin. apply HOc. simpl. apply in_or_app. auto. }
        rewrite Hch. cbn [bind fst snd].
        rewrite tasserts_pure by (intros p sp Hin; apply HO; apply in_or_app; auto). cbn [bind fst snd].
        rewrite (Hpost _ _ _ Qn). rewrite smap_node. reflexivity.
    Qed.
  End Pure.

  (* ---------- the ModelTree view of a renaming ---------- *)
  Section Tree.
    Variable f : nat -> pspec -> nat * pspec.
    Variable s : nat -> nat.
    Hypothesis Hf : forall p sp, fst (f p sp) = s p.

    Definition ech (b : bool) (ch : list (string * snode)) : list (string * node V) :=
      map (fun kc => (fst kc, erase V b (snd kc))) ch.

    Lemma erase_children (b : bool) (ch : list (string * snode)) :
      (fix go (ch : list (string * snode)) : list (string * node V) :=
         match ch with [] => [] | (nm, c) :: r => (nm, erase V b c) :: go r end) ch = ech b ch.
    Proof. induction ch as [|[nm c] ch IH]; simpl; [reflexivity|]. rewrite IH. reflexivity. Qed.

    Lemma zip_members_ren (ch : list (string * node V)) (idx : list nat) :
      zip_members V (ren_attrs V s ch) idx = ren_members V s (zip_members V ch idx).
    Proof.
      revert idx. induction ch as [|[nm c] ch IH]; intros [|i idx]; simpl; try reflexivity.
      rewrite IH. reflexivity.
    Qed.

    Lemma erase_smap (n : snode) : forall b, erase V b (smap f n) = ren V s (erase V b n).
    Proof.
      induction n as [p sp|v|items|k ch asr IH] using snode_ind'; intro b.
      - simpl. rewrite Hf. reflexivity.
      - reflexivity.
      - cbn [smap erase ren]. f_equal. rewrite ren_attrs_eq. unfold ren_attrs. rewrite map_map. reflexivity.
      - rewrite smap_node.
        assert (E : forall b', ech b' (chmap f ch) = ren_attrs V s (ech b' ch)).
        { intro b'. unfold ech, chmap, ren_attrs. rewrite !map_map. apply map_ext_in. intros [nm c] Hin. simpl.
          rewrite Forall_forall in IH. pose proof (IH _ Hin b') as E0. simpl in E0. rewrite E0. reflexivity. }
        cbn [erase]. rewrite !erase_children. destruct k as [cls ctor| |idx|o|uo|cls ctor].
        + rewrite E. cbn [ren]. rewrite ren_attrs_eq. reflexivity.
        + rewrite E. cbn [ren]. rewrite ren_attrs_eq. reflexivity.
        + destruct b.
          * rewrite E. cbn [ren]. rewrite ren_attrs_eq. reflexivity.
          * rewrite E. cbn [ren]. rewrite ren_members_eq. rewrite zip_members_ren. reflexivity.
        + rewrite E. destruct (ech false ch) as [|[ln l] [|[rn r] [|x t]]]; try reflexivity.
        + rewrite E. destruct (ech false ch) as [|[nm c] [|x t]]; try reflexivity.
        + rewrite E. cbn [ren]. rewrite ren_attrs_eq. reflexivity.
    Qed.

    Lemma tree_smap (n : snode) : tree V (smap f n) = ren V s (tree V n).
    Proof. apply erase_smap. Qed.
  End Tree.
End P1.
