(* Non-vacuity of the hypotheses of the history theorems (History.v): a codec that renames (enc adds 100, dec
   takes it off), raises on one input, and an equivalence that one trip respects. *)
From Coq Require Import List Bool Arith.
Import ListNotations.
From PAFC08 Require Import History.

Definition w_enc (m : nat) : option nat := if Nat.eqb m 7 then None else Some (m + 100).
Definition w_dec (r : nat) : nat := r - 100.

(* most recent first: fit0 = 1; add; commit; fit0 = 2 (not flushed); fit1 = 5; fit0 = 7 (raises); write-back; reload *)
Definition w_hist : list (op nat) :=
  [Reload nat; WriteBack nat 0; Write nat 0 7; Write nat 1 5; Write nat 0 2; Flush nat; Add nat 0; Write nat 0 1].

Example history_hyps_inhabited :
  (forall a b c : nat, a = b -> b = c -> a = c) /\ (forall m r, w_enc m = Some r -> m = w_dec r).
Proof.
  split; [intros; congruence |].
  intros m r H. unfold w_enc in H. destruct (Nat.eqb m 7); [discriminate |].
  inversion H. unfold w_dec. rewrite Nat.add_sub. reflexivity.
Qed.

Example history_witness :
  last_write nat nat w_enc w_hist 0 = Some 2 /\ read nat nat w_dec (run nat nat w_enc w_dec w_hist) 0 = Some 2 /\
  read nat nat w_dec (run nat nat w_enc w_dec w_hist) 1 = Some 5 /\
  in_session nat (run nat nat w_enc w_dec w_hist 0) = true /\ stored nat (run nat nat w_enc w_dec w_hist 0) = Some 102 /\
  stored nat (run nat nat w_enc w_dec w_hist 1) = None.
Proof. vm_compute. repeat split. Qed.

(* a store that answers reads from a cache filled by the first read and keyed by something a write does not
   change (the class of defect this stream exists for) is NOT this machine: write 1, read, write 2, read *)
Example stale_cache_refuted :
  let cached_read := Some 1 in
  read nat nat w_dec (run nat nat w_enc w_dec [Write nat 0 2; Write nat 0 1]) 0 <> cached_read.
Proof. vm_compute. discriminate. Qed.
