(* C08: the unary node (ModifiedPrior: -x, abs(x)) under the three storage forms.
   Unlike a CompoundPrior (whose operand names are recomputed on reload: left_ / right_), a ModifiedPrior writes the
   attribute name of its operand (dict: "name"; database: the child row's name; pickle: the object graph) and gets it
   back (`name=` argument of ModifiedPrior.__init__): kind, operator and name survive, so that unary nodes stay inside
   the guards of the round-trip theorems (equivalence, not merely equal values). *)
From Coq Require Import List String Bool Arith PeanoNat.
From PAFC01 Require Import ModelTree Proofs.
From PAFC08 Require Import Model Lib Proofs1 Proofs2 Proofs3 Proofs5.
Import ListNotations.
Local Open Scope string_scope.
Local Open Scope list_scope.

Section U.
  Variable V : Type.
  Variable falsy : V -> bool.
  Variable cf : cfg.
  Notation snode := (snode V).

  (* what each codec rebuilds from the reloaded operand and assertions *)
  Theorem unary_rebuilt (o : unop) (ch0 ch : list (string * snode)) (a0 a : list (assertion V)) :
    dict_post V cf (SNode (KUn o) ch0 a0) ch a = SNode (KUn o) ch a /\
    rebuild_bin_default V (SNode (KUn o) ch0 a0) ch a = SNode (KUn o) ch a /\
    rebuild_same V (SNode (KUn o) ch0 a0) ch a = SNode (KUn o) ch a.
  Proof. repeat split; reflexivity. Qed.

  (* a unary node never leaves the guards of the round-trip theorems (a binary arithmetic prior does) *)
  Theorem unary_in_guards (o : unop) (ch : list (string * snode)) (a : list (assertion V)) :
    dict_node_ok V falsy cf (SNode (KUn o) ch a) = true /\
    db_node_ok V cf (SNode (KUn o) ch a) = (fix_chain cf || negb (existsb (is_and V) a)) /\
    dict_pre V cf (SNode (KUn o) ch a) = None /\ as_instance V cf (SNode (KUn o) ch a) = false.
  Proof. repeat split; reflexivity. Qed.

  (* its ModelTree view: the NUn node of C01 over the view of the operand, under the stored name *)
  Theorem unary_tree (o : unop) (nm : string) (c : snode) (a : list (assertion V)) :
    tree V (SNode (KUn o) [(nm, c)] a) = NUn o nm (tree V c).
  Proof. reflexivity. Qed.

  (* the canonical renaming of operand names that dict / database reloads perform on CompoundPriors leaves it alone *)
  Theorem unary_name_canonical (o : unop) (nm : string) (c : node V) :
    cn V (NUn o nm c) = NUn o nm (cn V c) /\
    forall s, ren V s (NUn o nm c) = NUn o nm (ren V s c).
  Proof. split; [reflexivity|intro s; reflexivity]. Qed.
End U.
