(* C08 lemmas, part 5: the traversal in general (arithmetic priors, components without free parameters,
   dict constants included): it computes the declarative image [pmap] of the model -- for the stateless
   codecs directly, for the memoising dict decoder under its FINAL lookup table.  Consequences for models
   with arithmetic priors, whose attribute names are not stored. *)
From Coq Require Import List String Bool Arith PeanoNat Lia Permutation Sorted.
From PAFC01 Require Import ModelTree Sorting Proofs Proofs2 Proofs3.
From PAFC08 Require Import Model Lib Proofs1 Proofs2 Proofs3 Proofs4.
Import ListNotations.
Local Open Scope string_scope.
Local Open Scope list_scope.

Section P5.
  Variable V : Type.
  Notation snode := (snode V).
  Notation pspec := (pspec V).
  Notation assertion := (assertion V).

  (* ---------- the declarative image ---------- *)
  Section Image.
    Variable f : nat -> pspec -> nat * pspec.
    Variable fd : list (string * V) -> list (string * V).
    Variable skip : snode -> bool.
    Variable post : snode -> list (string * snode) -> list assertion -> snode.

    Fixpoint pmap (n : snode) : snode :=
      match n with
      | SPrior p sp => SPrior (fst (f p sp)) (snd (f p sp))
      | SConst v => SConst v
      | SDict items => SDict (fd items)
      | SNode k ch asr =>
          post n ((fix go (ch : list (string * snode)) : list (string * snode) :=
                     match ch with [] => [] | (nm, c) :: r => (nm, pmap c) :: go r end) ch)
               (if skip n then [] else map (amap V f) asr)
      end.
    Definition pchmap (ch : list (string * snode)) : list (string * snode) := map (fun kc => (fst kc, pmap (snd kc))) ch.

    Lemma pmap_node (k : kind) (ch : list (string * snode)) (asr : list assertion) :
      pmap (SNode k ch asr) = post (SNode k ch asr) (pchmap ch) (if skip (SNode k ch asr) then [] else map (amap V f) asr).
    Proof.
      cbn [pmap]. f_equal. unfold pchmap. induction ch as [|[nm c] ch IH]; simpl; [reflexivity|]. rewrite IH. reflexivity.
    Qed.
  End Image.

  (* occurrences the traversal visits: assertions of skipped nodes are not read *)
  Section Visited.
    Variable skip : snode -> bool.
    Fixpoint vocc (n : snode) : list (nat * pspec) :=
      match n with
      | SPrior p sp => [(p, sp)]
      | SConst _ | SDict _ => []
      | SNode _ ch asr =>
          (fix go (ch : list (string * snode)) : list (nat * pspec) :=
             match ch with [] => [] | (_, c) :: r => vocc c ++ go r end) ch
          ++ (if skip n then [] else flat_map (assert_occs V) asr)
      end.
    Definition ch_vocc (ch : list (string * snode)) : list (nat * pspec) := flat_map (fun kc => vocc (snd kc)) ch.
    Lemma vocc_node (k : kind) (ch : list (string * snode)) (asr : list assertion) :
      vocc (SNode k ch asr) = ch_vocc ch ++ (if skip (SNode k ch asr) then [] else flat_map (assert_occs V) asr).
    Proof.
      cbn [vocc]. f_equal. unfold ch_vocc. induction ch as [|[nm c] ch IH]; simpl; [reflexivity|]. rewrite IH. reflexivity.
    Qed.
  End Visited.

  Lemma pmap_ext (f g : nat -> pspec -> nat * pspec) fd skip post (n : snode) :
    (forall p sp, In (p, sp) (vocc skip n) -> f p sp = g p sp) -> pmap f fd skip post n = pmap g fd skip post n.
  Proof.
    induction n as [p sp|v|items|k ch asr IH] using (snode_ind' V); intro H.
    - simpl. rewrite (H p sp); [reflexivity|left; reflexivity].
    - reflexivity.
    - reflexivity.
    - rewrite !pmap_node. rewrite vocc_node in H. f_equal.
      + unfold pchmap. assert (Hc : forall p sp, In (p, sp) (ch_vocc skip ch) -> f p sp = g p sp)
          by (intros; apply H; apply in_or_app; auto).
        clear H. induction ch as [|[nm c] ch IHc]; [reflexivity|].
        inversion IH as [|? ? H1 H2]; subst. simpl in *. f_equal.
        * f_equal. apply H1. intros p sp Hin. apply Hc. unfold ch_vocc. simpl. apply in_or_app. auto.
        * apply IHc; [exact H2|]. intros p sp Hin. apply Hc. unfold ch_vocc. simpl. apply in_or_app. auto.
      + destruct (skip (SNode k ch asr)); [reflexivity|]. apply amaps_ext. intros p sp Hin. apply H. apply in_or_app. auto.
  Qed.

  (* ---------- stateless traversals ---------- *)
  Section Pure.
    Variable fprior : nat -> pspec -> unit -> outcome ((nat * pspec) * unit).
    Variable fdict : list (string * V) -> list (string * V).
    Variable pre : snode -> option err.
    Variable skip : snode -> bool.
    Variable post : snode -> list (string * snode) -> list assertion -> snode.
    Variable f : nat -> pspec -> nat * pspec.
    Variable R : nat -> pspec -> bool.
    Hypothesis HR : forall p sp, R p sp = true -> fprior p sp tt = Ok (f p sp, tt).

    Lemma tnode_pure_gen (n : snode) :
      forall_nodes V (fun m => match pre m with None => true | Some _ => false end) n = true ->
      (forall p sp, In (p, sp) (vocc skip n) -> R p sp = true) ->
      tnode V unit fprior fdict pre skip post n tt = Ok (pmap f fdict skip post n, tt).
    Proof.
      induction n as [p sp|v|items|k ch asr IH] using (snode_ind' V); intros HQ HO.
      - cbn [tnode pmap]. rewrite (HR p sp); [reflexivity|apply HO; left; reflexivity].
      - reflexivity.
      - reflexivity.
      - rewrite tnode_node. rewrite forall_nodes_node in HQ. apply andb_true_iff in HQ. destruct HQ as [Qn Qc].
        destruct (pre (SNode k ch asr)); [discriminate|]. rewrite vocc_node in HO.
        assert (Hch : tchildren V unit fprior fdict pre skip post ch tt = Ok (pchmap f fdict skip post ch, tt)).
        { assert (HOc : forall p sp, In (p, sp) (ch_vocc skip ch) -> R p sp = true) by (intros p sp Hin; apply HO; apply in_or_app; auto).
          clear HO Qn. induction ch as [|[nm c] ch IHc]; [reflexivity|].
          inversion IH as [|? ? H1 H2]; subst. simpl in Qc. apply andb_true_iff in Qc. destruct Qc as [Q1 Q2].
          cbn [tchildren]. simpl in H1.
          rewrite H1; [|exact Q1|intros p sp Hin; apply HOc; unfold ch_vocc; simpl; apply in_or_app; auto].
          cbn [bind fst snd]. rewrite IHc; [reflexivity|exact H2|exact Q2|].
          intros p sp Hin. apply HOc. unfold ch_vocc. simpl. apply in_or_app. auto. }
        rewrite Hch. cbn [bind fst snd]. rewrite pmap_node.
        destruct (skip (SNode k ch asr)); [reflexivity|].
        rewrite (tasserts_pure V fprior f R HR) by (intros p sp Hin; apply HO; apply in_or_app; auto). reflexivity.
    Qed.
  End Pure.

  (* ---------- the memoising dict decoder, in general ---------- *)
  Section Dict.
    Variable falsy : V -> bool.
    Variable cf : cfg.
    Notation dstate := (dstate V).
    Notation fdict := (dict_filter V falsy cf).
    Notation pre := (dict_pre V cf).
    Notation skip := (as_instance V cf).
    Notation post := (dict_post V cf).
    Notation dnode := (tnode V dstate (dict_prior V cf) fdict pre skip post).
    Notation dchildren := (tchildren V dstate (dict_prior V cf) fdict pre skip post).
    Notation image := (fun f => pmap f fdict skip post).

    Lemma pchmap_ext (f g : nat -> pspec -> nat * pspec) (ch : list (string * snode)) :
      agree V f g (ch_vocc skip ch) -> pchmap f fdict skip post ch = pchmap g fdict skip post ch.
    Proof.
      induction ch as [|[nm c] ch IH]; intro A; [reflexivity|]. unfold pchmap in *. simpl. f_equal.
      - f_equal. apply pmap_ext. intros p sp Hin. apply A. unfold ch_vocc. simpl. apply in_or_app. auto.
      - apply IH. intros p sp Hin. apply A. unfold ch_vocc. simpl. apply in_or_app. auto.
    Qed.

    Lemma memo_node_gen (n : snode) :
      forall_nodes V (fun m => match pre m with None => true | Some _ => false end) n = true ->
      ok_all V cf (vocc skip n) -> memo V dnode image (vocc skip) n.
    Proof.
      induction n as [p sp|v|items|k ch asr IH] using (snode_ind' V); intros HQ HO.
      - intros st I. destruct (memo_prior V cf p sp (HO p sp (or_introl eq_refl)) st I) as [st' [E R]].
        exists st'. cbn [fst snd] in E. cbn [tnode pmap vocc]. rewrite E. cbn [bind fst snd].
        split; [destruct (look V st' p sp); reflexivity|exact R].
      - intros st I. exists st. repeat split; try apply I; auto; try lia; [intros p sp []|apply from_refl].
      - intros st I. exists st. repeat split; try apply I; auto; try lia; [intros p sp []|apply from_refl].
      - rewrite forall_nodes_node in HQ. apply andb_true_iff in HQ. destruct HQ as [Qn Qc].
        rewrite vocc_node in HO.
        assert (Mch : memo V dchildren (fun f => pchmap f fdict skip post) (ch_vocc skip) ch).
        { assert (HOc : ok_all V cf (ch_vocc skip ch)) by (intros p sp Hin; apply HO; apply in_or_app; auto).
          clear HO Qn. induction ch as [|[nm c] ch IHc].
          - intros st I. exists st. repeat split; try apply I; auto; try lia; [intros p sp []|apply from_refl].
          - inversion IH as [|? ? H1 H2]; subst. simpl in Qc. apply andb_true_iff in Qc. destruct Qc as [Q1 Q2].
            simpl in H1.
            assert (O1 : ok_all V cf (vocc skip c)) by (intros p sp Hin; apply HOc; unfold ch_vocc; simpl; apply in_or_app; auto).
            assert (O2 : ok_all V cf (ch_vocc skip ch)) by (intros p sp Hin; apply HOc; unfold ch_vocc; simpl; apply in_or_app; auto).
            intros st I.
            destruct (memo_seq V _ _ _ c _ _ _ ch (H1 Q1 O1) (IHc H2 Q2 O2)
                               (fun f g0 A => pmap_ext f g0 fdict skip post c A) st I)
              as [st1 [st2 [E1 [E2 R]]]].
            exists st2. cbn [tchildren]. rewrite E1. cbn [bind fst snd]. rewrite E2. cbn [bind fst snd].
            split; [reflexivity|exact R]. }
        intros st I. rewrite tnode_node. destruct (pre (SNode k ch asr)); [discriminate|].
        cbv beta. setoid_rewrite pmap_node. rewrite vocc_node. destruct (skip (SNode k ch asr)) eqn:SK.
        + destruct (Mch st I) as [st' [E [I' [X [C F]]]]]. cbv beta in E. exists st'. rewrite E. cbn [bind fst snd].
          rewrite app_nil_r. repeat split; try apply I'; try apply X; assumption.
        + assert (Mas : memo V (tasserts V dstate (dict_prior V cf)) (fun f => map (amap V f)) (flat_map (assert_occs V)) asr).
          { apply memo_asserts. intros p sp Hin. apply HO. apply in_or_app. auto. }
          destruct (memo_seq V _ _ _ ch _ _ _ asr Mch Mas (fun f g0 A => pchmap_ext f g0 ch A) st I)
            as [st1 [st2 [E1 [E2 R]]]].
          exists st2. rewrite E1. cbn [bind fst snd]. rewrite E2. cbn [bind fst snd]. split; [reflexivity|exact R].
    Qed.

    (* the dict round trip of ANY model that the code can write and read back is its declarative image
       under one injective-on-visited-parameters renaming table *)
    Theorem dict_image (n : snode) :
      forall_nodes V (fun m => match pre m with None => true | Some _ => false end) n = true ->
      ok_all V cf (vocc skip n) ->
      exists st', dict_rt V falsy cf n = Ok (pmap (look V st') fdict skip post n) /\ inv V st' /\
                  covers V st' (vocc skip n) /\ from V (mkd V [] (fresh_base V n)) st' (vocc skip n).
    Proof.
      intros HQ HO. unfold dict_rt, dict_rt_from.
      assert (I0 : inv V (mkd V [] (fresh_base V n))) by (split; intros; discriminate).
      destruct (memo_node_gen n HQ HO _ I0) as [st' [E [I' [X [C F]]]]].
      exists st'. rewrite E. cbn [bind fst]. auto.
    Qed.
  End Dict.

  (* ---------- arithmetic priors in the ModelTree: the attribute names do not matter for values ---------- *)
  Section Names.
    Variable bin : binop -> V -> V -> V.
    Variable un : unop -> V -> V.
    Notation node := (node V).

    (* the operands of every arithmetic prior hang under left_ / right_ *)
    Fixpoint cn (n : node) : node :=
      match n with
      | NPrior p => NPrior p
      | NConst v => NConst v
      | NTuple ms =>
          NTuple ((fix go (ms : list (string * (nat * node))) : list (string * (nat * node)) :=
                     match ms with [] => [] | (k, (i, c)) :: r => (k, (i, cn c)) :: go r end) ms)
      | NBin o _ _ l r => NBin o "left_" "right_" (cn l) (cn r)
      | NUn o nm c => NUn o nm (cn c)               (* the operand name of a unary form is stored and read back *)
      | NModel cls ctor attrs =>
          NModel cls ctor ((fix go (a : list (string * node)) : list (string * node) :=
                              match a with [] => [] | (k, c) :: r => (k, cn c) :: go r end) attrs)
      | NColl attrs =>
          NColl ((fix go (a : list (string * node)) : list (string * node) :=
                    match a with [] => [] | (k, c) :: r => (k, cn c) :: go r end) attrs)
      end.

    Definition cn_attrs (a : list (string * node)) : list (string * node) := map (fun kc => (fst kc, cn (snd kc))) a.
    Definition cn_members (ms : list (string * (nat * node))) : list (string * (nat * node)) :=
      map (fun m => (fst m, (fst (snd m), cn (snd (snd m))))) ms.
    Lemma cn_attrs_eq (a : list (string * node)) :
      (fix go (a : list (string * node)) : list (string * node) :=
         match a with [] => [] | (k, c) :: r => (k, cn c) :: go r end) a = cn_attrs a.
    Proof. induction a as [|[k c] a IH]; simpl; [reflexivity|]. rewrite IH. reflexivity. Qed.
    Lemma cn_members_eq (ms : list (string * (nat * node))) :
      (fix go (ms : list (string * (nat * node))) : list (string * (nat * node)) :=
         match ms with [] => [] | (k, (i, c)) :: r => (k, (i, cn c)) :: go r end) ms = cn_members ms.
    Proof. induction ms as [|[k [i c]] ms IH]; simpl; [reflexivity|]. rewrite IH. reflexivity. Qed.

    (* values: an instance never looks at the attribute names of an arithmetic prior *)
    Lemma inst_cn (a : nat -> option V) (n : node) : inst V bin un a (cn n) = inst V bin un a n.
    Proof.
      induction n as [q|c|ms IH|o ln rn l r IHl IHr|uo unm uc IHc|cls ctor attrs IH|attrs IH] using (node_ind' V).
      - reflexivity.
      - reflexivity.
      - cbn [cn]. rewrite cn_members_eq. rewrite !inst_tuple. f_equal. f_equal. unfold member_vals. f_equal.
        unfold cn_members. rewrite map_map. apply map_ext_in. intros [k [i c]] Hin. simpl. f_equal.
        rewrite Forall_forall in IH. exact (IH _ Hin).
      - cbn [cn inst]. rewrite IHl, IHr. reflexivity.
      - cbn [cn inst]. rewrite IHc. destruct uc; reflexivity.
      - cbn [cn inst]. rewrite cn_attrs_eq. rewrite !inst_attrs_map.
        assert (M : map (fun kv => (fst kv, inst V bin un a (snd kv))) (cn_attrs attrs)
                    = map (fun kv => (fst kv, inst V bin un a (snd kv))) attrs).
        { unfold cn_attrs. rewrite map_map. apply map_ext_in. intros [k c] Hin. simpl. f_equal.
          rewrite Forall_forall in IH. exact (IH _ Hin). }
        rewrite M. reflexivity.
      - cbn [cn inst]. rewrite cn_attrs_eq. rewrite !inst_attrs_map. f_equal.
        unfold cn_attrs. rewrite map_map. apply map_ext_in. intros [k c] Hin. simpl. f_equal.
        rewrite Forall_forall in IH. exact (IH _ Hin).
    Qed.

    Lemma snd_prefix (k : string) (l : list (path * nat)) : map snd (prefix_paths k l) = map snd l.
    Proof. unfold prefix_paths. rewrite map_map. reflexivity. Qed.

    (* the parameters (in walk order) of a well-formed model are unchanged *)
    Lemma ids_cn (n : node) : wf V n -> prior_ids V (cn n) = prior_ids V n.
    Proof.
      unfold prior_ids.
      induction n as [q|c|ms IH|o ln rn l r IHl IHr|uo unm uc IHc|cls ctor attrs IH|attrs IH] using (node_ind' V); intro W.
      - reflexivity.
      - reflexivity.
      - cbn [cn walk]. rewrite cn_members_eq. destruct W as [_ W].
        induction ms as [|[k [i c]] ms IHms]; [reflexivity|].
        inversion IH as [|? ? Hc Hr]; subst. simpl in Hc. destruct W as [W1 W2].
        cbn [cn_members map fst snd]. rewrite !map_app, !snd_prefix.
        rewrite (Hc W1). f_equal. apply IHms; assumption.
      - destruct W as [Hne [Wl Wr]]. cbn [cn walk]. simpl.
        destruct (String.eqb_spec ln rn) as [E|_]; [contradiction|].
        rewrite !map_app, !snd_prefix. rewrite (IHl Wl), (IHr Wr). reflexivity.
      - cbn [cn walk]. rewrite !snd_prefix. exact (IHc W).
      - cbn [cn walk]. rewrite cn_attrs_eq. destruct W as [_ W].
        induction attrs as [|[k c] attrs IHa]; [reflexivity|].
        inversion IH as [|? ? Hc Hr]; subst. simpl in Hc. destruct W as [W1 W2].
        cbn [cn_attrs map fst snd]. rewrite !map_app, !snd_prefix.
        rewrite (Hc W1). f_equal. apply IHa; assumption.
      - cbn [cn walk]. rewrite cn_attrs_eq. destruct W as [_ W].
        induction attrs as [|[k c] attrs IHa]; [reflexivity|].
        inversion IH as [|? ? Hc Hr]; subst. simpl in Hc. destruct W as [W1 W2].
        cbn [cn_attrs map fst snd]. rewrite !map_app, !snd_prefix.
        rewrite (Hc W1). f_equal. apply IHa; assumption.
    Qed.

    Lemma ordered_ids_cn (n : node) : wf V n -> ordered_ids V (cn n) = ordered_ids V n.
    Proof.
      intro W. apply strict_sorted_unique; try apply ordered_ids_strict.
      intro q. rewrite !ordered_ids_in, (ids_cn n W). tauto.
    Qed.

    (* same parameter order and count, and the same instance for every parameter vector *)
    Theorem vector_cn (n : node) (vec : list V) :
      wf V n -> ordered_ids V (cn n) = ordered_ids V n /\ prior_count V (cn n) = prior_count V n /\
               inst_from_vector V bin un (cn n) vec = inst_from_vector V bin un n vec.
    Proof.
      intro W. pose proof (ordered_ids_cn n W) as E. split; [exact E|]. split.
      - rewrite <- !ordered_ids_length, E. reflexivity.
      - unfold inst_from_vector. rewrite E. apply inst_cn.
    Qed.
  End Names.

  (* ---------- the database form of a model with arithmetic priors ---------- *)
  Section Db.
    Variable cf : cfg.
    Notation dbpost := (rebuild_bin_default V).
    Notation noskip := (fun _ : snode => false).

    Definition db_chain_ok (n : snode) : bool :=
      match n with SNode _ _ asr => fix_chain cf || negb (existsb (is_and V) asr) | _ => true end.

    Lemma db_pre_chain (m : snode) : db_chain_ok m = true -> db_pre V cf m = None.
    Proof.
      destruct m as [p sp|v|items|k ch asr]; simpl; intro H; try reflexivity.
      destruct (fix_chain cf); simpl in *; [reflexivity|]. destruct (existsb (is_and V) asr); [discriminate|reflexivity].
    Qed.

    Lemma vocc_noskip (n : snode) : vocc noskip n = occs V n.
    Proof.
      induction n as [p sp|v|items|k ch asr IH] using (snode_ind' V); reflexivity.
    Qed.

    Theorem db_image (n : snode) :
      forall_nodes V db_chain_ok n = true -> all_occs V (db_occ_ok V cf) n = true ->
      db_rt V cf n = Ok (pmap (fun p sp => (p, with_mid V sp (Some p))) (fun d => d) noskip dbpost n).
    Proof.
      intros HQ HR. unfold db_rt.
      rewrite (tnode_pure_gen (db_prior V cf) (fun d => d) (db_pre V cf) noskip dbpost
                              (fun p sp => (p, with_mid V sp (Some p))) (db_occ_ok V cf)).
      - reflexivity.
      - intros p sp H. unfold db_prior, db_occ_ok in *. destruct (fix_db_id cf); [reflexivity|]. simpl in H.
        apply onat_eqb_eq in H. rewrite H. reflexivity.
      - apply (forall_nodes_impl V db_chain_ok); [|exact HQ]. intros m H. rewrite (db_pre_chain m H). reflexivity.
      - intros p sp Hin. rewrite vocc_noskip in Hin. exact (all_occs_spec V _ n HR p sp Hin).
    Qed.

    (* ModelTree of the database image: the same tree with the operands of arithmetic priors under left_/right_ *)
    Lemma erase_db_image (n : snode) : forall b,
      erase V b (pmap (fun p sp => (p, with_mid V sp (Some p))) (fun d => d) noskip dbpost n) = cn (erase V b n).
    Proof.
      induction n as [p sp|v|items|k ch asr IH] using (snode_ind' V); intro b.
      - reflexivity.
      - reflexivity.
      - cbn [pmap erase cn]. f_equal. rewrite cn_attrs_eq. unfold cn_attrs. rewrite map_map. reflexivity.
      - rewrite pmap_node.
        set (img := pmap (fun p sp => (p, with_mid V sp (Some p))) (fun d => d) noskip dbpost).
        assert (E : forall b', ech V b' (pchmap (fun p sp => (p, with_mid V sp (Some p))) (fun d => d) noskip dbpost ch)
                              = cn_attrs (ech V b' ch)).
        { intro b'. unfold ech, pchmap, cn_attrs. rewrite !map_map. apply map_ext_in. intros [nm c] Hin. simpl.
          rewrite Forall_forall in IH. pose proof (IH _ Hin b') as E0. simpl in E0. rewrite E0. reflexivity. }
        destruct k as [cls ctor| |idx|o|uo|cls ctor]; cbn [rebuild_bin_default rebuild_same].
        + cbn [erase]. rewrite !erase_children, E. cbn [cn]. rewrite cn_attrs_eq. reflexivity.
        + cbn [erase]. rewrite !erase_children, E. cbn [cn]. rewrite cn_attrs_eq. reflexivity.
        + cbn [erase]. rewrite !erase_children. destruct b.
          * rewrite E. cbn [cn]. rewrite cn_attrs_eq. reflexivity.
          * rewrite E. cbn [cn]. rewrite cn_members_eq. f_equal.
            generalize (ech V false ch). intro l. revert idx. induction l as [|[nm c] l IHl]; intros [|i idx]; simpl; try reflexivity.
            rewrite IHl. reflexivity.
        + (* arithmetic prior *)
          pose proof (E false) as E2. unfold ech in E2.
          destruct ch as [|[ln l] [|[rn r] [|x t]]]; cbn [pchmap map fst snd] in *.
          * reflexivity.
          * reflexivity.
          * cbn [erase]. inversion IH as [|? ? Hl H2]; subst. inversion H2 as [|? ? Hr _]; subst. simpl in Hl, Hr.
            rewrite (Hl false), (Hr false). reflexivity.
          * destruct x as [xn xc]. reflexivity.
        + cbn [erase]. rewrite !erase_children, E. destruct (ech V false ch) as [|[nm c] [|x t]]; reflexivity.
        + cbn [erase]. rewrite !erase_children, E. cbn [cn]. rewrite cn_attrs_eq. reflexivity.
    Qed.

    Theorem db_arith (bin : binop -> V -> V -> V) (un : unop -> V -> V) (n : snode) (vec : list V) :
      forall_nodes V db_chain_ok n = true -> all_occs V (db_occ_ok V cf) n = true -> wf V (tree V n) ->
      exists n', db_rt V cf n = Ok n' /\
                 ordered_ids V (tree V n') = ordered_ids V (tree V n) /\
                 prior_count V (tree V n') = prior_count V (tree V n) /\
                 inst_from_vector V bin un (tree V n') vec = inst_from_vector V bin un (tree V n) vec.
    Proof.
      intros HQ HR W. eexists. split; [apply (db_image n HQ HR)|].
      unfold tree. rewrite erase_db_image. apply vector_cn. exact W.
    Qed.
  End Db.
End P5.
