(* C08 lemmas, part 7: models that contain arithmetic priors ANYWHERE.  The attribute names of the two
   operands of an arithmetic prior are not stored (finding arith-names); everything else is.  [bn] puts the
   operands of every arithmetic prior under the fixed names l / r; a round trip of n is then an injective
   renaming of [bn n] -- so the prior specification at every place, the sharing partition, the constants and
   the assertions of the WHOLE model (not only of models without derived parameters) are preserved. *)
From Coq Require Import List String Bool Arith PeanoNat Lia.
From PAFC01 Require Import ModelTree Proofs2.
From PAFC08 Require Import Model Lib Proofs1 Proofs2 Proofs3 Proofs4 Proofs5 Proofs6.
Import ListNotations.
Local Open Scope string_scope.
Local Open Scope list_scope.

Section P7.
  Variable V : Type.
  Variable falsy : V -> bool.
  Variable cf : cfg.
  Notation snode := (snode V).
  Notation pspec := (pspec V).
  Notation assertion := (assertion V).

  Definition bn1 (n : snode) : snode :=
    match n with
    | SNode (KBin o) [(_, l); (_, r)] asr => SNode (KBin o) [("l", l); ("r", r)] asr
    | _ => n
    end.

  Fixpoint bn (n : snode) : snode :=
    match n with
    | SNode k ch asr =>
        bn1 (SNode k ((fix go (ch : list (string * snode)) : list (string * snode) :=
                         match ch with [] => [] | (nm, c) :: r => (nm, bn c) :: go r end) ch) asr)
    | _ => n
    end.

  Definition bnch (ch : list (string * snode)) : list (string * snode) := map (fun kc => (fst kc, bn (snd kc))) ch.

  Lemma bn_node (k : kind) (ch : list (string * snode)) (asr : list assertion) :
    bn (SNode k ch asr) = bn1 (SNode k (bnch ch) asr).
  Proof.
    cbn [bn]. f_equal. f_equal. unfold bnch. induction ch as [|[nm c] ch IH]; simpl; [reflexivity|]. rewrite IH. reflexivity.
  Qed.

  Lemma occs_bn1 (n : snode) : occs V (bn1 n) = occs V n.
  Proof.
    destruct n as [p sp|v|items|k ch asr]; try reflexivity.
    destruct k; try reflexivity. destruct ch as [|[ln l] [|[rn r] [|x t]]]; reflexivity.
  Qed.

  Lemma occs_bn (n : snode) : occs V (bn n) = occs V n.
  Proof.
    induction n as [p sp|v|items|k ch asr IH] using (snode_ind' V); try reflexivity.
    rewrite bn_node, occs_bn1, !occs_node. f_equal. unfold ch_occs, bnch.
    induction ch as [|[nm c] ch IHc]; [reflexivity|]. inversion IH as [|? ? H1 H2]; subst. simpl in *.
    rewrite H1, (IHc H2). reflexivity.
  Qed.

  Lemma smap_bn1 (f : nat -> pspec -> nat * pspec) (k : kind) (ch : list (string * snode)) (asr : list assertion) :
    smap V f (bn1 (SNode k ch asr)) = bn1 (SNode k (chmap V f ch) (map (amap V f) asr)).
  Proof.
    destruct k; try (cbn [bn1]; apply smap_node).
    destruct ch as [|[ln l] [|[rn r] [|x t]]]; cbn [bn1 chmap map fst snd]; try apply smap_node.
  Qed.

  (* the pure map commutes with blinding *)
  Lemma bn_smap (f : nat -> pspec -> nat * pspec) (n : snode) : bn (smap V f n) = smap V f (bn n).
  Proof.
    induction n as [p sp|v|items|k ch asr IH] using (snode_ind' V); try reflexivity.
    rewrite smap_node, !bn_node, smap_bn1. f_equal. f_equal.
    unfold bnch, chmap. rewrite !map_map. apply map_ext_in. intros [nm c] Hin. simpl. f_equal.
    rewrite Forall_forall in IH. exact (IH _ Hin).
  Qed.

  (* the database image, blinded, is the pure map of the blinded model *)
  Lemma bn1_dbpost (m : snode) (k : kind) (ch0 ch : list (string * snode)) (asr0 asr : list assertion) :
    m = SNode k ch0 asr0 -> List.length ch0 = List.length ch ->
    bn1 (rebuild_bin_default V m ch asr) = bn1 (SNode k ch asr).
  Proof.
    intros -> L. destruct k; try reflexivity.
    destruct ch as [|[ln l] [|[rn r] [|x t]]]; reflexivity.
  Qed.

  Lemma bn_db_image (f : nat -> pspec -> nat * pspec) (n : snode) :
    bn (pmap V f (fun d => d) (fun _ => false) (rebuild_bin_default V) n) = smap V f (bn n).
  Proof.
    induction n as [p sp|v|items|k ch asr IH] using (snode_ind' V); try reflexivity.
    rewrite pmap_node.
    assert (E : bnch (pchmap V f (fun d => d) (fun _ => false) (rebuild_bin_default V) ch) = chmap V f (bnch ch)).
    { unfold bnch, pchmap, chmap. rewrite !map_map. apply map_ext_in. intros [nm c] Hin. simpl. f_equal.
      rewrite Forall_forall in IH. exact (IH _ Hin). }
    destruct k as [cls ctor| |idx|o|uo|cls ctor];
      try (cbn [rebuild_bin_default rebuild_same]; rewrite !bn_node, smap_bn1, E; reflexivity).
    destruct ch as [|[ln l] [|[rn r] [|x t]]].
    - reflexivity.
    - cbn [pchmap map fst snd rebuild_bin_default rebuild_same]. rewrite !bn_node, smap_bn1. cbn [bnch chmap map fst snd].
      inversion IH as [|? ? Hl _]; subst. simpl in Hl. rewrite Hl. reflexivity.
    - cbn [pchmap map fst snd rebuild_bin_default]. rewrite !bn_node, smap_bn1. cbn [bnch chmap map fst snd bn1].
      inversion IH as [|? ? Hl H2]; subst. inversion H2 as [|? ? Hr _]; subst. simpl in Hl, Hr. rewrite Hl, Hr. reflexivity.
    - assert (R : forall a, rebuild_bin_default V (SNode (KBin o) ((ln, l) :: (rn, r) :: x :: t) asr)
                             (pchmap V f (fun d => d) (fun _ => false) (rebuild_bin_default V) ((ln, l) :: (rn, r) :: x :: t)) a
                           = SNode (KBin o) (pchmap V f (fun d => d) (fun _ => false) (rebuild_bin_default V) ((ln, l) :: (rn, r) :: x :: t)) a)
        by (intro a; reflexivity).
      rewrite R, !bn_node, smap_bn1, E. reflexivity.
  Qed.

  Lemma dict_post_same (k : kind) ch0 asr0 (ch : list (string * snode)) (asr : list assertion) :
    match k with KBin _ => false | KModel _ _ => negb (as_instance V cf (SNode k ch0 asr0)) | _ => true end = true ->
    dict_post V cf (SNode k ch0 asr0) ch asr = SNode k ch asr.
  Proof.
    destruct k; intro H; try reflexivity; [|discriminate].
    apply negb_true_iff in H. unfold dict_post. rewrite H. reflexivity.
  Qed.

  (* the dict image (no component without free parameters, dict constants kept) likewise *)
  Lemma bn_dict_image (f : nat -> pspec -> nat * pspec) (n : snode) :
    forall_nodes V (dict_node_ok2 V falsy cf) n = true ->
    bn (pmap V f (dict_filter V falsy cf) (as_instance V cf) (dict_post V cf) n) = smap V f (bn n).
  Proof.
    induction n as [p sp|v|items|k ch asr IH] using (snode_ind' V); intro HQ; try reflexivity.
    - cbn [pmap bn smap]. apply forall_nodes_top in HQ. simpl in HQ. f_equal.
      unfold dict_filter. destruct (fix_falsy cf); [reflexivity|]. simpl in HQ. apply filter_all. exact HQ.
    - rewrite forall_nodes_node in HQ. apply andb_true_iff in HQ. destruct HQ as [Qn Qc].
      rewrite pmap_node. destruct (ok2_pre V falsy cf _ Qn) as [_ SK]. rewrite SK.
      assert (E : bnch (pchmap V f (dict_filter V falsy cf) (as_instance V cf) (dict_post V cf) ch) = chmap V f (bnch ch)).
      { unfold bnch, pchmap, chmap. rewrite !map_map. apply map_ext_in. intros [nm c] Hin. simpl. f_equal.
        rewrite Forall_forall in IH. rewrite forallb_forall in Qc. exact (IH _ Hin (Qc _ Hin)). }
      destruct k as [cls ctor| |idx|o|uo|cls ctor].
      + rewrite dict_post_same by exact Qn. rewrite !bn_node, smap_bn1, E. reflexivity.
      + rewrite dict_post_same by reflexivity. rewrite !bn_node, smap_bn1, E. reflexivity.
      + rewrite dict_post_same by reflexivity. rewrite !bn_node, smap_bn1, E. reflexivity.
      + destruct ch as [|[ln l] [|[rn r] [|x t]]].
        * reflexivity.
        * cbn [pchmap map fst snd].
          change (dict_post V cf (SNode (KBin o) [(ln, l)] asr) [(ln, pmap V f (dict_filter V falsy cf) (as_instance V cf) (dict_post V cf) l)] (map (amap V f) asr))
            with (SNode (KBin o) [(ln, pmap V f (dict_filter V falsy cf) (as_instance V cf) (dict_post V cf) l)] (map (amap V f) asr)).
          rewrite !bn_node, smap_bn1. cbn [bnch chmap map fst snd].
          inversion IH as [|? ? Hl _]; subst. simpl in Hl, Qc. apply andb_true_iff in Qc. destruct Qc as [Ql _].
          rewrite (Hl Ql). reflexivity.
        * cbn [pchmap map fst snd]. rewrite dict_post_bin.
          inversion IH as [|? ? Hl H2]; subst. inversion H2 as [|? ? Hr _]; subst. simpl in Hl, Hr, Qc.
          apply andb_true_iff in Qc. destruct Qc as [Ql Qc]. apply andb_true_iff in Qc. destruct Qc as [Qr _].
          rewrite !bn_node, smap_bn1; cbn [bnch chmap map fst snd bn1]. rewrite (Hl Ql), (Hr Qr). reflexivity.
        * assert (R : forall a, dict_post V cf (SNode (KBin o) ((ln, l) :: (rn, r) :: x :: t) asr)
                             (pchmap V f (dict_filter V falsy cf) (as_instance V cf) (dict_post V cf) ((ln, l) :: (rn, r) :: x :: t)) a
                           = SNode (KBin o) (pchmap V f (dict_filter V falsy cf) (as_instance V cf) (dict_post V cf) ((ln, l) :: (rn, r) :: x :: t)) a)
            by (intro a; reflexivity).
          rewrite R, !bn_node, smap_bn1, E. reflexivity.
      + rewrite dict_post_same by reflexivity. rewrite !bn_node, smap_bn1, E. reflexivity.
      + rewrite dict_post_same by reflexivity. rewrite !bn_node, smap_bn1, E. reflexivity.
  Qed.

  (* ---------- one round trip, arithmetic priors allowed ---------- *)
  Definition guard2 (f : form) (n : snode) : bool :=
    match f with
    | FPickle => true
    | FDb => forall_nodes V (db_chain_ok V cf) n && all_occs V (db_occ_ok V cf) n
    | FDict => forall_nodes V (dict_node_ok2 V falsy cf) n && all_occs V (occ_ok V cf) n
    end.

  Lemma consistent_bn (n : snode) : consistent V n <-> consistent V (bn n).
  Proof. unfold consistent. rewrite occs_bn. tauto. Qed.

  Theorem rt_equiv_bn (f : form) (n : snode) :
    guard2 f n = true -> consistent V n ->
    exists n', rt V falsy cf f n = Ok n' /\ equiv V (bn n) (bn n').
  Proof.
    intros G HC. destruct f; simpl in G.
    - (* dict *)
      apply andb_true_iff in G. destruct G as [HQ HR].
      assert (HQ' : forall_nodes V (fun m => match dict_pre V cf m with None => true | Some _ => false end) n = true).
      { apply (forall_nodes_impl V (dict_node_ok2 V falsy cf)); [|exact HQ]. intros m H.
        rewrite (proj1 (ok2_pre V falsy cf m H)). reflexivity. }
      assert (VO : forall m, forall_nodes V (dict_node_ok2 V falsy cf) m = true -> vocc V (as_instance V cf) m = occs V m).
      { intro m. induction m as [p sp|v|items|k ch asr IH] using (snode_ind' V); intro H; try reflexivity.
        rewrite forall_nodes_node in H. apply andb_true_iff in H. destruct H as [Hn Hc].
        rewrite vocc_node, occs_node. rewrite (proj2 (ok2_pre V falsy cf _ Hn)). f_equal.
        unfold ch_vocc, ch_occs. clear Hn. induction ch as [|[nm c] ch IHc]; [reflexivity|].
        inversion IH as [|? ? H1 H2]; subst. simpl in *. apply andb_true_iff in Hc. destruct Hc as [Hc1 Hc2].
        rewrite (H1 Hc1), (IHc H2 Hc2). reflexivity. }
      assert (HO : ok_all V cf (vocc V (as_instance V cf) n)).
      { intros p sp Hin. rewrite (VO n HQ) in Hin. exact (all_occs_spec V _ n HR p sp Hin). }
      destruct (dict_image V falsy cf n HQ' HO) as [st' [E [I' [C F]]]].
      eexists. split; [exact E|]. rewrite (bn_dict_image (look V st') n HQ).
      rewrite (VO n HQ) in C, F.
      assert (L : forall p sp, In (p, sp) (occs V n) ->
                exists r sp0, alookup p (loaded V st') = Some r /\ In (p, sp0) (occs V n) /\ snd r = with_mid V sp0 (Some (fst r))).
      { intros p sp Hin. destruct (alookup p (loaded V st')) as [r|] eqn:A; [|exfalso; exact (C p sp Hin A)].
        destruct (F p r A) as [B|[sp0 [Hin0 [E0 _]]]]; [discriminate|]. exists r, sp0. auto. }
      exists (sigma_of V st'). split.
      + intros a b Ha Hb Eab. unfold Proofs1.node_ids in Ha, Hb. rewrite occs_bn in Ha, Hb.
        apply in_map_iff in Ha. destruct Ha as [[a' spa] [<- Ha]]. apply in_map_iff in Hb. destruct Hb as [[b' spb] [<- Hb]].
        simpl in *. destruct (L _ _ Ha) as [ra [_ [Aa _]]]. destruct (L _ _ Hb) as [rb [_ [Ab _]]].
        unfold sigma_of in Eab. rewrite Aa, Ab in Eab. exact (inv_inj V st' I' a' b' ra rb Aa Ab Eab).
      + rewrite smap_comp. apply smap_ext. intros p sp Hin. rewrite occs_bn in Hin.
        unfold comp, forget_f, ren_f, look, sigma_of.
        destruct (L _ _ Hin) as [r [sp0 [A [Hin0 E0]]]]. rewrite A, E0, forget_with_mid. f_equal. exact (HC p sp0 sp Hin0 Hin).
    - (* pickle *)
      exists (smap V (pickle_f V) n). split; [apply pickle_total|]. rewrite bn_smap.
      exists (fun q => q). split; [intros a b _ _ E; exact E|]. rewrite pickle_keeps. reflexivity.
    - (* database *)
      apply andb_true_iff in G. destruct G as [HQ HR]. eexists. split; [apply (db_image V cf n HQ HR)|].
      rewrite bn_db_image. exists (fun q => q). split; [intros a b _ _ E; exact E|].
      rewrite equiv_keep; [reflexivity|]. intros p sp. split; reflexivity.
  Qed.

  (* ---------- sequences ---------- *)
  Fixpoint guards2 (fs : list form) (n : snode) : Prop :=
    match fs with
    | [] => True
    | f :: r => guard2 f n = true /\ forall n', rt V falsy cf f n = Ok n' -> guards2 r n'
    end.

  Theorem rt_seq_equiv_bn (fs : list form) : forall n,
    consistent V n -> guards2 fs n -> exists n', rt_seq V falsy cf fs n = Ok n' /\ equiv V (bn n) (bn n').
  Proof.
    induction fs as [|f fs IH]; intros n HC G.
    - exists n. split; [reflexivity|apply equiv_refl].
    - destruct G as [G1 G2]. destruct (rt_equiv_bn f n G1 HC) as [n1 [E1 Q1]].
      assert (HC1 : consistent V n1).
      { apply (proj2 (consistent_bn n1)). apply (equiv_consistent V (bn n) (bn n1) Q1). apply (proj1 (consistent_bn n)). exact HC. }
      destruct (IH n1 HC1 (G2 n1 E1)) as [n2 [E2 Q2]].
      exists n2. split; [cbn [rt_seq]; rewrite E1; exact E2|exact (equiv_trans V _ _ _ Q1 Q2)].
  Qed.
End P7.
