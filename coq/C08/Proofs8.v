(* C08 lemmas, part 8: sequences of round trips for any code configuration that contains the four applied
   repairs -- in particular cfg_fixed (with 0b56c35, C08-dict-instance-exact: a component without free parameters is
   written as "instance" only when that is exact), where components with tuple / extra attributes are covered. *)
From Coq Require Import List String Bool Arith PeanoNat Lia.
From PAFC01 Require Import ModelTree Proofs2.
From PAFC08 Require Import Model Lib Proofs1 Proofs2 Proofs3 Proofs4.
Import ListNotations.
Local Open Scope string_scope.
Local Open Scope list_scope.

Section P8.
  Variable V : Type.
  Variable falsy : V -> bool.
  Variable cf : cfg.
  Hypothesis Hdb : fix_db_id cf = true.
  Hypothesis Hlg : fix_loggaussian cf = true.
  Hypothesis Hch : fix_chain cf = true.
  Hypothesis Hfa : fix_falsy cf = true.
  Notation snode := (snode V).
  Notation pspec := (pspec V).

  (* no arithmetic prior; every Model either has free parameters or is not written as an instance *)
  Definition plain_node_cf (n : snode) : bool :=
    match n with
    | SNode (KBin _) _ _ => false
    | SNode (KModel _ _) _ _ => negb (as_instance V cf n)
    | _ => true
    end.
  Definition plain_cf (n : snode) : bool := forall_nodes V plain_node_cf n.

  Lemma guard_full (f : form) (n : snode) : plain_cf n = true -> guard V falsy cf f n = true.
  Proof.
    intro P. destruct f; simpl; [|reflexivity|].
    - apply andb_true_iff. split; [|apply all_occs_true; intros p sp; unfold occ_ok; rewrite Hlg; reflexivity].
      apply (forall_nodes_impl V plain_node_cf); [|exact P].
      intros [p sp|v|items|[cls ctor| |idx|o|uo|cls ctor] ch asr] Hm; cbn [plain_node_cf dict_node_ok] in *; auto.
      try rewrite Hfa; reflexivity.
    - apply andb_true_iff. split; [|apply all_occs_true; intros p sp; unfold db_occ_ok; rewrite Hdb; reflexivity].
      apply (forall_nodes_impl V plain_node_cf); [|exact P].
      intros [p sp|v|items|[cls ctor| |idx|o|uo|cls ctor] ch asr] Hm; cbn [plain_node_cf db_node_ok is_bin_kind] in *;
        try discriminate; try rewrite Hch; reflexivity.
  Qed.

  Lemma has_extras_chmap (f : nat -> pspec -> nat * pspec) (ctor : list string) (ch : list (string * snode)) :
    has_extras V ctor (chmap V f ch) = has_extras V ctor ch.
  Proof. unfold has_extras, chmap. induction ch as [|[nm c] ch IH]; simpl; [reflexivity|]. rewrite IH. reflexivity. Qed.

  Lemma inst_exact_smap (f : nat -> pspec -> nat * pspec) (n : snode) : inst_exact V (smap V f n) = inst_exact V n.
  Proof.
    induction n as [p sp|v|items|k ch asr IH] using (snode_ind' V); try reflexivity.
    rewrite smap_node. destruct k as [cls ctor| |idx|o|uo|cls ctor]; try reflexivity.
    cbn [inst_exact]. rewrite has_extras_chmap. f_equal.
    unfold chmap. induction ch as [|[nm c] ch IHc]; [reflexivity|].
    inversion IH as [|? ? H1 H2]; subst. simpl in *. rewrite H1, (IHc H2). reflexivity.
  Qed.

  Lemma as_instance_smap (f : nat -> pspec -> nat * pspec) (s : nat -> nat) (n : snode) :
    (forall p sp, fst (f p sp) = s p) -> as_instance V cf (smap V f n) = as_instance V cf n.
  Proof.
    intro H. destruct n as [p sp|v|items|k ch asr]; try reflexivity.
    destruct k as [cls ctor| |idx|o|uo|cls ctor]; try (rewrite smap_node; reflexivity).
    change (no_priors V (smap V f (SNode (KModel cls ctor) ch asr)) && (negb (fix_instance cf) || inst_exact V (smap V f (SNode (KModel cls ctor) ch asr)))
            = no_priors V (SNode (KModel cls ctor) ch asr) && (negb (fix_instance cf) || inst_exact V (SNode (KModel cls ctor) ch asr))).
    rewrite (no_priors_smap V f s _ H), inst_exact_smap. reflexivity.
  Qed.

  Lemma plain_cf_smap (f : nat -> pspec -> nat * pspec) (s : nat -> nat) (n : snode) :
    (forall p sp, fst (f p sp) = s p) -> plain_cf (smap V f n) = plain_cf n.
  Proof.
    intro H. unfold plain_cf. induction n as [p sp|v|items|k ch asr IH] using (snode_ind' V); try reflexivity.
    assert (T : plain_node_cf (smap V f (SNode k ch asr)) = plain_node_cf (SNode k ch asr)).
    { destruct k; try (rewrite smap_node; reflexivity).
      change (negb (as_instance V cf (smap V f (SNode (KModel cls ctor) ch asr))) = negb (as_instance V cf (SNode (KModel cls ctor) ch asr))).
      rewrite (as_instance_smap f s _ H). reflexivity. }
    rewrite smap_node in *. rewrite !forall_nodes_node. rewrite T. f_equal.
    unfold chmap. clear T. induction ch as [|[nm c] ch IHc]; [reflexivity|].
    inversion IH as [|? ? H1 H2]; subst. simpl in *. rewrite H1, (IHc H2). reflexivity.
  Qed.

  Lemma plain_cf_equiv (n n' : snode) : equiv V n n' -> plain_cf n' = plain_cf n.
  Proof.
    intros [s [_ E]]. rewrite <- (plain_cf_smap (forget_f V) (fun q => q) n') by reflexivity.
    rewrite E. apply (plain_cf_smap _ s). reflexivity.
  Qed.

  Lemma guards_full (fs : list form) : forall n, consistent V n -> plain_cf n = true -> guards V falsy cf fs n.
  Proof.
    induction fs as [|f fs IH]; intros n HC P; [exact I|]. split; [apply guard_full; exact P|].
    intros n' E. destruct (rt_equiv V falsy cf f n (guard_full f n P) HC) as [n1 [E1 Q1]].
    rewrite E in E1. inversion E1; subst n1. apply IH.
    - exact (equiv_consistent V n n' Q1 HC).
    - rewrite (plain_cf_equiv n n' Q1). exact P.
  Qed.

  Theorem full_sequences (fs : list form) (n : snode) :
    consistent V n -> plain_cf n = true -> exists n', rt_seq V falsy cf fs n = Ok n' /\ equiv V n n'.
  Proof. intros HC P. apply rt_seq_equiv; [exact HC|apply guards_full; assumption]. Qed.
End P8.
