(* Renaming of parameter identities in the shared ModelTree (C01) and what it preserves.
   Generic in the value type; used by all three codecs of C08. *)
From Coq Require Import List String Bool Arith PeanoNat Lia Permutation Sorted.
From PAFC01 Require Import ModelTree Sorting Proofs Proofs2 Proofs3.
Import ListNotations.
Local Open Scope string_scope.
Local Open Scope list_scope.

Section Ren.
  Variable V : Type.
  Variable bin : binop -> V -> V -> V.
  Variable un : unop -> V -> V.
  Notation node := (node V).

  Section One.
  Variable s : nat -> nat.

  Fixpoint ren (n : node) : node :=
    match n with
    | NPrior p => NPrior (s p)
    | NConst v => NConst v
    | NTuple ms =>
        NTuple ((fix go (ms : list (string * (nat * node))) : list (string * (nat * node)) :=
                   match ms with [] => [] | (k, (i, c)) :: r => (k, (i, ren c)) :: go r end) ms)
    | NBin o ln rn l r => NBin o ln rn (ren l) (ren r)
    | NUn o nm c => NUn o nm (ren c)
    | NModel cls ctor attrs =>
        NModel cls ctor ((fix go (a : list (string * node)) : list (string * node) :=
                            match a with [] => [] | (k, c) :: r => (k, ren c) :: go r end) attrs)
    | NColl attrs =>
        NColl ((fix go (a : list (string * node)) : list (string * node) :=
                  match a with [] => [] | (k, c) :: r => (k, ren c) :: go r end) attrs)
    end.

  Definition ren_attrs (a : list (string * node)) : list (string * node) := map (fun kc => (fst kc, ren (snd kc))) a.
  Definition ren_members (ms : list (string * (nat * node))) : list (string * (nat * node)) :=
    map (fun m => (fst m, (fst (snd m), ren (snd (snd m))))) ms.

  Lemma ren_attrs_eq (a : list (string * node)) :
    (fix go (a : list (string * node)) : list (string * node) :=
       match a with [] => [] | (k, c) :: r => (k, ren c) :: go r end) a = ren_attrs a.
  Proof. induction a as [|[k c] a IH]; simpl; [reflexivity|]. rewrite IH. reflexivity. Qed.

  Lemma ren_members_eq (ms : list (string * (nat * node))) :
    (fix go (ms : list (string * (nat * node))) : list (string * (nat * node)) :=
       match ms with [] => [] | (k, (i, c)) :: r => (k, (i, ren c)) :: go r end) ms = ren_members ms.
  Proof. induction ms as [|[k [i c]] ms IH]; simpl; [reflexivity|]. rewrite IH. reflexivity. Qed.

  Definition second (pq : path * nat) : path * nat := (fst pq, s (snd pq)).

  Lemma prefix_second (k : string) (l : list (path * nat)) :
    prefix_paths k (map second l) = map second (prefix_paths k l).
  Proof. unfold prefix_paths. rewrite !map_map. reflexivity. Qed.

  (* ---- the walk of a renamed model: same paths, renamed parameters, same order ---- *)
  Lemma walk_ren (n : node) : walk V (ren n) = map second (walk V n).
  Proof.
    induction n as [q|c|ms IH|o ln rn l r IHl IHr|uo unm uc IHc|cls ctor attrs IH|attrs IH] using (node_ind' V).
    - reflexivity.
    - reflexivity.
    - cbn [ren walk]. rewrite ren_members_eq.
      induction ms as [|[k [i c]] ms IHms]; [reflexivity|].
      inversion IH as [|? ? Hc Hr]; subst. simpl in Hc.
      cbn [ren_members map fst snd]. rewrite map_app. rewrite <- prefix_second. rewrite Hc. f_equal.
      apply IHms. exact Hr.
    - cbn [ren walk]. destruct (String.eqb ln rn).
      + rewrite IHr. apply prefix_second.
      + rewrite map_app, IHl, IHr, !prefix_second. reflexivity.
    - cbn [ren walk]. rewrite IHc. apply prefix_second.
    - cbn [ren walk]. rewrite ren_attrs_eq.
      induction attrs as [|[k c] attrs IHa]; [reflexivity|].
      inversion IH as [|? ? Hc Hr]; subst. simpl in Hc.
      cbn [ren_attrs map fst snd]. rewrite map_app. rewrite <- prefix_second. rewrite Hc. f_equal.
      apply IHa. exact Hr.
    - cbn [ren walk]. rewrite ren_attrs_eq.
      induction attrs as [|[k c] attrs IHa]; [reflexivity|].
      inversion IH as [|? ? Hc Hr]; subst. simpl in Hc.
      cbn [ren_attrs map fst snd]. rewrite map_app. rewrite <- prefix_second. rewrite Hc. f_equal.
      apply IHa. exact Hr.
  Qed.

  Lemma walk_paths_ren (n : node) : map fst (walk V (ren n)) = map fst (walk V n).
  Proof. rewrite walk_ren, map_map. reflexivity. Qed.

  Lemma prior_ids_ren (n : node) : prior_ids V (ren n) = map s (prior_ids V n).
  Proof. unfold prior_ids. rewrite walk_ren, !map_map. reflexivity. Qed.

  (* ---- instances: a renamed model under args = the model under args o s ---- *)
  Lemma insert_by_fst_map {B C} (f : B -> C) (x : nat * B) (l : list (nat * B)) :
    insert_by fst (fst x, f (snd x)) (map (fun kv => (fst kv, f (snd kv))) l)
    = map (fun kv => (fst kv, f (snd kv))) (insert_by fst x l).
  Proof.
    induction l as [|y l IH]; simpl; [reflexivity|].
    destruct (Nat.leb (fst x) (fst y)); simpl; [reflexivity|]. rewrite IH. reflexivity.
  Qed.

  Lemma inst_ren (a : nat -> option V) (n : node) :
    inst V bin un a (ren n) = inst V bin un (fun q => a (s q)) n.
  Proof.
    induction n as [q|c|ms IH|o ln rn l r IHl IHr|uo unm uc IHc|cls ctor attrs IH|attrs IH] using (node_ind' V).
    - reflexivity.
    - reflexivity.
    - cbn [ren]. rewrite ren_members_eq. rewrite !inst_tuple. f_equal. f_equal. unfold member_vals. f_equal.
      unfold ren_members. rewrite map_map. apply map_ext_in. intros [k [i c]] Hin. simpl. f_equal.
      rewrite Forall_forall in IH. exact (IH _ Hin).
    - cbn [ren inst]. rewrite IHl, IHr. reflexivity.
    - cbn [ren inst]. rewrite IHc. destruct uc; reflexivity.
    - cbn [ren inst]. rewrite ren_attrs_eq. rewrite !inst_attrs_map.
      assert (M : map (fun kv => (fst kv, inst V bin un a (snd kv))) (ren_attrs attrs)
                  = map (fun kv => (fst kv, inst V bin un (fun q => a (s q)) (snd kv))) attrs).
      { unfold ren_attrs. rewrite map_map. apply map_ext_in. intros [k c] Hin. simpl. f_equal.
        rewrite Forall_forall in IH. exact (IH _ Hin). }
      rewrite M. reflexivity.
    - cbn [ren inst]. rewrite ren_attrs_eq. rewrite !inst_attrs_map. f_equal.
      unfold ren_attrs. rewrite map_map. apply map_ext_in. intros [k c] Hin. simpl. f_equal.
      rewrite Forall_forall in IH. exact (IH _ Hin).
  Qed.

  (* ---- path resolution in a renamed model ---- *)
  Lemma prior_at_ren (n : node) : forall p, prior_at V p (ren n) = option_map s (prior_at V p n).
  Proof.
    induction n as [q|c|ms IH|o ln rn l r IHl IHr|uo unm uc IHc|cls ctor attrs IH|attrs IH] using (node_ind' V); intro p.
    - destruct p; reflexivity.
    - destruct p; reflexivity.
    - destruct p as [|k p]; [reflexivity|]. cbn [ren prior_at]. rewrite ren_members_eq.
      induction ms as [|[k' [i c]] ms IHms]; [reflexivity|].
      inversion IH as [|? ? Hc Hr]; subst. simpl in Hc. cbn [ren_members map fst snd].
      destruct (String.eqb k k'); [apply Hc|apply IHms; exact Hr].
    - destruct p as [|k p]; [reflexivity|]. cbn [ren prior_at].
      destruct (String.eqb k rn); [apply IHr|]. destruct (String.eqb k ln); [apply IHl|reflexivity].
    - destruct p as [|k p]; [reflexivity|]. cbn [ren prior_at].
      destruct (String.eqb k unm); [apply IHc|reflexivity].
    - destruct p as [|k p]; [reflexivity|]. cbn [ren prior_at]. rewrite ren_attrs_eq.
      induction attrs as [|[k' c] attrs IHa]; [reflexivity|].
      inversion IH as [|? ? Hc Hr]; subst. simpl in Hc. cbn [ren_attrs map fst snd].
      destruct (String.eqb k k'); [apply Hc|apply IHa; exact Hr].
    - destruct p as [|k p]; [reflexivity|]. cbn [ren prior_at]. rewrite ren_attrs_eq.
      induction attrs as [|[k' c] attrs IHa]; [reflexivity|].
      inversion IH as [|? ? Hc Hr]; subst. simpl in Hc. cbn [ren_attrs map fst snd].
      destruct (String.eqb k k'); [apply Hc|apply IHa; exact Hr].
  Qed.
  End One.

  (* whatever a path resolves to is one of the model's parameters *)
  Lemma prior_at_in_ids (n : node) : forall p q, prior_at V p n = Some q -> In q (prior_ids V n).
  Proof.
    induction n as [q0|c|ms IH|o ln rn l r IHl IHr|uo unm uc IHc|cls ctor attrs IH|attrs IH] using (node_ind' V); intros p q H.
    - destruct p; simpl in H; [|discriminate]. inversion H; subst. left; reflexivity.
    - destruct p; discriminate.
    - destruct p as [|k p]; [discriminate|]. cbn [prior_at] in H.
      induction ms as [|[k' [i c]] ms IHms]; [discriminate|].
      inversion IH as [|? ? Hc Hr]; subst. simpl in Hc.
      destruct (String.eqb k k').
      + apply (walk_members_in V ((k', (i, c)) :: ms) k' i c q); [left; reflexivity|exact (Hc _ _ H)].
      + specialize (IHms Hr H). unfold prior_ids in *. cbn [walk] in *. rewrite map_app. apply in_or_app. right. exact IHms.
    - destruct p as [|k p]; [discriminate|]. cbn [prior_at] in H. unfold prior_ids. cbn [walk].
      destruct (String.eqb_spec ln rn) as [E|NE].
      + subst ln. destruct (String.eqb k rn).
        * unfold prefix_paths. rewrite map_map. simpl. exact (IHr _ _ H).
        * discriminate.
      + rewrite map_app. apply in_or_app. unfold prefix_paths. rewrite !map_map. simpl.
        destruct (String.eqb k rn); [right; exact (IHr _ _ H)|].
        destruct (String.eqb k ln); [left; exact (IHl _ _ H)|discriminate].
    - destruct p as [|k p]; [discriminate|]. cbn [prior_at] in H. unfold prior_ids. cbn [walk].
      unfold prefix_paths. rewrite map_map. simpl.
      destruct (String.eqb k unm); [exact (IHc _ _ H)|discriminate].
    - destruct p as [|k p]; [discriminate|]. cbn [prior_at] in H. unfold prior_ids. cbn [walk].
      induction attrs as [|[k' c] attrs IHa]; [discriminate|].
      inversion IH as [|? ? Hc Hr]; subst. simpl in Hc.
      rewrite map_app. apply in_or_app.
      destruct (String.eqb k k').
      + left. unfold prefix_paths. rewrite map_map. simpl. exact (Hc _ _ H).
      + right. exact (IHa Hr H).
    - destruct p as [|k p]; [discriminate|]. cbn [prior_at] in H. unfold prior_ids. cbn [walk].
      induction attrs as [|[k' c] attrs IHa]; [discriminate|].
      inversion IH as [|? ? Hc Hr]; subst. simpl in Hc.
      rewrite map_app. apply in_or_app.
      destruct (String.eqb k k').
      + left. unfold prefix_paths. rewrite map_map. simpl. exact (Hc _ _ H).
      + right. exact (IHa Hr H).
  Qed.

  Definition inj_on (s : nat -> nat) (l : list nat) : Prop :=
    forall a b, In a l -> In b l -> s a = s b -> a = b.

  Lemma inj_on_incl (s : nat -> nat) (l l' : list nat) : incl l' l -> inj_on s l -> inj_on s l'.
  Proof. intros I H a b Ha Hb. apply H; apply I; assumption. Qed.

  Lemma NoDup_map_inj_on (s : nat -> nat) (l : list nat) : inj_on s l -> NoDup l -> NoDup (map s l).
  Proof.
    induction l as [|a l IH]; intros Hi ND; [constructor|].
    inversion ND as [|? ? Hnot ND']; subst. simpl. constructor.
    - intro Hin. apply in_map_iff in Hin. destruct Hin as [b [E Hb]].
      apply Hnot. rewrite (Hi a b); auto; [left; reflexivity|right; exact Hb].
    - apply IH; [|exact ND']. intros x y Hx Hy. apply Hi; right; assumption.
  Qed.

  (* ---- the path arguments reach the same parameters ---- *)
  Lemma path_args_ren (s : nat -> nat) (n : node) (pv : list (path * V)) (q : nat) :
    inj_on s (prior_ids V n) -> In q (prior_ids V n) ->
    path_args V (ren s n) pv (s q) = path_args V n pv q.
  Proof.
    intros Hi Hq. induction pv as [|[pa v] pv IH]; [reflexivity|].
    cbn [path_args]. rewrite IH. destruct (path_args V n pv q); [reflexivity|].
    rewrite prior_at_ren. destruct (prior_at V pa n) as [q0|] eqn:E; [|reflexivity]. simpl.
    pose proof (prior_at_in_ids n pa q0 E) as H0.
    destruct (Nat.eqb_spec q q0) as [->|NE]; [rewrite Nat.eqb_refl; reflexivity|].
    destruct (Nat.eqb_spec (s q) (s q0)) as [E'|_]; [exfalso; apply NE; apply Hi; assumption|reflexivity].
  Qed.

  (* supplying the same value for each path yields equal instances *)
  Theorem inst_from_paths_ren (s : nat -> nat) (n : node) (pv : list (path * V)) :
    wf V n -> inj_on s (prior_ids V n) ->
    inst_from_paths V bin un (ren s n) pv = inst_from_paths V bin un n pv.
  Proof.
    intros W Hi. unfold inst_from_paths. rewrite inst_ren.
    apply (inst_ext V bin un); [exact W|]. intros q Hq. apply path_args_ren; assumption.
  Qed.

  (* ---- the number of free parameters ---- *)
  Theorem prior_count_ren (s : nat -> nat) (n : node) :
    inj_on s (prior_ids V n) -> prior_count V (ren s n) = prior_count V n.
  Proof.
    intro Hi. rewrite <- !ordered_ids_length.
    assert (Hi' : inj_on s (ordered_ids V n)).
    { intros a b Ha Hb. apply Hi; apply ordered_ids_in; assumption. }
    rewrite <- (map_length s (ordered_ids V n)).
    apply Permutation_length. apply NoDup_Permutation.
    - apply ordered_ids_nodup.
    - apply NoDup_map_inj_on; [exact Hi'|apply ordered_ids_nodup].
    - intro x. rewrite ordered_ids_in, prior_ids_ren. rewrite !in_map_iff.
      split; intros [y [E Hy]]; exists y; (split; [exact E|]); apply ordered_ids_in; exact Hy.
  Qed.

  (* never merges, never splits: two places hold one parameter after the renaming iff they did before *)
  Theorem partition_ren (s : nat -> nat) (n : node) (i j : nat) (d : path * nat) :
    inj_on s (prior_ids V n) -> i < List.length (walk V n) -> j < List.length (walk V n) ->
    (snd (nth i (walk V (ren s n)) (second s d)) = snd (nth j (walk V (ren s n)) (second s d))
     <-> snd (nth i (walk V n) d) = snd (nth j (walk V n) d)).
  Proof.
    intros Hi Li Lj. rewrite walk_ren, !map_nth. unfold second; simpl. split.
    - intro E. apply Hi; [| |exact E]; unfold prior_ids; apply in_map; apply nth_In; assumption.
    - intro E. rewrite E. reflexivity.
  Qed.

  (* ---- the parameter order, for renamings that keep the order of the model's own ids ---- *)
  Definition mono_on (s : nat -> nat) (l : list nat) : Prop :=
    forall a b, In a l -> In b l -> a < b -> s a < s b.

  Lemma strict_map_mono (s : nat -> nat) (l : list nat) :
    mono_on s l -> StronglySorted lt l -> StronglySorted lt (map s l).
  Proof.
    induction l as [|a l IH]; intros Hm S; [constructor|].
    inversion S as [|? ? S' Hall]; subst. simpl. constructor.
    - apply IH; [|exact S']. intros x y Hx Hy. apply Hm; right; assumption.
    - rewrite Forall_forall in *. intros y Hy. apply in_map_iff in Hy. destruct Hy as [x [<- Hx]].
      apply Hm; [left; reflexivity|right; exact Hx|exact (Hall x Hx)].
  Qed.

  Theorem ordered_ids_ren (s : nat -> nat) (n : node) :
    mono_on s (prior_ids V n) -> ordered_ids V (ren s n) = map s (ordered_ids V n).
  Proof.
    intro Hm. apply strict_sorted_unique.
    - apply ordered_ids_strict.
    - apply strict_map_mono; [|apply ordered_ids_strict].
      intros a b Ha Hb. apply Hm; apply ordered_ids_in; assumption.
    - intro x. rewrite ordered_ids_in, prior_ids_ren. rewrite !in_map_iff.
      split; intros [y [E Hy]]; exists y; (split; [exact E|]); apply ordered_ids_in; exact Hy.
  Qed.

  Lemma ren_id (n : node) : ren (fun q => q) n = n.
  Proof.
    induction n as [q|c|ms IH|o ln rn l r IHl IHr|uo unm uc IHc|cls ctor attrs IH|attrs IH] using (node_ind' V).
    - reflexivity.
    - reflexivity.
    - cbn [ren]. rewrite ren_members_eq. f_equal. unfold ren_members.
      rewrite <- (map_id ms) at 2. apply map_ext_in. intros [k [i c]] Hin. simpl.
      rewrite Forall_forall in IH. pose proof (IH _ Hin) as E. simpl in E. rewrite E. reflexivity.
    - cbn [ren]. rewrite IHl, IHr. reflexivity.
    - cbn [ren]. rewrite IHc. reflexivity.
    - cbn [ren]. rewrite ren_attrs_eq. f_equal. unfold ren_attrs.
      rewrite <- (map_id attrs) at 2. apply map_ext_in. intros [k c] Hin. simpl.
      rewrite Forall_forall in IH. pose proof (IH _ Hin) as E. simpl in E. rewrite E. reflexivity.
    - cbn [ren]. rewrite ren_attrs_eq. f_equal. unfold ren_attrs.
      rewrite <- (map_id attrs) at 2. apply map_ext_in. intros [k c] Hin. simpl.
      rewrite Forall_forall in IH. pose proof (IH _ Hin) as E. simpl in E. rewrite E. reflexivity.
  Qed.
End Ren.
