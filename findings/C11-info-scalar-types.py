"""C11 finding (info-scalar-types): writes the fits of the JSON case with the real code into a scratch directory,
loads it with Aggregator.add_directory and prints what happened.
Run: /venv/bin/python findings/C11-info-scalar-types.py"""
import json, os, subprocess, sys, tempfile
here = os.path.dirname(os.path.abspath(__file__)); verif = os.path.dirname(here)
case = json.load(open(os.path.join(here, "C11-info-scalar-types.json")))["case"]
with tempfile.TemporaryDirectory() as tmp:
    json.dump({"cases": [case]}, open(os.path.join(tmp, "in.json"), "w"))
    env = dict(os.environ, VERIF_SCRATCH=os.path.join(tmp, "s"), VERIF_DIR=verif,
               PYTHONPATH=os.environ.get("VERIF_REPO", "/repo") + os.pathsep + os.path.join(verif, "harness"))
    subprocess.run(["/venv/bin/python", "-W", "ignore", os.path.join(verif, "harness", "impl", "c11_impl.py"),
                    os.path.join(tmp, "in.json"), os.path.join(tmp, "out.json")], env=env, check=True,
                   stdout=subprocess.DEVNULL, stderr=subprocess.DEVNULL)
    r = json.load(open(os.path.join(tmp, "out.json")))["results"][0]["ok"]
for e in r["directory"]:
    print("folder", e["rel"], "marker=%r" % e["grid_marker"], "written id", e.get("description_md5"), "recomputed", (e.get("recomputed") or {}).get("id"))
print("add_directory:", r["scrape"].get("exc") or "loaded", (r["scrape"].get("msg") or "")[:150])
print("database:", [(f["name"], f["info"]) for f in r["scrape"]["fits"]])
