"""C05 finding: PySwarms samples_via_internal_from reports particle 0 of every iteration with the
swarm's best cost so far and with the priors of the flattened particle list.
FIXED in /repo by fe260fe (the script now exits 0; it failed before).
Run:  /venv/bin/python findings/C05-pyswarms-pairing.py   (real pyswarms run, ~5 s)"""
import atexit, os, shutil, sys, tempfile
sys.path.insert(0, os.path.join(os.path.dirname(os.path.abspath(__file__)), "..", "harness", "impl"))
scratch = tempfile.mkdtemp(prefix="c05_finding_")
atexit.register(shutil.rmtree, scratch, True)
os.environ["VERIF_SCRATCH"] = scratch
from vimpl_common import setup
af, conf = setup()
import logging; logging.disable(logging.CRITICAL)
import numpy as np

class G:
    def __init__(self, a=0.0, b=0.0):
        self.a, self.b = a, b

class Analysis(af.Analysis):
    def log_likelihood_function(self, instance):
        return -((instance.a - 0.3) ** 2 + 4.0 * (instance.b - 0.7) ** 2)

np.random.seed(1)
model = af.Model(G, a=af.UniformPrior(lower_limit=0.0, upper_limit=1.0), b=af.GaussianPrior(mean=0.5, sigma=0.25))
result = af.PySwarmsGlobal(name="c05_pyswarms", n_particles=5, iters=4).fit(model=model, analysis=Analysis())
analysis, bad = Analysis(), []
for s in result.samples.sample_list:
    truth = analysis.log_likelihood_function(model.instance_from_prior_name_arguments({"a": s.kwargs[("a",)], "b": s.kwargs[("b",)]}))
    if abs(truth - s.log_likelihood) > 1e-9:
        bad.append((s.kwargs, s.log_likelihood, truth))
print("samples:", len(result.samples.sample_list), "with a wrong log_likelihood:", len(bad))
print("first (kwargs, reported, recomputed):", bad[:2])
print("result.log_likelihood:", result.log_likelihood, "likelihood of result.instance:", analysis.log_likelihood_function(result.instance))
sys.exit(1 if bad else 0)
