"""C18 finding: FactorHistory.latest_result returns the FIRST successful result."""
from autofit.graphical.expectation_propagation import FactorHistory
from autofit.graphical.utils import Status

h = FactorHistory(factor=None)
h(approx="approx after sweep 1", status=Status(success=True, result="first"))
h(approx="approx after sweep 2", status=Status(success=True, result="second"))
print("latest_successful:", h.latest_successful)   # approx after sweep 2
print("latest_result    :", h.latest_result)       # first   (expected: second)
assert h.latest_result == "second", "latest_result is not the most recent successful result"
