"""C13 finding: prior passing on a frozen collection thaws the Models below it.
Run: PYTHONPATH=/repo /venv/bin/python -W ignore findings/C13-derive-thaws.py"""
import autofit as af

class G:
    def __init__(self, a=0.0, b=0.0):
        self.a, self.b = a, b

p, q = af.UniformPrior(0.0, 1.0), af.UniformPrior(0.0, 1.0)
c = af.Collection(m=af.Model(G, a=p, b=q))
c.freeze()
print(c.prior_count, c._is_frozen, c.m._is_frozen)          # 2 True True
c.mapper_from_prior_arguments({p: p, q: q})                 # a "query": builds a new model
print(c._is_frozen, c.m._is_frozen)                         # True False
c.m.e = af.UniformPrior(0.0, 1.0)                           # accepted below a frozen collection
print(c.prior_count, c.copy().prior_count)                  # 2 3
assert c.m._is_frozen, "a component of a frozen collection was thawed by prior passing"
