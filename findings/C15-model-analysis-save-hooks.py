"""PYTHONPATH=/repo /venv/bin/python findings/C15-model-analysis-save-hooks.py"""
import sys
import autofit as af

calls = []


class A(af.Analysis):
    def __init__(self, name):
        self.name = name

    def log_likelihood_function(self, instance):
        return 1.0

    def save_attributes(self, paths):
        calls.append(("save_attributes", self.name))

    def save_results(self, paths, result):
        calls.append(("save_results", self.name))


m = af.Model(af.Gaussian)
wrapped = A("a").with_model(m)
wrapped.save_attributes(None)
wrapped.save_results(None, None)
(A("b").with_model(m) + A("c")).save_attributes(af.DirectoryPaths())
print(calls, "expected the hooks of a, b and c")
sys.exit(0 if calls == [("save_attributes", "a"), ("save_results", "a"), ("save_attributes", "b"), ("save_attributes", "c")] else 1)
