"""C03 finding operand-variable-name-collides: PYTHONPATH=/repo /venv/bin/python findings/C03-operand-variable-named-left.py"""
import autofit as af


class G2:
    def __init__(self, a=0.0, b=1.0):
        self.a, self.b = a, b


model = af.Model(G2, a=af.UniformPrior(lower_limit=0.0, upper_limit=10.0), b=af.UniformPrior(lower_limit=0.0, upper_limit=10.0))
left = model.b                      # a caller variable that happens to be called `left`
assertion = model.a < left
print("left operand is model.a:", assertion._left is model.a, "| operand attribute names:", assertion._left_name, assertion._right_name)
model.add_assertion(assertion)
try:
    model.instance_from_vector([1.0, 2.0])
    print("[1, 2] accepted (1 < 2)")
except af.exc.FitException:
    print("DEFECT: [1, 2] rejected although 1 < 2: the assertion compares b with b")

model2 = af.Model(G2, a=af.UniformPrior(lower_limit=0.0, upper_limit=10.0), b=af.UniformPrior(lower_limit=0.0, upper_limit=10.0))
assertions = model2.b               # ... or `assertions`
model2.add_assertion(model2.a < assertions)
try:
    model2.instance_from_vector([1.0, 2.0])
    print("[1, 2] accepted")
except TypeError as e:
    print("DEFECT: TypeError instead of a verdict:", e)
