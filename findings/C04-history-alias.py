"""C04 finding: Fitness history stores the caller's buffer by reference.
Run: PYTHONPATH=/repo /venv/bin/python findings/C04-history-alias.py
Expected (property): history == [[0.25, 0.5]] ; observed: [[0.75, 0.5]]"""
import numpy as np
import autofit as af
from autofit.non_linear.fitness import Fitness

class G:
    def __init__(self, a=0.0, b=0.0):
        self.a, self.b = a, b

class A(af.Analysis):
    def log_likelihood_function(self, instance):
        return -(instance.g.a + instance.g.b)

model = af.Collection(g=af.Model(G, a=af.UniformPrior(0.0, 1.0), b=af.UniformPrior(0.0, 1.0)))
fitness = Fitness(model=model, analysis=A(), store_history=True)
buf = np.array([0.25, 0.5])          # the search's working buffer
fitness(buf)                          # successful evaluation of [0.25, 0.5]
buf[0] = 0.75                         # the search reuses the buffer for its next proposal
print("history:", [list(p) for p in fitness.parameters_history_list], fitness.log_likelihood_history_list)
assert [list(p) for p in fitness.parameters_history_list] == [[0.25, 0.5]], "history no longer holds the evaluated vector"
