"""C13 finding: Collection.__setitem__ on an existing key overwrites the id of the assigned object.
Run: PYTHONPATH=/repo /venv/bin/python -W ignore findings/C13-setitem-id.py"""
import autofit as af

p0, p1, p2, p3 = (af.UniformPrior(0.0, 1.0) for _ in range(4))
first = af.Collection(m=p0, n=p3, k=p1)
print([t.name for t in first.prior_tuples_ordered_by_id], first.prior_count)      # ['m', 'k', 'n'] 3
other = af.Collection(m=p2, n=af.UniformPrior(0.0, 1.0))
other["m"] = p3            # p3.id := p2.id  (p3 is also first.n)
other["n"] = p0            # p0.id := id of the prior that sat under "n"
print([t.name for t in first.prior_tuples_ordered_by_id], first.prior_count)      # order changed: ['k', 'n', 'm']
other["m"] = p1            # p1.id := p3's current id -> p1 and p3 now compare equal
print(first.prior_count)                                                          # 2
assert first.prior_count == 3, "a collection nobody touched lost a parameter"
