# C17 finding: a message whose parameters have different shapes is accepted by __init__ (np.broadcast) but its
# natural_parameters (hence logpdf, *, /, **) raise ValueError: np.array([array, scalar]) is ragged.
# run: PYTHONPATH=/repo /venv/bin/python -W ignore findings/C17-mixed-parameter-shapes.py
import numpy as np
from autofit.messages.normal import NormalMessage
from autofit.messages.gamma import GammaMessage
for m in (NormalMessage(np.array([0.0, 1.0]), 1.0), GammaMessage(np.array([2.0, 1.0]), 1.0)):
    print(type(m).__name__, "shape", m.shape)
    try:
        print(m.natural_parameters)
        raise SystemExit("no exception")
    except ValueError as e:
        print("   natural_parameters:", str(e)[:90])
print("works the other way round:", NormalMessage(1.0, np.array([1.0, 2.0])).natural_parameters.tolist())
