"""C18 finding: DynamicUpdater gives the least shared variables delta = 1; those are never updated."""
from autofit.graphical import EPMeanField, MeanField, Factor, FactorGraph
from autofit.graphical.expectation_propagation.optimiser import DynamicUpdater
from autofit.graphical.utils import Status
from autofit.mapper.variable import Variable
from autofit.messages.normal import NormalMessage as N

x, y, z = Variable("x"), Variable("y"), Variable("z")
f1, f2, f3 = Factor(lambda x, y: 0.0, x, y, name="f1"), Factor(lambda y, z: 0.0, y, z, name="f2"), Factor(lambda x: 0.0, x, name="f3")
approx = EPMeanField(FactorGraph([f1, f2, f3]), {
    f1: MeanField({x: N(0.0, 1.0), y: N(1.0, 2.0)}), f2: MeanField({y: N(0.5, 1.0), z: N(2.0, 0.5)}), f3: MeanField({x: N(-1.0, 4.0)})})
fa = approx.factor_approximation(f2)
new = MeanField({y: N(0.25, 0.5), z: N(1.0, 0.25)})          # z is owned by f2 alone: no cavity, new/cavity = new
updater = DynamicUpdater()                                     # delta = 1.0 * (min count / count): z -> 1.0, y -> 0.5
print("deltas:", {v.name: d for v, d in updater.delta(f2, approx).items()})
approx2, status = updater.update_model_approx(new, fa, approx, Status())
print("status:", status.success, status.flag)                  # False BAD_PROJECTION
print("z after:", approx2.mean_field[z].mean, approx2.mean_field[z].sigma)   # 2.0 0.5 (unchanged), fitted: 1.0 0.25
assert approx2.mean_field[z].sigma == 0.25, "variable with delta 1 was not updated"
