"""C08 finding: unary derived parameters cannot be persisted as dict/JSON or database rows.  Run: PYTHONPATH=/repo /venv/bin/python findings/C08-modified-prior.py"""
import json
import autofit as af
from autofit import database as db

q = af.UniformPrior(0.0, 2.0)
model = af.Model(af.Gaussian, centre=q, normalization=-q, sigma=1.0)
for name, f in (("json", lambda: json.dumps(model.dict())), ("database", lambda: db.Fit(id="fit", model=model))):
    try:
        f()
    except (TypeError, AttributeError) as e:
        print(name, type(e).__name__, e)
