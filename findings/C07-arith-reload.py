"""C07 finding: a model with an arithmetic prior read back from its JSON has another identifier;
a negated bare prior cannot be written to JSON at all.
Run: PYTHONPATH=/repo /venv/bin/python findings/C07-arith-reload.py"""
import json
import autofit as af
from autofit.mapper.identifier import Identifier
from autoconf.dictable import to_dict, from_dict

mass = af.UniformPrior(0.0, 1.0)
model = af.Model(af.Gaussian, centre=mass * 2.0, normalization=1.0, sigma=af.UniformPrior(0.0, 2.0))
back = from_dict(json.loads(json.dumps(to_dict(model))))
print(Identifier(model).hash_list[3:8], Identifier(back).hash_list[3:8])
assert str(Identifier(model)) != str(Identifier(back)), "identifiers agree (defect repaired?)"
print("VIOLATION: identifier changed by the JSON round trip")
try:
    json.dumps(to_dict(af.Model(af.Gaussian, centre=-mass, normalization=1.0, sigma=1.0)))
except TypeError as e:
    print("VIOLATION: model.json cannot be written for a negated prior:", e)
