"""C02 finding: LogUniformPrior whose upper/lower ratio overflows binary64 raises the limit exception for EVERY unit value.
Run: PYTHONPATH=/repo /venv/bin/python findings/C02-loguniform-ratio-overflow.py"""
import autofit as af
from autofit import exc

for lo, hi in [(1e-200, 1e200), (1e-320, 1.0)]:
    p = af.LogUniformPrior(lower_limit=lo, upper_limit=hi)
    raised = 0
    for u in (0.1, 0.25, 0.5, 0.75, 0.9):           # declared quantiles lo * (hi/lo)**u all lie strictly inside the limits
        try:
            p.value_for(u)
        except exc.PriorLimitException:
            raised += 1
    print("LogUniformPrior(%r, %r): value_for raised for %d of 5 unit values; scale =" % (lo, hi, raised), p.message.transforms[1].scale)
    assert raised == 5, "defect no longer reproduces"
