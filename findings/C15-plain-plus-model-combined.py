"""PYTHONPATH=/repo /venv/bin/python findings/C15-plain-plus-model-combined.py"""
import sys
import autofit as af
from autofit.non_linear.analysis.indexed import IndexedAnalysis


class A(af.Analysis):
    def __init__(self, name):
        self.name = name


m = af.Model(af.Gaussian)
a, b, c, d = A("a"), A("b"), A("c"), A("d")
good = (c.with_model(m) + d) + (a + b)
bad = (a + b) + (c.with_model(m) + d)
show = lambda s: (type(s).__name__, [(type(x).__name__, getattr(x, "index", None)) for x in s.analyses])
print("(c' + d) + (a + b) ->", show(good))
print("(a + b) + (c' + d) ->", show(bad), " modify_model returns a Collection:", isinstance(bad.modify_model(m), af.Collection))
sys.exit(0 if type(bad).__name__ == "CombinedModelAnalysis" and all(
    isinstance(x, IndexedAnalysis) and x.index == i for i, x in enumerate(bad.analyses)) else 1)
