"""C01 finding: a constructor argument named '<tuple argument>_<something>' is stored inside the tuple prior.
Run: /venv/bin/python findings/C01-arg-prefix-is-tuple-arg.py"""
import sys, os
sys.path.insert(0, os.path.join(os.path.dirname(os.path.abspath(__file__)), "..", "harness", "impl"))
from vimpl_common import setup
af, conf = setup("/tmp/c01_finding_scratch")
import vclasses, shutil
p0, p1, p2 = [af.UniformPrior(0.0, 1.0) for _ in range(3)]
m = af.Model(vclasses.CE, centre_err=p2)      # class CE: __init__(self, centre=(0., 0.), centre_err=.5)
m.centre_0 = p0
m.centre_1 = p1
i = m.instance_from_vector([0.125, 0.25, 0.375])
shutil.rmtree("/tmp/c01_finding_scratch", ignore_errors=True)
print("paths", m.paths, "centre", i.centre, "centre_err", i.centre_err)
assert (i.centre, i.centre_err) != ((0.125, 0.25), 0.375), "instance built correctly (defect repaired?)"
print("VIOLATION: expected centre (0.125, 0.25) and centre_err 0.375")
