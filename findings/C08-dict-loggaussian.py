"""C08 finding: LogGaussianPrior does not survive dict/JSON.  Run: PYTHONPATH=/repo /venv/bin/python findings/C08-dict-loggaussian.py"""
import autofit as af

model = af.Model(af.Gaussian, centre=af.LogGaussianPrior(mean=0.5, sigma=0.25))
print(model.dict()["arguments"]["centre"])       # no mean / sigma
try:
    af.AbstractPriorModel.from_dict(model.dict())
except TypeError as e:
    print(type(e).__name__, e)
