"""C14 finding sneakier-reentered-after-exit: PYTHONPATH=/repo /venv/bin/python -W ignore findings/C14-sneakier-reenter.py
One SneakierPool object used twice: the second with-block fails (the first __exit__ deleted the class-global cache)."""
from autofit.non_linear.parallel import SneakierPool


class Mul:
    def __init__(self, m):
        self.m = m

    def __call__(self, x):
        return self.m * x + 1


pool = SneakierPool(processes=2, fitness=Mul(3))
with pool as p:
    print("first use :", p.map(p.fitness, [1, 2, 3]), "(serial: [4, 7, 10])")
try:
    with pool as p:
        print("second use:", p.map(p.fitness, [4]), "(serial: [13])")
except Exception as e:  # noqa
    print("second use: %s: %s   (serial: [13])  <-- VIOLATION" % (type(e).__name__, e))
