"""C14 finding: two SneakierPools constructed before the first one is used evaluate the wrong function.
Run: PYTHONPATH=/repo /venv/bin/python findings/C14-sneakier-two-pools.py"""
from autofit.non_linear.parallel import SneakierPool


def f1(x):
    return 3 * x + 1


def f2(x):
    return 100 * x + 1


if __name__ == "__main__":
    p1 = SneakierPool(processes=2, fitness=f1)
    p2 = SneakierPool(processes=2, fitness=f2)
    with p1 as pool:
        r1 = pool.map(pool.fitness, [1, 2, 3])
    print("pool 1:", r1, "<- expected", [f1(x) for x in [1, 2, 3]])
    try:
        with p2 as pool:
            r2 = pool.map(pool.fitness, [1, 2])
    except Exception as e:  # noqa
        r2 = "%s: %s" % (type(e).__name__, e)
    print("pool 2:", r2, "<- expected", [f2(x) for x in [1, 2]])
    assert r1 == [f1(x) for x in [1, 2, 3]] and r2 == [f2(x) for x in [1, 2]]
