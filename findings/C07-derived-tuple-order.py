"""C07 finding: a model DERIVED by the library (grid-search cell, prior passing, with_limits, ...) from a model holding a
tuple whose first member is fixed and whose second is free has another identifier than the equal model composed by hand:
TuplePrior.gaussian_tuple_prior_for_arguments fills the new tuple with its priors first, and the order of attributes is
part of the description the identifier is computed from.
Run: PYTHONPATH=/repo /venv/bin/python findings/C07-derived-tuple-order.py"""
import autofit as af
from autofit.mapper.identifier import Identifier


class Profile:
    def __init__(self, centre=(0.0, 0.0), intensity=1.0):
        self.centre = centre
        self.intensity = intensity


def compose(upper):
    model = af.Model(Profile, intensity=af.UniformPrior(0.0, 1.0))
    model.centre_0 = 2.0                              # fixed first member
    model.centre_1 = af.UniformPrior(0.0, upper)      # free second member
    return model


model = compose(1.0)
copy = model.mapper_from_prior_arguments({p: p for p in model.priors})          # every prior stands for itself
cell = model.mapper_from_partial_prior_arguments({model.centre.centre_1: af.UniformPrior(0.0, 0.5)})
print(Identifier(model).hash_list)
print(Identifier(copy).hash_list)
assert copy.instance_from_prior_medians().centre == model.instance_from_prior_medians().centre, "not an equal model"
assert str(Identifier(copy)) != str(Identifier(model)) and str(Identifier(cell)) != str(Identifier(compose(0.5))), \
    "identifiers agree (defect repaired?)"
print("VIOLATION: the derived model and the equal model composed by hand have different identifiers")
