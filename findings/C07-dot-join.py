"""C07 finding: tokens are joined by '.' without escaping.
Run: PYTHONPATH=/repo /venv/bin/python findings/C07-dot-join.py"""
import autofit as af
from autofit.mapper.identifier import Identifier

def model(**extra):
    m = af.Model(af.Gaussian, centre=af.UniformPrior(0.0, 1.0), normalization=1.0, sigma=1.0)
    for k, v in extra.items():
        setattr(m, k, v)
    return m

a, b = Identifier(model(note="p.q")), Identifier(model(note="p", q=None))
print(a.hash_list[-2:], b.hash_list[-3:])
assert a.hash_list != b.hash_list and str(a) == str(b), "identifiers differ (defect repaired?)"
print("VIOLATION: different descriptions, one identifier:", a)
