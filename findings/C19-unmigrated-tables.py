"""C19 finding: mapper tables `dict` / `compound` have no migration step: on the repository's own
historical database, samples cannot be stored after migration."""
import os, shutil, sys, tempfile
REPO = os.environ.get("VERIF_REPO", "/repo"); sys.path.insert(0, REPO)
import autofit as af; from autoconf import conf
tmp = tempfile.mkdtemp(); conf.instance.push(new_path="/verif/harness/config", output_path=tmp)
import autofit.database as db
path = os.path.join(tmp, "old.sqlite")
shutil.copy(os.path.join(REPO, "test_autofit/database/migration/database.sqlite"), path)
s = db.open_database(path)
model = af.Model(af.Gaussian)
fit = db.Fit(id="fit", model=model); s.add(fit); s.commit()
try:
    fit.samples = af.Samples(model=model, sample_list=[af.Sample(-1.0, 0.0, 1.0, {"centre": 0.0, "normalization": 1.0, "sigma": 1.0})])
    s.commit(); print("samples stored (defect repaired)"); ok = True
except Exception as e:
    print("DEFECT:", type(e).__name__, str(e).splitlines()[0][:150]); ok = False
s.close(); s.get_bind().dispose(); shutil.rmtree(tmp)
assert not ok
