"""C11 finding: a Drawer search's persisted settings cannot be read back.
Run: PYTHONPATH=/repo /venv/bin/python -W ignore findings/C11-drawer-search-json.py"""
import json, os, sys
sys.path.insert(0, os.environ.get("VERIF_REPO", "/repo"))
import autofit as af
from autoconf.dictable import to_dict, from_dict

case = json.load(open(os.path.splitext(os.path.abspath(__file__))[0] + ".json"))["case"]
search = af.Drawer(name=case["name"], unique_tag=case["tag"], **case["kwargs"])
d = json.loads(json.dumps(to_dict(search)))           # what paths.save_all writes to files/search.json
print("persisted keys:", sorted(d["arguments"]))
try:
    from_dict(d)                                      # what SearchOutput.search executes
    print("OK: read back")
except TypeError as e:
    print("DEFECT: TypeError:", e)
