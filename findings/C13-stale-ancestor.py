"""C13 finding: unfreeze does not invalidate the caches of frozen ancestors.
Run: PYTHONPATH=/repo /venv/bin/python -W ignore findings/C13-stale-ancestor.py"""
import autofit as af

class G:
    def __init__(self, a=0.0, b=0.0):
        self.a, self.b = a, b

child = af.Model(G, a=af.UniformPrior(0.0, 1.0), b=af.UniformPrior(0.0, 1.0))
p1 = af.Collection(m=child)
p2 = af.Collection(m=child, n=af.UniformPrior(0.0, 1.0))
p1.freeze(); p2.freeze()
print(p1.prior_count)                      # 2 (now cached)
p2.unfreeze()                              # unfreezes the shared child; p1 stays frozen with its cache
child.e = af.UniformPrior(0.0, 1.0)        # accepted: child is not frozen any more
print(p1.prior_count, p1.copy().prior_count, p2.prior_count)   # 2 3 4
assert p1.prior_count == p1.copy().prior_count, "frozen parent answers from a composition that no longer exists"
