"""C05 finding: with number_of_cores >= 2 the initializer evaluates its points through SneakyPool.map,
which yields results in COMPLETION order (C14), and zips them with the parameters by position.
DynestyStatic seeds its live points from those pairs, so returned samples carry the likelihood
of another point.  The likelihood below is slow for a < 0.5 so that the second job of a batch
overtakes the first.  FIXED in /repo by c80ac95 (the script now exits 0; it failed before).  Run:  /venv/bin/python findings/C05-multicore-sneakypool-order.py  (~20 s)"""
import atexit, os, shutil, sys, tempfile
sys.path.insert(0, os.path.join(os.path.dirname(os.path.abspath(__file__)), "..", "harness", "impl"))
scratch = tempfile.mkdtemp(prefix="c05_finding_")
atexit.register(shutil.rmtree, scratch, True)
os.environ["VERIF_SCRATCH"] = scratch
from vimpl_common import setup
af, conf = setup()
import logging; logging.disable(logging.CRITICAL)
import time
import numpy as np
import vclasses

class Analysis(af.Analysis):
    def log_likelihood_function(self, instance):
        if instance.a < 0.5:
            time.sleep(0.02)
        return -((instance.a - 0.3) ** 2 + 4.0 * (instance.b - 0.7) ** 2)

if __name__ == "__main__":
    np.random.seed(2)
    model = af.Model(vclasses.G2, a=af.UniformPrior(lower_limit=0.0, upper_limit=1.0), b=af.UniformPrior(lower_limit=0.0, upper_limit=1.0))
    search = af.DynestyStatic(name="c05_multicore", nlive=20, maxcall=150, number_of_cores=2)
    result = search.fit(model=model, analysis=Analysis())
    bad = []
    for s in result.samples.sample_list:
        a, b = s.kwargs[("a",)], s.kwargs[("b",)]
        truth = -((a - 0.3) ** 2 + 4.0 * (b - 0.7) ** 2)
        if abs(truth - s.log_likelihood) > 1e-9:
            bad.append(((a, b), s.log_likelihood, truth))
    print("samples:", len(result.samples.sample_list), "with a wrong log_likelihood:", len(bad))
    print("first ((a, b), reported, recomputed):", bad[:2])
    sys.exit(1 if bad else 0)
