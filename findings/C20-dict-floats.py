"""C20 finding: a float parameter held in a dict-valued attribute makes every off-node query raise.
Run: PYTHONPATH=/repo /venv/bin/python -W ignore findings/C20-dict-floats.py"""
import json, os
import autofit as af


class Profile:
    def __init__(self, params):
        self.params = params


spec = json.load(open(os.path.join(os.path.dirname(os.path.abspath(__file__)), "C20-dict-floats.json")))
bad = 0
for c in spec["cases"]:
    series = [af.ModelInstance(dict(t=t, g=Profile({"a": a}))) for t, a in zip(c["t"], c["a"])]
    interp = getattr(af, c["interpolator"])(series)
    print("float paths found by the walk:", [p for p, _ in series[0].path_instance_tuples_for_class(float)])
    try:
        res = interp[interp.t == c["query"]]
        print("query %r -> params = %r" % (c["query"], res.g.params))
        bad += res.g.params["a"] != 1.0
    except Exception as e:
        print("query %r raised %s: %s" % (c["query"], type(e).__name__, e))
        bad += 1
print("VIOLATED" if bad else "holds")
