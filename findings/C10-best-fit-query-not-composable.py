"""Reproduction of a C10 finding against the real code:  PYTHONPATH=/repo /venv/bin/python -W ignore C10-best-fit-query-not-composable.py
grid_searches().best_fits() cannot be filtered or navigated further: BestFitQuery.fit_query ends with ';' and is
pasted into 'id IN (...)' / 'parent_id in (...)' / another WITH, which sqlite rejects (near ";": syntax error)."""
import logging; logging.disable(logging.CRITICAL)
from autofit import database as db
from autofit.database.model import sa
from autofit.database.aggregator.aggregator import Aggregator


class G:
    def __init__(self, **kw):
        self.__dict__.update(kw)


engine = sa.create_engine("sqlite://")
session = sa.orm.sessionmaker(bind=engine)()
db.Base.metadata.create_all(engine)
session.add_all([
    db.Fit(id="g0", instance=G(a=1.0), name="grid", is_grid_search=True, is_complete=True),
    db.Fit(id="c0", instance=G(a=1.0), name="cell", parent_id="g0", max_log_likelihood=1.0, is_complete=True),
    db.Fit(id="c1", instance=G(a=2.0), name="cell", parent_id="g0", max_log_likelihood=3.0, is_complete=True),
    db.Fit(id="c2", instance=G(a=3.0), name="other", parent_id="g0", max_log_likelihood=2.0, is_complete=True),
])
session.commit()
agg = Aggregator(session)
best = agg.grid_searches().best_fits()
print("best_fits():", [f.id for f in best.fits])
assert [f.id for f in best.fits] == ["c1"]
failed = 0
for name, make in [("best_fits().query(name == 'cell')", lambda: best.query(agg.search.name == "cell")),
                   ("best_fits()(model.a == 2.0)", lambda: best(agg.model.a == 2.0)),
                   ("best_fits().children()", lambda: best.children()),
                   ("best_fits().grid_searches()", lambda: best.grid_searches())]:
    try:
        print(name, "->", [f.id for f in make().fits])
    except Exception as e:
        failed += 1
        print(name, "raised", type(e).__name__, str(e).splitlines()[0])
assert failed == 4
print("reproduced: best-fit-query-not-composable")
