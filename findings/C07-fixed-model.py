"""C07 finding: a component without free parameters is read back as a plain object; the identifier changes.
Run: PYTHONPATH=/repo /venv/bin/python findings/C07-fixed-model.py"""
import json
import autofit as af
from autofit.mapper.identifier import Identifier
from autoconf.dictable import to_dict, from_dict

model = af.Collection(
    fixed=af.Model(af.Gaussian, centre=1.0, normalization=2.0, sigma=3.0),
    free=af.Model(af.Gaussian, centre=af.UniformPrior(0.0, 1.0), normalization=1.0, sigma=1.0))
back = from_dict(json.loads(json.dumps(to_dict(model))))
print(Identifier(model).hash_list[3:8], Identifier(back).hash_list[3:8])
assert str(Identifier(model)) != str(Identifier(back)), "identifiers agree (defect repaired?)"
print("VIOLATION: identifier changed by the JSON round trip")
