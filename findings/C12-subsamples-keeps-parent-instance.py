"""C12 finding: a child summary made by subsamples() keeps the parent's cached instance.
Run: PYTHONPATH=/repo /venv/bin/python -W ignore findings/C12-subsamples-keeps-parent-instance.py"""
import autofit as af
from autofit import Sample
from autofit.non_linear.samples.summary import SamplesSummary


class G:
    def __init__(self, centre=0.0, sigma=1.0):
        self.centre, self.sigma = centre, sigma


g = af.Model(G, centre=af.UniformPrior(-10.0, 10.0), sigma=af.UniformPrior(-10.0, 10.0))
joint = af.Collection(m=g, centre=g.sigma, sigma=g.centre)     # the joint model exposes g's parameters under each other's names
sample = Sample.from_lists(joint, [[-4.0, 7.25]], [1.0], [0.0], [1.0])[0]     # centre = -4, sigma = 7.25

fresh = SamplesSummary(max_log_likelihood_sample=sample, median_pdf_sample=sample, model=joint)
print("child made first :", type(fresh.subsamples(joint.m).instance).__name__, fresh.subsamples(joint.m).instance.centre)   # G -4.0

used = SamplesSummary(max_log_likelihood_sample=sample, median_pdf_sample=sample, model=joint)
used.instance                                                  # the joint result is looked at first
child = used.subsamples(joint.m)
print("joint read first :", type(child.instance).__name__, child.instance.centre)      # ModelInstance 7.25  (expected G -4.0)
