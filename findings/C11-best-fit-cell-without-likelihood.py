"""C11 finding (grid-best-fit-cell-without-likelihood): writes the grid search of the JSON case with the real code into a scratch directory,
loads it with Aggregator.add_directory (and writes it through a database session) and prints the best fit of the
grid search through every route of the library.
Run: /venv/bin/python findings/C11-best-fit-cell-without-likelihood.py"""
import json, os, subprocess, sys, tempfile
here = os.path.dirname(os.path.abspath(__file__)); verif = os.path.dirname(here)
case = json.load(open(os.path.join(here, "C11-best-fit-cell-without-likelihood.json")))["case"]
with tempfile.TemporaryDirectory() as tmp:
    json.dump({"cases": [case]}, open(os.path.join(tmp, "in.json"), "w"))
    env = dict(os.environ, VERIF_SCRATCH=os.path.join(tmp, "s"), VERIF_DIR=verif,
               PYTHONPATH=os.environ.get("VERIF_REPO", "/repo") + os.pathsep + os.path.join(verif, "harness"))
    subprocess.run(["/venv/bin/python", "-W", "ignore", os.path.join(verif, "harness", "impl", "c11_impl.py"),
                    os.path.join(tmp, "in.json"), os.path.join(tmp, "out.json")], env=env, check=True,
                   stdout=subprocess.DEVNULL, stderr=subprocess.DEVNULL)
    r = json.load(open(os.path.join(tmp, "out.json")))["results"][0]["ok"]
for route, st in (("directory", r["scrape"]), ("session", r["direct"])):
    print(route, "route")
    for f in st["fits"]:
        if f["is_grid_search"]:
            print("  grid search", f["id"], "Fit.best_fit ->", f["best_fit"], "| best_fits() ->", st["best_fits_by_parent"].get(f["id"]))
        else:
            print("  cell", f["id"], "max_log_likelihood", f["max_log_likelihood"], "complete", f["is_complete"])
