"""C12 finding: a float constant held directly by a Collection is dropped by prior passing.
Run: PYTHONPATH=/repo /venv/bin/python -W ignore findings/C12-collection-constant.py"""
import autofit as af


class G:
    def __init__(self, a=0.0, b=1.0):
        self.a, self.b = a, b


model = af.Collection(k=2.0, g=af.Model(G, a=af.UniformPrior(-1.0, 1.0), b=af.UniformPrior(-2.0, 1.0)))
new = model.mapper_from_prior_means([0.5, 0.25], a=1.0)
print("before:", sorted(vars(model.instance_from_vector([0.0, 0.0])).keys() & {"k", "g"}))     # ['g', 'k']
print("after: ", sorted(vars(new.instance_from_vector([0.0, 0.0], ignore_prior_limits=True)).keys() & {"k", "g"}))  # ['g']
print("with_limits:", hasattr(model.with_limits([(-0.5, 0.5), (-1.0, 0.0)]), "k"))              # False
