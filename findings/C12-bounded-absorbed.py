"""C12 finding: model_bounded(b) fails for inferred values so large that value +- b rounds to value.
Run: PYTHONPATH=/repo /venv/bin/python -W ignore findings/C12-bounded-absorbed.py"""
import autofit as af


class G:
    def __init__(self, a=0.0, b=1.0):
        self.a, self.b = a, b


model = af.Model(G, a=af.UniformPrior(-1.0, 1.0), b=af.UniformPrior(-2.0, 1.0))
print(model.mapper_from_uniform_floats([3.0, 0.5], b=1.0).a)          # UniformPrior 2.0 .. 4.0
try:
    model.mapper_from_uniform_floats([2.0 ** 60, 0.5], b=1.0)
except Exception as e:                                                 # PriorException: upper limit must be greater ...
    print(type(e).__name__, e)
