"""C18 finding: three crashes of the stochastic-EP subset path on variables without the plate."""
import numpy as np
from autofit.graphical import EPMeanField, MeanField, Factor, FactorGraph
from autofit.mapper.variable import Variable, Plate
from autofit.messages.normal import NormalMessage as N


class Fn:
    __name__ = "fn"
    def __init__(self, n): self.shape = (n,)
    def __call__(self, *a): return np.zeros(self.shape)
    def __getitem__(self, index): return Fn(int(np.size(index)))


p = Plate("p")
a, b = Variable("a", p), Variable("b")
g1 = Factor(Fn(3), a, b, name="g1", plates=(p,), arg_names=["x0", "x1"])
g2 = Factor(Fn(3), a, name="g2", plates=(p,), arg_names=["x0"])
g3 = Factor(Fn(3), a, b, name="g3", plates=(p,), arg_names=["x0", "x1"])
gs = Factor(lambda x0: 0.0, b, name="gs", arg_names=["x0"])
A = lambda: N(np.array([0.0, 1.0, 2.0]), np.array([1.0, 2.0, 4.0]))
failed = []
for name, factors, mfs, act in [
    ("subset-factor-without-plate", [g1, gs], [{a: A(), b: N(1.0, 2.0)}, {b: N(0.0, 1.0)}],
     lambda ap: ap.subset({p: [0]})),
    ("subset-scalar-variable-single-owner", [g1, g2], [{a: A(), b: N(1.0, 2.0)}, {a: A()}],
     lambda ap: ap.subset({p: [0, 2]}).factor_approximation(g1)),
    ("subset-inplace-writeback-scalar-variable", [g1, g3], [{a: A(), b: N(1.0, 2.0)}, {a: A(), b: N(0.0, 1.0)}],
     lambda ap: ap.update(ap.subset({p: [0, 2]}))),
]:
    ap = EPMeanField(FactorGraph(factors), {f: MeanField(m) for f, m in zip(factors, mfs)})
    try:
        act(ap)
        print(name, "ok")
    except Exception as e:   # noqa
        print(name, "->", type(e).__name__, e)
        failed.append(name)
assert not failed, "the subset path crashed: %s" % failed
