"""C08 finding: a Collection read back from the database has no item_number.  Run: PYTHONPATH=/repo /venv/bin/python findings/C08-db-collection-item-number.py"""
import autofit as af
from autofit import database as db
from autofit.database.model import sa

engine = sa.create_engine("sqlite://")
session = sa.orm.sessionmaker(bind=engine)()
db.Base.metadata.create_all(engine)
session.add(db.Fit(id="fit", model=af.Collection([af.Model(af.Gaussian)]))); session.commit(); session.close()
loaded = sa.orm.sessionmaker(bind=engine)().query(db.Fit).one().model
print("item_number" in loaded.__dict__)          # False
try:
    loaded.append(af.Model(af.Gaussian))
except AttributeError as e:
    print("append:", e)
