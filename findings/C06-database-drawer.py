# PYTHONPATH=/repo /venv/bin/python -W ignore findings/C06-database-drawer.py
# A Drawer fit through a database session never terminates normally.
import tempfile, logging, shutil, autofit as af
from autoconf import conf
out = tempfile.mkdtemp(); conf.instance.push(new_path="/verif/harness/config", output_path=out); logging.disable(50)
class A(af.Analysis):
    def log_likelihood_function(self, instance): return -(instance.centre - 0.3) ** 2
    def should_visualize(self, paths, during_analysis=True): return False
m = af.Model(af.Gaussian, centre=af.UniformPrior(0.0, 1.0), normalization=1.0, sigma=1.0)
session = af.db.open_database(out + "/db.sqlite")
for i in range(2):
    try: af.Drawer(name="fit", total_draws=4, session=session).fit(m, A()); print("run", i, "ok")
    except Exception as e: print("run", i, "raised", type(e).__name__, e)
shutil.rmtree(out, ignore_errors=True)
