"""C18 finding: an indexed in-place write on the newest approximation rewrites approximations recorded earlier."""
import numpy as np
from autofit.graphical import EPMeanField, MeanField, Factor, FactorGraph
from autofit.graphical.expectation_propagation import EPHistory
from autofit.graphical.utils import Status
from autofit.mapper.variable import Variable, Plate
from autofit.messages.normal import NormalMessage as N

p = Plate("p")
x = Variable("x", p)
f0 = Factor(lambda x: np.zeros(2), x, name="f0", plates=(p,))
f1 = Factor(lambda x: np.zeros(2), x, name="f1", plates=(p,))
ap = EPMeanField(FactorGraph([f0, f1]), {f0: MeanField({x: N(np.array([0.0, 0.0]), np.array([1.0, 1.0]))}),
                                        f1: MeanField({x: N(np.array([1.0, 1.0]), np.array([1.0, 1.0]))})})
hist = EPHistory(kl_tol=None)
ap2, st = ap.project_mean_field(MeanField({x: N(np.array([0.5, 0.5]), np.array([0.5, 0.5]))}), ap.factor_approximation(f0))
hist(f0, ap2, st)                                   # recorded: global mean of x = [0.5, 0.5]
ap3, st = ap2.project_mean_field(MeanField({x: N(np.array([0.5, 0.5]), np.array([0.25, 0.25]))}), ap2.factor_approximation(f1))
recorded = hist[f0].latest_successful.mean_field[x].mean.copy()
ap3.update_factor_mean_field(f0, MeanField({x: N(np.array([9.0]), np.array([0.1]))}), {p: [0]})   # stochastic-EP write-back
print("recorded entry before:", recorded, " after the write on the NEWER object:", hist[f0].latest_successful.mean_field[x].mean)
assert np.array_equal(recorded, hist[f0].latest_successful.mean_field[x].mean), "a recorded history entry was rewritten"
