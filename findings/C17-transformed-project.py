# C17 finding: TransformedMessage.project fits the BASE message to the samples as given (they live in the
# transformed space) and drops the id_/limits keyword arguments.
# run: PYTHONPATH=/repo /venv/bin/python findings/C17-transformed-project.py
import numpy as np
import autofit as af
p = af.UniformPrior(1.0, 3.0)
s = np.linspace(1.6, 2.4, 9)               # mean 2.0, well inside (1, 3)
q = p.project(s, np.zeros(9))
m = q.message
print("sample mean", s.mean(), "-> projected base", m.base_message.parameters, " message mean", m.mean)
print("limits of the projected message", (m.lower_limit, m.upper_limit))
assert abs(m.mean - s.mean()) > 0.5        # 2.95.. instead of 2.0
assert (m.lower_limit, m.upper_limit) == (float("-inf"), float("inf"))
