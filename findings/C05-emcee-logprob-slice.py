"""C05 finding: Emcee.samples_via_internal_from pairs the thinned chain with a shifted, unthinned
slice of the log-probabilities.  FIXED in /repo by 97df212 (the script now exits 0).  Run:  /venv/bin/python findings/C05-emcee-logprob-slice.py
One walker walks a = 0, 1, 2, ... with log-likelihood -a (flat prior).  Every returned sample must
carry log_likelihood == -a; the pinned code reports the log-probability of a different step."""
import atexit, os, shutil, sys, tempfile
sys.path.insert(0, os.path.join(os.path.dirname(os.path.abspath(__file__)), "..", "harness", "impl"))
scratch = tempfile.mkdtemp(prefix="c05_finding_")
atexit.register(shutil.rmtree, scratch, True)
os.environ["VERIF_SCRATCH"] = scratch
from vimpl_common import setup
af, conf = setup()
import numpy as np, emcee
from emcee.state import State

class G:
    def __init__(self, a=0.0):
        self.a = a

model = af.Model(G, a=af.UniformPrior(lower_limit=0.0, upper_limit=100.0))
backend = emcee.backends.Backend()
backend.reset(1, 1)
backend.grow(40, None)
for step in range(40):
    backend.save_step(State(np.array([[float(step)]]), log_prob=np.array([-float(step)])), np.ones(1, dtype=bool))
backend.get_autocorr_time = lambda **kw: np.array([4.0])      # => discard = 12, thin = 2
search = af.Emcee(name="c05_emcee", nwalkers=1, auto_correlation_settings=af.AutoCorrelationsSettings(
    check_for_convergence=False, check_size=2, required_length=50, change_threshold=0.01))
samples = search.samples_via_internal_from(model=model, search_internal=backend)
bad = [(s.kwargs[("a",)], s.log_likelihood) for s in samples.sample_list if s.log_likelihood != -s.kwargs[("a",)]]
print("samples:", len(samples.sample_list), "with a wrong log_likelihood:", len(bad))
print("first (a, reported log_likelihood):", bad[:4])
sys.exit(1 if bad else 0)
