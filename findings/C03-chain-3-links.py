"""C03 finding chain-3-links (repaired by 33cdc7f): PYTHONPATH=/repo /venv/bin/python findings/C03-chain-3-links.py
Before the repair: the vector was accepted and the constant form raised TypeError."""
import autofit as af


class G3:
    def __init__(self, x=0.0, y=1.0, z=2.0):
        self.x, self.y, self.z = x, y, z


x, y, z = (af.UniformPrior(lower_limit=0.0, upper_limit=10.0) for _ in range(3))
model = af.Model(G3, x=x, y=y, z=z)
model.add_assertion(((x < y) < z) < 9.0)          # x < y and y < z and z < 9
try:
    instance = model.instance_from_vector([3.0, 2.0, 5.0])
    print("DEFECT: accepted although 3 < 2 is false:", instance.x, instance.y, instance.z)
except af.exc.FitException as e:
    print("rejected, as it should be:", str(e).splitlines()[0])
print("accepted:", vars(model.instance_from_vector([1.0, 2.0, 5.0])))
