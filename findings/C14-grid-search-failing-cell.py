"""C14 finding: a failing cell of a parallel grid search is reported as AttributeError, not as the fit's exception.
Run: cd <scratch dir> && PYTHONPATH=/repo /venv/bin/python /verif/findings/C14-grid-search-failing-cell.py"""
import os
import tempfile
import autofit as af
from autoconf import conf

conf.instance.push(new_path="/verif/harness/config", output_path=tempfile.mkdtemp(prefix="c14grid_"))


class Analysis(af.Analysis):
    def log_likelihood_function(self, instance):
        if 1 / 3 < instance.g.centre < 2 / 3:
            raise ValueError("the fit of the middle cell fails")
        return -1.0


def run(cores):
    prior = af.UniformPrior(lower_limit=0.0, upper_limit=1.0)
    model = af.Collection(g=af.Model(af.Gaussian, centre=prior, normalization=1.0, sigma=1.0))
    gs = af.SearchGridSearch(search=af.m.MockSearch(name="cells%d" % cores), number_of_steps=3, number_of_cores=cores)
    try:
        gs.fit(model, Analysis(), [prior])
        return "returned"
    except Exception as e:  # noqa
        return "%s: %s" % (type(e).__name__, e)


if __name__ == "__main__":
    serial, parallel = run(1), run(3)
    print("number_of_cores=1:", serial)
    print("number_of_cores=3:", parallel)
    assert parallel.split(":")[0] == serial.split(":")[0], "parallel and serial report different exceptions"
    os._exit(0)
