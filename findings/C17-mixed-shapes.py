# C17 finding: array message (op) scalar message. natural_parameters have shapes (2, n) and (2,): numpy broadcasts the
# scalar's two natural parameters along the ELEMENT axis -- ValueError for n != 2, silently wrong for n == 2.
# run: PYTHONPATH=/repo /venv/bin/python -W ignore findings/C17-mixed-shapes.py
import numpy as np
from autofit.messages.normal import NormalMessage
a = NormalMessage(np.array([0.0, 1.0]), np.array([1.0, 2.0]))
b = NormalMessage(0.5, 1.0)
r = a * b
print("a * b ->", r.mean, r.sigma, " (elementwise products are N(0.25, 0.707) and N(0.6, 0.894))")
assert not np.allclose(r.mean, [0.25, 0.6], equal_nan=False)
try:
    NormalMessage(np.array([0.0, 1.0, 2.0]), np.array([1.0, 2.0, 3.0])) * b
    raise SystemExit("no exception")
except ValueError as e:
    print("n = 3:", e)
