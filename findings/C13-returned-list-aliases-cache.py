"""C13 finding: a frozen model hands out the list objects held in its frozen cache.
A caller (or any library routine) that sorts / edits the list it was given changes what the frozen model
answers next; the unfrozen model, and a copy, answer from the composition.
Run: PYTHONPATH=/repo /venv/bin/python -W ignore findings/C13-returned-list-aliases-cache.py"""
import autofit as af
from autofit.mapper.prior.abstract import Prior


class G:
    def __init__(self, a=0.0, b=0.0):
        self.a, self.b = a, b


b, a = af.UniformPrior(0.0, 1.0), af.UniformPrior(0.0, 1.0)          # ids not in attribute order
m = af.Collection(g=af.Model(G, a=a, b=b))
where = lambda model: [path for path, _ in model.path_instance_tuples_for_class(Prior)]
before = where(m)
m.freeze()
got = m.path_instance_tuples_for_class(Prior)
got.reverse(); got.pop()                                             # the caller edits ITS list
after = where(m)
print(before, after, where(m.copy()))            # [('g','a'),('g','b')] [('g','b')] [('g','a'),('g','b')]
children = m.g.direct_tuples_with_type(Prior)
children.clear()
try:
    print(vars(m.instance_from_vector([0.25, 0.75]).g))               # a, b are no longer passed to G: {'a': 0.0, 'b': 0.0}
except Exception as e:
    print("instance_from_vector raised", type(e).__name__, e)
assert after == before, "a frozen model's answer depends on what the caller did to an earlier answer"
