# PYTHONPATH=/repo /venv/bin/python -W ignore findings/C06-start-time-empty.py
# Killed between open(".start_time", "w+") and the write: every re-run raises ValueError.
import os, glob, tempfile, logging, autofit as af
from autoconf import conf
out = tempfile.mkdtemp(); conf.instance.push(new_path="/verif/harness/config", output_path=out); logging.disable(50)
class A(af.Analysis):
    def log_likelihood_function(self, instance): return -(instance.centre - 0.3) ** 2
m = af.Model(af.Gaussian, centre=af.UniformPrior(0.0, 1.0), normalization=1.0, sigma=1.0)
s = af.Drawer(name="fit", total_draws=4); s.paths.model = m
p = str(s.paths.search_internal_path); open(p + "/.start_time", "w+").close()   # the state the kill leaves
for i in range(2):
    try: af.Drawer(name="fit", total_draws=4).fit(m, A())
    except Exception as e: print("run", i, "raised", type(e).__name__, e)
import shutil; shutil.rmtree(out, ignore_errors=True)
