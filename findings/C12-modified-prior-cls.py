"""C12 finding modified-prior-cls: passing priors through a model that contains -p, abs(p) or p - q raises.

ModifiedPrior.cls returns self.prior.cls; a Prior has no `cls`.  mapper_from_prior_means (result.model, model_absolute,
model_relative) asks the holder of every prior for its class: hasattr(holder, "cls") is False for the unary form, the
fallback holder.prior_class_dict[prior] evaluates self.cls again and the AttributeError escapes.
Run: PYTHONPATH=/repo /venv/bin/python findings/C12-modified-prior-cls.py   (exit status 1 while the defect is there)"""
import sys
import autofit as af


class G2:
    def __init__(self, a=0.0, b=1.0):
        self.a = a
        self.b = b


bad = 0
for name, build in [("-p", lambda p, q: -p), ("abs(p)", lambda p, q: abs(p)), ("p - q", lambda p, q: p - q)]:
    p, q = af.UniformPrior(0.0, 1.0), af.UniformPrior(0.0, 2.0)
    model = af.Collection(g=af.Model(G2, a=build(p, q), b=q))
    try:
        new = model.mapper_from_prior_means([0.5] * model.prior_count, a=1.0)
        same = new.paths == model.paths and new.prior_count == model.prior_count
        print("%-7s passed: same paths and count: %s" % (name, same))
        bad += not same
    except Exception as e:      # noqa
        print("%-7s mapper_from_prior_means raised %s: %s" % (name, type(e).__name__, e))
        bad += 1
sys.exit(1 if bad else 0)
