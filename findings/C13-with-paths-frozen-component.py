"""C13 finding: with_paths on a frozen Model that holds a component raises; unfrozen it works.
Run: PYTHONPATH=/repo /venv/bin/python -W ignore findings/C13-with-paths-frozen-component.py"""
import autofit as af


class G:
    def __init__(self, a=0.0, b=0.0):
        self.a, self.b = a, b


class H:
    def __init__(self, x=0.0):
        self.x = x


m = af.Model(H, x=af.Model(G, a=af.UniformPrior(0.0, 1.0), b=af.UniformPrior(0.0, 1.0)))
print(m.with_paths([("x",)]).prior_count)          # 2
m.freeze()
print(m.with_paths([("x", "a")]).prior_count)      # 1 (a single parameter: fine)
print(m.with_paths([("x",)]).prior_count)          # AssertionError: Frozen models cannot be modified
