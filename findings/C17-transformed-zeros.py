# C17 finding: zeros_like of a transformed normal is `** 0.` -> NormalMessage(nan, inf): natural parameters nan,
# so a * a.zeros_like() is not a (NormalMessage itself goes through NaturalNormal and gets (0, -0)).
# run: PYTHONPATH=/repo /venv/bin/python findings/C17-transformed-zeros.py
import numpy as np
import autofit as af
from autofit.messages.normal import NormalMessage
m = af.UniformPrior(1.0, 3.0).message
z = m.zeros_like()
print("base of zeros_like:", z.base_message.parameters, "natural parameters:", z.natural_parameters)
print("plain normal      :", NormalMessage(0.0, 1.0).zeros_like().natural_parameters)
print("m * zeros_like(m) :", (m * z).base_message.parameters)
assert np.isnan(z.natural_parameters).any()
