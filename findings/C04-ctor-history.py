"""C04 finding: the sanity evaluation inside Fitness.__init__ runs before the history lists exist.
Run: cd /tmp && PYTHONPATH=/repo /venv/bin/python /verif/findings/C04-ctor-history.py
(uses autofit's shipped default config, where general.yaml has test.check_likelihood_function: true)
Expected (property): the fitness of a resumed fit can be constructed and evaluates the stored best vector;
observed: AttributeError: 'Fitness' object has no attribute 'parameters_history_list'"""
import autofit as af
from autofit.non_linear.fitness import Fitness

class G:
    def __init__(self, a=0.0, b=0.0):
        self.a, self.b = a, b

class A(af.Analysis):
    def log_likelihood_function(self, instance):
        return -(instance.g.a + instance.g.b)

class Sample:                                     # what paths.load_samples_summary() provides on a resume
    log_likelihood = -0.75
    def parameter_lists_for_model(self, model):
        return [0.25, 0.5]

class Summary:
    max_log_likelihood_sample = Sample()

class Paths:
    def load_samples_summary(self):
        return Summary()

model = af.Collection(g=af.Model(G, a=af.UniformPrior(0.0, 1.0), b=af.UniformPrior(0.0, 1.0)))
Fitness(model=model, analysis=A(), paths=Paths(), store_history=False)       # fine
print("without history: constructed")
Fitness(model=model, analysis=A(), paths=Paths(), store_history=True)        # raises AttributeError
print("with history: constructed")
