"""C07 finding: model.json of a fit using LogGaussianPrior cannot be read back (mean/sigma are not written).
Run: PYTHONPATH=/repo /venv/bin/python findings/C07-log-gaussian.py"""
import json
import autofit as af
from autoconf.dictable import to_dict, from_dict

model = af.Model(af.Gaussian, centre=af.LogGaussianPrior(mean=1.0, sigma=2.0), normalization=1.0, sigma=1.0)
d = json.loads(json.dumps(to_dict(model)))
print(d["arguments"]["centre"])
try:
    from_dict(d)
    print("no violation: the files can be read back (repaired in /repo)")
except TypeError as e:
    print("VIOLATION: the identifier cannot be recomputed from the fit's files:", e)
