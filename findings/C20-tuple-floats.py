"""C20 finding: float parameters held in a tuple are not interpolated and the result depends on
the order of the series (they are copied from the first supplied instance).
Run: PYTHONPATH=/repo /venv/bin/python -W ignore findings/C20-tuple-floats.py"""
import json, os
import autofit as af

spec = json.load(open(os.path.join(os.path.dirname(os.path.abspath(__file__)), "C20-tuple-floats.json")))
bad = 0
for c in spec["cases"]:
    def series():
        return [af.ModelInstance(dict(t=t, centre=tuple(xy), sigma=2.0 * t)) for t, xy in zip(c["t"], c["centre"])]
    out = []
    for order in (series(), list(reversed(series()))):
        interp = getattr(af, c["interpolator"])(order)
        res = interp[interp.t == c["query"]]
        out.append(res.centre)
        print("order t=%s  query %r -> centre = %r, sigma = %r" % ([i.t for i in order], c["query"], res.centre, float(res.sigma)))
    if list(out[0]) != c["expected_centre"] or out[0] != out[1]:
        bad += 1
print("VIOLATED (centre is neither the interpolant nor independent of the order)" if bad else "holds")
