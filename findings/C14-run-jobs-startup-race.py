"""C14 finding: Process.run_jobs can poll forever (workers leave on job_queue.empty() before the jobs are visible).
Run: PYTHONPATH=/repo /venv/bin/python findings/C14-run-jobs-startup-race.py [calls]"""
import signal
import sys
import multiprocessing as mp
from autofit.non_linear.parallel.process import Process, AbstractJob, AbstractJobResult


class Result(AbstractJobResult):
    pass


class Job(AbstractJob):
    def perform(self):
        return Result(self.number)


class Hang(BaseException):
    pass


def on_alarm(*_):
    raise Hang()


if __name__ == "__main__":
    calls = int(sys.argv[1]) if len(sys.argv) > 1 else 100
    signal.signal(signal.SIGALRM, on_alarm)
    hangs = 0
    for k in range(calls):
        signal.alarm(5)
        got = []
        try:
            for r in Process.run_jobs([Job(number=i) for i in range(3)], 3):
                got.append(r.number)
            signal.alarm(0)
            assert sorted(got) == [0, 1, 2]
        except Hang:
            alive = [p.is_alive() for p in mp.active_children()]
            print("call %d: no return after 5 s; results so far %s; workers alive: %s" % (k, got, alive))
            hangs += 1
        finally:
            signal.alarm(0)
            for p in mp.active_children():
                p.terminate()
    print("%d of %d calls never returned" % (hangs, calls))
    assert hangs == 0
