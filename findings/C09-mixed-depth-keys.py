"""C09 finding: samples of a model mixing single-name and nested parameter paths cannot be read back.
Run: PYTHONPATH=/repo /venv/bin/python -W ignore findings/C09-mixed-depth-keys.py"""
import tempfile
import autofit as af
from autoconf import conf
from autofit.non_linear.samples.sample import Sample
from autofit.non_linear.samples.pdf import SamplesPDF


class Profile:  # the usual 2D component: a tuple argument and a float argument
    def __init__(self, centre=(0.0, 0.0), sigma=1.0):
        self.centre, self.sigma = centre, sigma


conf.instance.push(new_path="/verif/harness/config", output_path=tempfile.mkdtemp())
conf.instance["general"]["output"]["samples_to_csv"] = True
model = af.Model(Profile, sigma=af.UniformPrior(0.0, 1.0))
model.centre.centre_0 = af.UniformPrior(0.0, 1.0)
model.centre.centre_1 = af.UniformPrior(0.0, 1.0)
samples = SamplesPDF(model=model, samples_info={"total_iterations": 1, "time": 1.0},
                     sample_list=Sample.from_lists(model, [[0.1, 0.2, 0.3]], [-1.0], [0.0], [1.0]))
paths = af.DirectoryPaths(name="c09_mixed")
paths.model = model
paths.save_samples(samples)
paths.save_samples_summary(samples.summary())
print("in memory     :", samples.max_log_likelihood(as_instance=False))
print("reloaded keys :", list(paths.samples.sample_list[0].kwargs))
for what, f in (("samples.csv", lambda: paths.samples.max_log_likelihood(as_instance=False)),
                ("summary.json", lambda: paths.load_samples_summary().max_log_likelihood(as_instance=False))):
    try:
        print(what, "->", f())
    except KeyError as e:
        print(what, "-> KeyError", e)
