"""C12 finding: with_limits fails on a LogGaussianPrior.
Run: PYTHONPATH=/repo /venv/bin/python -W ignore findings/C12-with-limits-loggaussian.py"""
import autofit as af

try:
    af.Collection(a=af.LogGaussianPrior(1.0, 0.5)).with_limits([(0.5, 2.0)])
except Exception as e:            # TypeError: __init__() missing 2 required positional arguments: 'mean' and 'sigma'
    print(type(e).__name__, e)
