"""C07 finding: sharing one prior between two parameters is invisible to the identifier.
Run: PYTHONPATH=/repo /venv/bin/python findings/C07-sharing.py"""
import autofit as af
from autofit.mapper.identifier import Identifier

p = af.UniformPrior(0.0, 1.0)
shared = af.Model(af.Gaussian, centre=p, normalization=p, sigma=1.0)                                           # 1 free parameter
distinct = af.Model(af.Gaussian, centre=af.UniformPrior(0.0, 1.0), normalization=af.UniformPrior(0.0, 1.0), sigma=1.0)  # 2
print(shared.prior_count, distinct.prior_count)
assert str(Identifier(shared)) == str(Identifier(distinct)), "identifiers differ (defect repaired?)"
print("VIOLATION: two different fits claim the same output:", Identifier(shared))
