"""C01 finding: members of a tuple argument whose name contains '_' become extra direct priors.
Run: /venv/bin/python findings/C01-tuple-arg-name-with-underscore.py"""
import sys, os
sys.path.insert(0, os.path.join(os.path.dirname(os.path.abspath(__file__)), "..", "harness", "impl"))
from vimpl_common import setup
af, conf = setup("/tmp/c01_finding_scratch")
import vclasses, shutil
p0, p1, p2 = [af.UniformPrior(0.0, 1.0) for _ in range(3)]
m = af.Model(vclasses.LC, q=p2)               # class LC: __init__(self, light_centre=(0., 0.), q=1.)
m.light_centre_0 = p0
m.light_centre_1 = p1
print("prior_count", m.prior_count, "paths", m.paths)
try:
    i = m.instance_from_vector([0.125, 0.25, 0.375] if m.prior_count == 3 else [0.5] * m.prior_count)
    ok = m.prior_count == 3 and i.light_centre == (0.125, 0.25)
    err = None
except TypeError as e:
    ok, err = False, e
shutil.rmtree("/tmp/c01_finding_scratch", ignore_errors=True)
assert not ok, "instance built correctly (defect repaired?)"
print("VIOLATION: 3 parameters and light_centre == (0.125, 0.25) expected;", "raised %r" % err if err else "got %s" % (i.__dict__,))
