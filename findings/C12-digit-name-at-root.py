"""C12 finding: a prior held under a number by a top-level collection cannot be passed.
Run: PYTHONPATH=/repo /venv/bin/python -W ignore findings/C12-digit-name-at-root.py"""
import autofit as af

model = af.Collection([af.UniformPrior(0.0, 1.0)])
print(model.paths)                                   # [('0',)]
try:
    model.mapper_from_prior_means([0.5], a=1.0)
except Exception as e:                               # IndexError: tuple index out of range
    print(type(e).__name__, e)
print(af.Collection(lens=af.Collection([af.UniformPrior(0.0, 1.0)])).mapper_from_prior_means([0.5], a=1.0).paths)  # nested: fine
