"""C11 finding: a model component without free parameters changes the identifier on reload.
Run: PYTHONPATH=/repo:/verif/harness/impl /venv/bin/python -W ignore findings/C11-fixed-component.py"""
import json, os, sys
sys.path.insert(0, os.environ.get("VERIF_REPO", "/repo"))
sys.path.insert(0, os.path.join(os.path.dirname(os.path.dirname(os.path.abspath(__file__))), "harness", "impl"))
import autofit as af
from autoconf.dictable import to_dict, from_dict
from autofit.mapper.identifier import Identifier
import c11_classes as kc

model = af.Collection(g0=af.Model(kc.K2, a=0.25, b=1.5), g1=af.Model(kc.K1, u=af.UniformPrior(0.0, 1.0)))
reloaded = from_dict(json.loads(json.dumps(to_dict(model))))     # files/model.json round trip
a, b = Identifier([model]), Identifier([reloaded])
print("written under :", a, a.hash_list[:8])
print("recomputed    :", b, b.hash_list[:8])
print("DEFECT: database id != folder name" if str(a) != str(b) else "OK")
