"""C19 finding: the step creating `named_instance` omits column instance_id that the mapper uses."""
import os, shutil, sys, tempfile
REPO = os.environ.get("VERIF_REPO", "/repo"); sys.path.insert(0, REPO)
import autofit as af; from autoconf import conf
tmp = tempfile.mkdtemp(); conf.instance.push(new_path="/verif/harness/config", output_path=tmp)
import autofit.database as db
path = os.path.join(tmp, "old.sqlite")
shutil.copy(os.path.join(REPO, "test_autofit/database/migration/database.sqlite"), path)
s = db.open_database(path)                      # migrates (inside this session)
fit = db.Fit(id="fit"); s.add(fit); s.commit()
try:
    fit.named_instances["best"] = af.Gaussian(centre=1.0); s.commit()
    print("named instance stored (defect repaired)"); ok = True
except Exception as e:
    print("DEFECT:", type(e).__name__, str(e).splitlines()[0][:150]); ok = False
s.close(); s.get_bind().dispose(); shutil.rmtree(tmp)
assert not ok
