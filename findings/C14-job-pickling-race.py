"""C14 finding: building the next job (a model walk in the main thread) races with the queue feeder thread pickling the
previous job: pickle caches __slotnames__ on the model's class while path_instances_of_class iterates that class's __dict__.

  PYTHONPATH=/repo /venv/bin/python findings/C14-job-pickling-race.py           deterministic: forces the interleaving
  PYTHONPATH=/repo /venv/bin/python findings/C14-job-pickling-race.py stress 60  real Sensitivity.run(number_of_cores=2), no steering
"""
import os
import pickle
import random
import sys
import tempfile
import threading

import autofit as af


def deterministic():
    class Hook:
        """sits in the class body; the model walk asks it for its __dict__ in the middle of iterating the class dict"""
        fired = False

        @property
        def __dict__(self):
            if not Hook.fired:
                Hook.fired = True
                t = threading.Thread(target=lambda: pickle.dumps(G()))     # what the feeder thread does with a job
                t.start()
                t.join()
            return {}

    global G
    G = type("G", (af.Gaussian,), {"__module__": "__main__", "a_hook": Hook(), "b": 1, "c": 2})
    model = af.Model(G, centre=af.UniformPrior(0.0, 1.0), normalization=1.0, sigma=1.0)
    try:
        n = len(model.prior_tuples_ordered_by_id)
        print("model walk returned %d prior(s)" % n)
        return True
    except RuntimeError as e:
        print("model walk raised RuntimeError:", e)
        return False


def stress(runs):
    from autoconf import conf
    import logging
    logging.disable(logging.CRITICAL)
    conf.instance.push(new_path="/verif/harness/config", output_path=tempfile.mkdtemp(prefix="c14race_"))
    from autofit.non_linear.grid import sensitivity as s
    from autofit.non_linear.mock.mock_samples_summary import MockSamplesSummary

    class Sim:
        def __call__(self, instance, simulate_path):
            return 0.0

    def result(model, ll):
        summary = MockSamplesSummary(model=model, max_log_likelihood_sample=af.Sample(
            log_likelihood=ll, log_prior=0.0, weight=1.0, kwargs={p: 1.0 for p in model.paths}))
        return af.m.MockResult(samples_summary=summary, model=model)

    class Fit:
        def __init__(self, ll):
            self.ll = ll

        def __call__(self, dataset, model, paths):
            return result(model, self.ll)

    globals().update(Sim=Sim, Fit=Fit)
    bad = 0
    for k in range(runs):
        cls = type("G%d" % k, (af.Gaussian,), {"__module__": "__main__"})   # never pickled before in this process
        globals()["G%d" % k] = cls
        instance = af.ModelInstance()
        instance.gaussian = cls()
        sens = s.Sensitivity(
            simulation_instance=instance,
            base_model=af.Collection(**{"g%d" % i: af.Model(af.Gaussian) for i in range(random.randint(0, 80))}),
            perturb_model=af.Model(cls, centre=af.UniformPrior(0.0, 1.0), normalization=1.0, sigma=1.0),
            simulate_cls=Sim(), base_fit_cls=Fit(0.0), perturb_fit_cls=Fit(1.0),
            paths=af.DirectoryPaths(name="race%d" % k), number_of_steps=8, number_of_cores=2)
        try:
            sens.run()
        except RuntimeError as e:
            bad += 1
            print("run %d: Sensitivity.run(number_of_cores=2) raised RuntimeError: %s" % (k, e))
    print("%d of %d parallel runs raised" % (bad, runs))
    return bad == 0


if __name__ == "__main__":
    ok = stress(int(sys.argv[2])) if len(sys.argv) > 2 and sys.argv[1] == "stress" else deterministic()
    sys.stdout.flush()
    os._exit(0 if ok else 1)
