"""C08 finding: int constants come back from the database as floats (see the last line; same root cause as array-db-int-shape).  Run: PYTHONPATH=/repo /venv/bin/python findings/C08-db-int-as-float.py"""
import autofit as af
from autofit import database as db
from autofit.database.model import sa

def reload(model):
    engine = sa.create_engine("sqlite://")
    session = sa.orm.sessionmaker(bind=engine)()
    db.Base.metadata.create_all(engine)
    session.add(db.Fit(id="fit", model=model)); session.commit(); session.close()
    return sa.orm.sessionmaker(bind=engine)().query(db.Fit).one().model

model = af.Collection(arr=af.Array((2, 2), af.UniformPrior(0.0, 2.0)))
loaded = reload(model)
print(loaded.arr.shape, loaded.arr.indices[:2], loaded.prior_count)        # (2.0, 2.0) [(0.0, 0.0), (0.0, 1.0)] 4
try:
    loaded.instance_from_vector([0.5] * 4)
except TypeError as e:
    print("instance_from_vector:", e)
m = af.Model(af.Gaussian); m.n = 3
print("int constant:", repr(m.n), "->", repr(reload(m).n))                      # 3 -> 3.0
