# C17 finding: TransformedMessage.logpdf / pdf omit the log-determinant of the transforms (factor() has it),
# so the reported density is not normalised: a uniform prior on (1, 3) reports log-density -0.919 instead of log(1/2).
# run: PYTHONPATH=/repo /venv/bin/python findings/C17-transformed-logpdf.py
import numpy as np
from scipy import integrate
import autofit as af
p = af.UniformPrior(1.0, 3.0)
m = p.message
print("logpdf(2.0) =", float(m.logpdf(2.0)), " factor(2.0) =", float(m.factor(2.0)), " log(1/2) =", np.log(0.5))
z = integrate.quad(lambda x: float(m.pdf(x)), 1.0, 3.0)[0]
zf = integrate.quad(lambda x: float(np.exp(m.factor(x))), 1.0, 3.0)[0]
print("integral of pdf over (1,3) =", z, "  integral of exp(factor) =", zf)
assert abs(z - 1.0) > 0.4 and abs(zf - 1.0) < 1e-8
