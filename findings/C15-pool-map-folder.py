"""PYTHONPATH=/repo /venv/bin/python findings/C15-pool-map-folder.py   (writes under ./output, removed at the end)"""
import os, shutil
import autofit as af


class A(af.Analysis):
    def __init__(self, k):
        self.k = k

    def visualize(self, paths, instance, during_analysis):
        os.makedirs(paths.output_path, exist_ok=True)
        open(os.path.join(str(paths.output_path), "viz_%d.txt" % self.k), "w").close()


combined = A(0) + A(1) + A(2)
combined.n_cores = 2
paths = af.DirectoryPaths(name="c15_map_folder")
combined.visualize(paths, None, False)
root = str(paths.output_path)
found = sorted(os.path.relpath(os.path.join(r, f), root) for r, _, fs in os.walk(root) for f in fs if f.startswith("viz_"))
print(found, "expected analysis_0/viz_0, analysis_1/viz_1, analysis_2/viz_2")
combined._analysis_pool.terminate()
shutil.rmtree(os.path.dirname(root), ignore_errors=True)
try:
    os.rmdir(os.path.dirname(os.path.dirname(root)))
except OSError:
    pass
os._exit(0 if found == ["analyses/analysis_%d/viz_%d.txt" % (i, i) for i in range(3)] else 1)
