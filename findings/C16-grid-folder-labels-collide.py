"""C16 finding: grid-search cells narrower than ~0.005 share an output folder; only one of them is fitted.
Run: cd /tmp && PYTHONPATH=/repo /venv/bin/python -W ignore /verif/findings/C16-grid-folder-labels-collide.py"""
import shutil, tempfile
import autofit as af
from autoconf import conf

out = tempfile.mkdtemp(prefix="c16_labels_")
conf.instance.push(new_path="/verif/harness/config", output_path=out)
fitted = []


class Analysis(af.Analysis):
    def log_likelihood_function(self, instance):
        fitted.append(instance.centre)
        return -instance.centre


prior = af.UniformPrior(lower_limit=0.001, upper_limit=0.003)
model = af.Model(af.Gaussian, centre=prior, normalization=1.0, sigma=1.0)
gs = af.SearchGridSearch(search=af.m.MockSearch(name="labels"), number_of_steps=4)
jobs = gs.make_jobs(model, Analysis(), [prior])
names = [j.search_instance.paths.name.split("/")[-1] for j in jobs]
print("folders:", names)
gs.fit(model=model, analysis=Analysis(), grid_priors=[prior])
print("cells fitted: %d of 4 (centres %s)" % (len(fitted), fitted))
print("VIOLATION: 4 cells, %d distinct folders, %d fits" % (len(set(names)), len(fitted)) if len(set(names)) < 4 else "no violation: one folder and one fit per cell (repaired in /repo, cc931f4)")
shutil.rmtree(out, ignore_errors=True)
