"""C13 finding: a failing call leaves id(model) in the process-wide DynamicRecursionCache.
Run: PYTHONPATH=/repo /venv/bin/python -W ignore findings/C13-recursion-cache.py"""
import autofit as af

class G:
    def __init__(self, a=0.0, b=0.0):
        self.a, self.b = a, b

mk = lambda: af.Model(G, a=af.UniformPrior(0.0, 1.0), b=af.UniformPrior(0.0, 1.0))
m, n, k = mk(), mk(), mk()
parent = af.Collection(m=m, n=n, k=k)
print("before:", parent.prior_count, n.prior_count)            # 6 2
try:
    n.has_instance("not a type")                               # TypeError inside the walk of n
except TypeError as e:
    print("failing call:", e)
try:
    print(n.prior_count)
except TypeError as e:
    print("n.prior_count now raises:", e)                      # 'RecursionPromise' object is not iterable
print("parent.prior_count now:", parent.prior_count)           # 2: n and everything after it silently dropped
assert parent.prior_count == 6, "history effect: answer changed after an unrelated failing call"
