"""C20 finding: the interpolation variable of an interpolated instance is not the requested value
(result of the final replacing_for_path in AbstractInterpolator.__getitem__ is discarded).
Run: PYTHONPATH=/repo /venv/bin/python -W ignore findings/C20-variable-not-assigned.py"""
import json, os
import autofit as af

spec = json.load(open(os.path.join(os.path.dirname(os.path.abspath(__file__)), "C20-variable-not-assigned.json")))
bad = 0
for c in spec["cases"]:
    insts = [af.ModelInstance(dict(t=t, gaussian=af.Gaussian(centre=x, normalization=1.0, sigma=1.0)))
             for t, x in zip(c["t"], c["centre"])]
    interp = getattr(af, c["interpolator"])(insts)
    res = interp[interp.t == c["query"]]
    ok = res.t == c["query"]
    bad += not ok
    print("%-20s t=%s query %r -> result.t = %s  (%s)" % (c["interpolator"], c["t"], c["query"], repr(float(res.t)) if not isinstance(res.t, int) else repr(res.t), "ok" if ok else "NOT the requested value"))
print("VIOLATED" if bad else "holds")
