"""PYTHONPATH=/repo /venv/bin/python findings/C15-order-single-plus-combined.py"""
import sys
import autofit as af


class A(af.Analysis):
    def __init__(self, name):
        self.name = name


a, b, c = A("a"), A("b"), A("c")
left = [x.name for x in ((a + b) + c).analyses]
right = [x.name for x in (a + (b + c)).analyses]
print("(a + b) + c ->", left, "   a + (b + c) ->", right, "   expected ['a', 'b', 'c'] twice")
sys.exit(0 if left == right == ["a", "b", "c"] else 1)
