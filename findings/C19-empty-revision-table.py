"""C19 finding: revision_id setter is a bare UPDATE -> a file with an empty revision table (left by an
uncommitted first open) is never stamped, even by sessions that commit."""
import os, shutil, sqlite3, sys, tempfile
REPO = os.environ.get("VERIF_REPO", "/repo"); sys.path.insert(0, REPO)
import autofit as af; from autoconf import conf
tmp = tempfile.mkdtemp(); conf.instance.push(new_path="/verif/harness/config", output_path=tmp)
import autofit.database as db
path = os.path.join(tmp, "old.sqlite")
shutil.copy(os.path.join(REPO, "test_autofit/database/migration/database.sqlite"), path)
con = sqlite3.connect(path); con.execute("CREATE TABLE revision (revision_id VARCHAR PRIMARY KEY)"); con.commit(); con.close()
for i in range(3):
    s = db.open_database(path); s.add(db.Fit(id="fit%d" % i)); s.commit(); s.close(); s.get_bind().dispose()
con = sqlite3.connect(path); rev = con.execute("SELECT * FROM revision").fetchall()
n = con.execute("SELECT count(*) FROM fit").fetchone()[0]; con.close(); shutil.rmtree(tmp)
print("3 committing sessions: %d fits stored, revision rows %r" % (n, rev))
assert rev == [], "stamp stored (defect repaired)"
print("DEFECT: the file is never stamped; every open re-executes all migration steps")
