"""C16 finding: the perturb prior of a sensitivity cell keeps the original prior's message (Prior.with_limits).
Run: PYTHONPATH=/repo /venv/bin/python -W ignore findings/C16-with-limits-message.py"""
import autofit as af
from autofit.non_linear.grid import sensitivity as s

sens = object.__new__(s.Sensitivity)
sens.perturb_model = af.Model(af.Gaussian, centre=af.UniformPrior(lower_limit=0.0, upper_limit=8.0), normalization=1.0, sigma=1.0)
sens.number_of_steps, sens.limit_scale = (4,), 1
cells = list(sens._perturb_models)
means = [m.centre.mean for m in cells]
print("cells :", [(m.centre.lower_limit, m.centre.upper_limit) for m in cells])
print("means :", means, "(what SensitivityResult.perturbed_physical_centres_list_from reports per cell)")
try:
    top = cells[0].centre.value_for(1.0)
except af.exc.PriorLimitException as e:
    top = "PriorLimitException: %s" % e
print("cell 0 value_for(1.0):", top)
print("VIOLATION: every cell reports the centre of the whole prior" if len(set(means)) == 1 else "no violation: each cell reports its own centre (repaired in /repo, d755794)")
