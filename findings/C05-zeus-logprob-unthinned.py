"""C05 finding (conversion level; zeus is not installed): Zeus.samples_via_internal_from pairs the
burnt-in, thinned chain with the FIRST n entries of the full get_log_prob(flat=True).
Run:  /venv/bin/python findings/C05-zeus-logprob-unthinned.py"""
import atexit, os, shutil, sys, tempfile
sys.path.insert(0, os.path.join(os.path.dirname(os.path.abspath(__file__)), "..", "harness", "impl"))
scratch = tempfile.mkdtemp(prefix="c05_finding_")
atexit.register(shutil.rmtree, scratch, True)
os.environ["VERIF_SCRATCH"] = scratch
import types
import numpy as np
zeus = types.ModuleType("zeus")
zeus.AutoCorrTime = lambda samples: np.array([4.0])           # => discard = 12, thin = 2
sys.modules["zeus"] = zeus                                     # stand-in for the missing library
from vimpl_common import setup
af, conf = setup()
import c05_classes as K

class G:
    def __init__(self, a=0.0):
        self.a = a

model = af.Model(G, a=af.UniformPrior(lower_limit=0.0, upper_limit=100.0))
chain = np.arange(40, dtype=float).reshape((40, 1, 1))         # one walker at a = 0, 1, 2, ...
sampler = K.FakeZeusSampler(chain, -chain[:, :, 0], ncall_total=40)   # log-prob = -a (flat prior)
search = af.Zeus(name="c05_zeus", nwalkers=1, auto_correlation_settings=af.AutoCorrelationsSettings(
    check_for_convergence=False, check_size=2, required_length=50, change_threshold=0.01))
samples = search.samples_via_internal_from(model=model, search_internal=sampler)
bad = [(s.kwargs[("a",)], s.log_likelihood) for s in samples.sample_list if s.log_likelihood != -s.kwargs[("a",)]]
print("samples:", len(samples.sample_list), "with a wrong log_likelihood:", len(bad))
print("first (a, reported log_likelihood):", bad[:4])
sys.exit(1 if bad else 0)
