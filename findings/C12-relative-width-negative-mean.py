"""C12 finding: relative widths give a negative sigma for a negative inferred value.
Run: PYTHONPATH=/repo:/verif/harness/impl /venv/bin/python -W ignore findings/C12-relative-width-negative-mean.py"""
import autofit as af


class G:
    def __init__(self, a=0.0, b=1.0):
        self.a, self.b = a, b


model = af.Model(G, a=af.UniformPrior(-1.0, 1.0), b=af.UniformPrior(-2.0, 1.0))
for kwargs in ({"r": 0.5}, {}):          # explicit relative width; default (no config -> RelativeWidthModifier(0.5))
    try:
        model.mapper_from_prior_means([0.5, -1.5], **kwargs)
        print(kwargs, "ok")
    except Exception as e:                # MessageException: Sigma cannot be negative
        print(kwargs, type(e).__name__, e)
