"""C04 finding: `figure_of_merit *= -2.0` mutates the object stored in log_likelihood_history_list.
Run: PYTHONPATH=/repo /venv/bin/python findings/C04-inplace-chi2.py
Expected (property): recorded likelihood -0.75 ; observed: 1.5"""
import numpy as np
import autofit as af
from autofit.non_linear.fitness import Fitness

class G:
    def __init__(self, a=0.0, b=0.0):
        self.a, self.b = a, b

class A(af.Analysis):
    def log_likelihood_function(self, instance):
        return np.array(-(instance.g.a + instance.g.b))     # a 0-d array (e.g. the result of np.asarray / keepdims code)

model = af.Collection(g=af.Model(G, a=af.UniformPrior(0.0, 1.0), b=af.UniformPrior(0.0, 1.0)))
fitness = Fitness(model=model, analysis=A(), fom_is_log_likelihood=True, convert_to_chi_squared=True, store_history=True)
fom = fitness([0.25, 0.5])
print("fom:", float(fom), "recorded likelihood:", float(fitness.log_likelihood_history_list[0]))
assert float(fitness.log_likelihood_history_list[0]) == -0.75, "history records -2*ll instead of ll"
