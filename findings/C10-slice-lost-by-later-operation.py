"""Reproduction of a C10 finding against the real code:  PYTHONPATH=/repo /venv/bin/python -W ignore C10-slice-lost-by-later-operation.py
aggregator[1:3].order_by(...) / .query(...) forget the slice (_new_with drops offset and limit)."""
import logging; logging.disable(logging.CRITICAL)
from autofit import database as db
from autofit.database.model import sa
from autofit.database.aggregator.aggregator import Aggregator


class G:
    def __init__(self, **kw):
        self.__dict__.update(kw)


engine = sa.create_engine("sqlite://")
session = sa.orm.sessionmaker(bind=engine)()
db.Base.metadata.create_all(engine)
session.add_all([
    db.Fit(id="f0", instance=G(a=G(b=1.0, c=2.0), d=1.0), name="n0", unique_tag="t0", is_complete=True, info={"k": "v"}),
    db.Fit(id="f1", instance=G(a=G(b=2.0, c=2.0), d="x"), name="n1", unique_tag="t1", is_complete=True, info={"k": "w", "o": "p"}),
    db.Fit(id="f2", instance=G(a=1.0, d=None), name="n2", unique_tag="t2", is_complete=True),
    db.Fit(id="f3", instance=G(a=0.0), name="n3", unique_tag="t3", is_complete=True),
    db.Fit(id="f4", instance=G(a=0.5), name="n4", unique_tag="t4", is_complete=True),
])
session.commit()
agg = Aggregator(session, top_level_only=False)
m = agg.model
ids = lambda a: sorted(f.id for f in a.fits)
base = agg.order_by(agg.search.id)
sl = base[1:3]
print("base[1:3]", [f.id for f in sl.fits])
got = [f.id for f in sl.order_by(agg.search.unique_tag, reverse=True).fits]
print("base[1:3].order_by(unique_tag, reverse) returned", got, "expected ['f2', 'f1']")
assert len(got) == 5
got = [f.id for f in sl.query(agg.search.name == "n4").fits]
print("base[1:3].query(name == 'n4') returned", got, "expected []")
assert got == ["f4"]
print("reproduced: slice-lost-by-later-operation")
