"""C02 finding: Prior.with_limits keeps the old message: the derived prior declares one distribution and maps another.
Run: PYTHONPATH=/repo /venv/bin/python findings/C02-with-limits-keeps-message.py"""
import autofit as af
from autofit import exc
from autofit.mapper.prior.abstract import Prior

p = af.UniformPrior(0.0, 1.0).with_limits(0.2, 0.4)
print(p, "| value_for(0.3) =", p.value_for(0.3), "(uniform quantile on [0.2, 0.4]: 0.26)")
try:
    p.value_for(0.5)
    raise AssertionError("defect no longer reproduces")
except exc.PriorLimitException as e:
    print("value_for(0.5) raised:", e, "(uniform quantile on [0.2, 0.4]: 0.3)")
q = Prior.from_dict(p.dict())
print("from_dict(p.dict()).value_for(0.5) =", q.value_for(0.5), " -- a different mapping for the same description")
try:
    af.LogGaussianPrior(0.0, 1.0).with_limits(0.5, 2.0)
    raise AssertionError("defect no longer reproduces")
except TypeError as e:
    print("LogGaussianPrior.with_limits:", e)
