"""C04 finding: FitnessPySwarms accepts store_history=True and records nothing.
Run: PYTHONPATH=/repo /venv/bin/python findings/C04-pyswarms-history.py
Expected (property): two recorded particles ; observed: none"""
import numpy as np
import autofit as af
from autofit.non_linear.search.mle.pyswarms.search.abstract import FitnessPySwarms

class G:
    def __init__(self, a=0.0, b=0.0):
        self.a, self.b = a, b

class A(af.Analysis):
    def log_likelihood_function(self, instance):
        return -(instance.g.a + instance.g.b)

model = af.Collection(g=af.Model(G, a=af.UniformPrior(0.0, 1.0), b=af.UniformPrior(0.0, 1.0)))
fitness = FitnessPySwarms(model=model, analysis=A(), fom_is_log_likelihood=False, convert_to_chi_squared=True,
                          resample_figure_of_merit=-np.inf, store_history=True)
print("foms:", fitness(np.array([[0.25, 0.5], [2.0, 0.5], [0.5, 0.5]])))
print("history:", fitness.parameters_history_list, fitness.log_likelihood_history_list)
assert len(fitness.parameters_history_list) == 2, "successfully evaluated particles are not recorded"
