"""C09 finding: a top-level parameter named like a reserved samples.csv column is lost on reload.
Run: PYTHONPATH=/repo /venv/bin/python -W ignore findings/C09-reserved-column-name.py"""
import tempfile
import autofit as af
from autoconf import conf
from autofit.non_linear.samples.sample import Sample
from autofit.non_linear.samples.pdf import SamplesPDF


class Component:
    def __init__(self, weight=1.0, centre=0.0):
        self.weight, self.centre = weight, centre


conf.instance.push(new_path="/verif/harness/config", output_path=tempfile.mkdtemp())
conf.instance["general"]["output"]["samples_to_csv"] = True
model = af.Model(Component, weight=af.UniformPrior(0.0, 1.0), centre=af.UniformPrior(0.0, 1.0))
samples = SamplesPDF(model=model, samples_info={"total_iterations": 1, "time": 1.0},
                     sample_list=Sample.from_lists(model, [[0.25, 0.75]], [-1.0], [0.0], [1.0]))
paths = af.DirectoryPaths(name="c09_reserved")
paths.model = model
paths.save_samples(samples)
print(open(paths._samples_file).read())
print("reloaded kwargs:", paths.samples.sample_list[0].kwargs, "weight:", paths.samples.sample_list[0].weight)
try:
    print(paths.samples.max_log_likelihood(as_instance=False))
except KeyError as e:
    print("KeyError", e)
