"""C08 finding: from_dict's "dict" branch keeps truthy values only.  Run: PYTHONPATH=/repo /venv/bin/python findings/C08-dict-falsy-constant.py"""
import json
import autofit as af

model = af.Model(af.Gaussian)
model.opts = {"k": 0.0, "j": 1.5}
loaded = af.AbstractPriorModel.from_dict(json.loads(json.dumps(model.dict())))
print(model.opts, "->", loaded.opts)      # {'k': 0.0, 'j': 1.5} -> {'j': 1.5}
