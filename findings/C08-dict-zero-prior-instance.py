"""C08 finding: a Model without free parameters is written as an 'instance'.  Run: PYTHONPATH=/repo:/verif/harness/impl /venv/bin/python findings/C08-dict-zero-prior-instance.py"""
import json
import autofit as af
from vclasses import T2, G2

z = af.Model(T2, c=1.0)
z.pos_0, z.pos_1 = 0.5, 0.25
model = af.Collection(z=z, h=af.Model(G2, a=af.UniformPrior(0.0, 1.0), b=2.0))
loaded = af.AbstractPriorModel.from_dict(json.loads(json.dumps(model.dict())))
print("pos before", model.instance_from_vector([0.5]).z.pos)      # (0.5, 0.25)
print("pos after ", loaded.instance_from_vector([0.5]).z.pos)     # <TuplePrior object>
z.extra = 3.0
try:
    af.AbstractPriorModel.from_dict(json.loads(json.dumps(model.dict())))
except TypeError as e:
    print("with an extra attribute:", e)
