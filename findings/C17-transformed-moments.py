# C17 finding: mean / variance of a non-linearly transformed message are first-order (delta-method) values,
# not the moments of the density the message reports through factor()/cdf.
# run: PYTHONPATH=/repo /venv/bin/python findings/C17-transformed-moments.py
import numpy as np
from scipy import integrate
import autofit as af
m = af.LogGaussianPrior(1.0, 0.5).message          # log-normal: true mean exp(mu + sigma^2/2)
f = lambda x: float(np.exp(m.factor(x)))
mean = integrate.quad(lambda x: x * f(x), 0, np.inf)[0]
var = integrate.quad(lambda x: (x - mean) ** 2 * f(x), 0, np.inf)[0]
print("reported mean", m.mean, "variance", m.variance, " density has mean", mean, "variance", var)
assert abs(m.mean - mean) > 0.3
u = af.UniformPrior(1.0, 3.0).message
print("uniform(1,3): reported variance", u.variance, " true variance", 4 / 12)
assert abs(u.variance - 1 / 3) > 0.3
