"""C20 finding: parameters of an instance returned by SplineInterpolator are 0-d numpy arrays, not floats;
a series of such instances is not interpolated at all.
Run: PYTHONPATH=/repo /venv/bin/python -W ignore findings/C20-spline-array.py"""
import json, os
import autofit as af

spec = json.load(open(os.path.join(os.path.dirname(os.path.abspath(__file__)), "C20-spline-array.json")))
bad = 0
for c in spec["cases"]:
    series = [af.ModelInstance(dict(t=t, c=x)) for t, x in zip(c["t"], c["c"])]
    si = af.SplineInterpolator(series)
    firsts = [si[si.t == v] for v in c["first_queries"]]
    print("spline result c = %r (%s); float paths of the result: %s" % (
        firsts[0].c, type(firsts[0].c).__name__, [p for p, _ in firsts[0].path_instance_tuples_for_class(float)]))
    li = af.LinearInterpolator(firsts)
    res = li[li.t == c["second_query"]]
    print("LinearInterpolator over the spline results at %s, queried at %s: c = %r (expected 2.0)" % (c["first_queries"], c["second_query"], res.c))
    if not isinstance(firsts[0].c, float) or float(res.c) != 2.0:
        bad += 1
print("VIOLATED" if bad else "holds")
