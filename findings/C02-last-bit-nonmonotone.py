"""C02 finding: in binary64 value_for is not monotone to the last bit (scipy's ndtr(sqrt2*erfinv(.)) is not).
Run: PYTHONPATH=/repo /venv/bin/python findings/C02-last-bit-nonmonotone.py"""
import autofit as af

p = af.UniformPrior(lower_limit=0.0, upper_limit=1e6)
u1, u2 = 0.14855617519874176, 0.1485561751987418
v1, v2 = p.value_for(u1), p.value_for(u2)
print("u1 < u2:", u1 < u2, " value_for(u1) = %r  value_for(u2) = %r  decreasing: %s" % (v1, v2, v2 < v1))
assert u1 < u2 and v2 < v1, "defect no longer reproduces"
