"""C12 finding: a shared prior is configured under (class of one place, name of another place).
Run: PYTHONPATH=/repo:/verif/harness/impl /venv/bin/python -W ignore findings/C12-shared-prior-config-mixup.py
(uses the harness's prior config: harness/config/priors/c12_classes.yaml)"""
from vimpl_common import setup
af, conf = setup()
import c12_classes as K

p = af.UniformPrior(-1.0, 1.0)            # one parameter at two places: KN.s and KN.inner.a
model = af.Model(K.KN, inner=af.Model(K.K2, a=p, s=af.UniformPrior(0.0, 2.0)), s=p, a=1.0)
new = model.mapper_from_prior_means([0.5, 1.0])
# KN.s is configured Relative 0.25 / limits -5..5, K2.a Absolute 0.125 / limits -3..3; the code looks up (K2, "s"):
print(new.s.sigma, new.s.lower_limit, new.s.upper_limit)      # 3.0 -1.0 1.0  (K2.s: Absolute 3.0, no limits -> old limits)
