# C17 finding: message * message forgets log_norm, so (a*b)/b is not a.
# run: PYTHONPATH=/repo /venv/bin/python findings/C17-lognorm.py
from autofit.messages.normal import NaturalNormal
a = NaturalNormal(1.0, -0.5, log_norm=0.5, id_=1)
b = NaturalNormal(0.25, -2.0, log_norm=0.25, id_=2)
r = (a * b) / b
print("a.log_norm =", a.log_norm, " (a*b).log_norm =", (a * b).log_norm, " ((a*b)/b).log_norm =", r.log_norm)
print("parameters equal:", tuple(r.parameters) == tuple(a.parameters))
assert r.log_norm != a.log_norm     # -0.25 instead of 0.5
assert (a ** 1.0 * a ** 2.0).log_norm != (a ** 3.0).log_norm   # 0.0 instead of 1.5
