"""C07 finding: the description has no end markers; regrouping trailing items gives the same identifier.
Run: PYTHONPATH=/repo /venv/bin/python findings/C07-regroup.py"""
import autofit as af
from autofit.mapper.identifier import Identifier

g = lambda: af.Model(af.Gaussian, centre=af.UniformPrior(0.0, 1.0), normalization=1.0, sigma=1.0)
a = af.Collection(group=af.Collection(m1=g()), m2=g())          # parameters group.m1.centre, m2.centre
b = af.Collection(group=af.Collection(m1=g(), m2=g()))          # parameters group.m1.centre, group.m2.centre
print(a.paths, b.paths)
assert str(Identifier(a)) == str(Identifier(b)), "identifiers differ (defect repaired?)"
print("VIOLATION: two different compositions claim the same output:", Identifier(a))
