"""C12 finding: a prior tightened by with_limits still maps the unit interval onto its OLD range.
Run: PYTHONPATH=/repo /venv/bin/python -W ignore findings/C12-with-limits-keeps-message.py"""
import autofit as af

u = af.UniformPrior(0.0, 1.0).with_limits(0.25, 0.5)
print(u.lower_limit, u.upper_limit, u.value_for(0.3))          # 0.25 0.5 0.3
print(u.value_for(0.9, ignore_prior_limits=True))              # 0.9: outside the new limits
try:
    u.value_for(0.9)
except Exception as e:                                         # PriorLimitException
    print(type(e).__name__)
