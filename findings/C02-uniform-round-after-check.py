"""C02 finding: UniformPrior.value_for rounds to 14 decimals AFTER the limit check, so it can
silently return a value outside the prior's limits.  Run: PYTHONPATH=/repo /venv/bin/python findings/C02-uniform-round-after-check.py"""
import autofit as af

for lo, hi, u in [(-4.0, 1.5999999999999996, 1 - 2.0 ** -53),      # limit with more than 14 decimals
                  (3.700812232839761, 4.700812232839761, 0.0),     # value_for(0) below the lower limit
                  (0.0, 8e-15, 0.75),                              # width below the rounding grid
                  (0.0, 1e300, 0.5)]:                              # x * 1e14 overflows inside numpy's round -> inf
    p = af.UniformPrior(lower_limit=lo, upper_limit=hi)
    v = p.value_for(u)                                             # limits NOT ignored, no exception raised
    print("UniformPrior(%r, %r).value_for(%r) = %r  within limits: %s" % (lo, hi, u, v, lo <= v <= hi))
    assert not (lo <= v <= hi), "defect no longer reproduces"
