"""C09 finding: saving samples again for a database fit whose samples were committed returns the stale samples.
Run: PYTHONPATH=/repo /venv/bin/python -W ignore findings/C09-db-resave-after-commit.py"""
import os
import tempfile
import autofit as af
from autoconf import conf
from autofit import database as db
from autofit.non_linear.samples.sample import Sample
from autofit.non_linear.samples.pdf import SamplesPDF

out = tempfile.mkdtemp()
conf.instance.push(new_path="/verif/harness/config", output_path=out)
session = db.open_database(os.path.join(out, "c09.sqlite"))
model = af.Collection(g=af.Model(af.Gaussian))


def samples(n):
    return SamplesPDF(model=model, samples_info={"total_iterations": n, "time": 1.0},
                      sample_list=Sample.from_lists(model, [[0.1 * k, 0.2, 0.3] for k in range(n)],
                                                    [-float(k) for k in range(n)], [0.0] * n, [1.0 / n] * n))


paths = af.DatabasePaths(session, name="c09", save_all_samples=True)
paths.model, paths.search = model, af.m.MockSearch()
paths.save_samples(samples(2))
session.commit()
paths.save_samples(samples(5))          # a later update of the same fit
session.commit()
session.expire_all()
print("persisted last: 5 samples; loaded:", len(paths.samples.sample_list), paths.load_samples_info())
