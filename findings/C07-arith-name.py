"""C07 finding: the identifier of a fit depends on the names of the caller's variables (arithmetic priors).
Run: PYTHONPATH=/repo /venv/bin/python findings/C07-arith-name.py"""
import autofit as af
from autofit.mapper.identifier import Identifier

def model(name):
    loc = {name: af.UniformPrior(0.0, 1.0)}
    exec("m = %s * 2.0" % name, {}, loc)            # the same expression, the operand held in a variable called `name`
    return af.Model(af.Gaussian, centre=loc["m"], normalization=1.0, sigma=af.UniformPrior(0.0, 2.0))

a, b = Identifier(model("mass")), Identifier(model("galaxy_mass"))
print(a.hash_list[3:8], b.hash_list[3:8])
print("VIOLATION: same model, different variable name -> %s != %s" % (a, b) if str(a) != str(b) else "no violation: the identifiers agree (repaired in /repo, 7fa9036)")
