# PYTHONPATH=/repo /venv/bin/python -W ignore findings/C06-lbfgs-zero-iterations.py
import tempfile, logging, shutil, autofit as af
from autoconf import conf
out = tempfile.mkdtemp(); conf.instance.push(new_path="/verif/harness/config", output_path=out); logging.disable(50)
class A(af.Analysis):
    def log_likelihood_function(self, instance): return -(instance.centre - 0.3) ** 2
    def should_visualize(self, paths, during_analysis=True): return False
m = af.Model(af.Gaussian, centre=af.UniformPrior(-5.0, 5.0), normalization=1.0, sigma=1.0)
for i in range(2):
    try: af.LBFGS(name="fit", maxiter=0).fit(m, A()); print("run", i, "ok")
    except Exception as e: print("run", i, "raised", type(e).__name__, e)
shutil.rmtree(out, ignore_errors=True)
