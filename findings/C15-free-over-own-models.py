"""PYTHONPATH=/repo /venv/bin/python findings/C15-free-over-own-models.py"""
import os, shutil, sys, tempfile
import autofit as af
from autoconf import conf

out = tempfile.mkdtemp()
conf.instance.push(new_path=os.path.join(os.path.dirname(os.path.abspath(__file__)), "..", "harness", "config"), output_path=out)


class A(af.Analysis):
    def log_likelihood_function(self, instance):
        return 1.0


u = lambda: af.UniformPrior(0.0, 1.0)
default = af.Model(af.Gaussian, centre=u(), normalization=u(), sigma=u())
own = af.Model(af.Gaussian, centre=u(), normalization=default.normalization, sigma=u())
combined = (A().with_model(own) + A()).with_free_parameters(default.normalization)
first, second = combined.modify_model(default)
kept = first.centre is own.centre and first.sigma is own.sigma
print("analysis 0 keeps its own centre/sigma priors:", kept, "  normalization freed per analysis:",
      first.normalization is not second.normalization)
try:
    af.m.MockSearch(name="c15_free_own").fit(default, combined)
    fit = "ok"
except AttributeError as e:
    fit = "AttributeError: %s" % e
print("fit:", fit)
shutil.rmtree(out, ignore_errors=True)
sys.exit(0 if kept and fit == "ok" else 1)
