"""Reproduction of a C10 finding against the real code:  PYTHONPATH=/repo /venv/bin/python -W ignore C10-not-of-info.py
~(info['k'] == 'v') selects fits with any other info row and no fit without info rows."""
import logging; logging.disable(logging.CRITICAL)
from autofit import database as db
from autofit.database.model import sa
from autofit.database.aggregator.aggregator import Aggregator


class G:
    def __init__(self, **kw):
        self.__dict__.update(kw)


engine = sa.create_engine("sqlite://")
session = sa.orm.sessionmaker(bind=engine)()
db.Base.metadata.create_all(engine)
session.add_all([
    db.Fit(id="f0", instance=G(a=G(b=1.0, c=2.0), d=1.0), name="n0", unique_tag="t0", is_complete=True, info={"k": "v"}),
    db.Fit(id="f1", instance=G(a=G(b=2.0, c=2.0), d="x"), name="n1", unique_tag="t1", is_complete=True, info={"k": "w", "o": "p"}),
    db.Fit(id="f2", instance=G(a=1.0, d=None), name="n2", unique_tag="t2", is_complete=True),
    db.Fit(id="f3", instance=G(a=0.0), name="n3", unique_tag="t3", is_complete=True),
    db.Fit(id="f4", instance=G(a=0.5), name="n4", unique_tag="t4", is_complete=True),
])
session.commit()
agg = Aggregator(session, top_level_only=False)
m = agg.model
ids = lambda a: sorted(f.id for f in a.fits)
got = ids(agg.query(~(agg.info["k"] == "v")))
print("returned", got, "expected ['f1', 'f2', 'f3', 'f4']  (before 596613e: ['f1'])")
assert got == ["f1", "f2", "f3", "f4"], got
print("checked: not-of-info (fixed in 596613e)")
