# PYTHONPATH=/repo /venv/bin/python -W ignore findings/C06-pyswarms-resume.py
# A PySwarms fit interrupted after its first checkpoint (here: by an exception in the likelihood) can not be resumed.
import tempfile, logging, shutil, autofit as af
from autoconf import conf
out = tempfile.mkdtemp(); conf.instance.push(new_path="/verif/harness/config", output_path=out); logging.disable(50)
class A(af.Analysis):
    calls = 0
    def __init__(self, die_after=None): self.die_after = die_after
    def log_likelihood_function(self, instance):
        A.calls += 1
        if self.die_after and A.calls > self.die_after: raise KeyboardInterrupt
        return -(instance.centre - 0.3) ** 2
    def should_visualize(self, paths, during_analysis=True): return False
m = af.Model(af.Gaussian, centre=af.UniformPrior(-5.0, 5.0), normalization=1.0, sigma=1.0)
mk = lambda: af.PySwarmsGlobal(name="fit", n_particles=6, iters=6, iterations_per_update=3)
try: mk().fit(m, A(die_after=30))
except KeyboardInterrupt: print("first run interrupted after", A.calls, "likelihood calls")
try: mk().fit(m, A()); print("re-run ok")
except BaseException as e: print("re-run raised", type(e).__name__)
shutil.rmtree(out, ignore_errors=True)
