"""C18 finding: include_prior_factors=False and a prior owned by one factor -> no cavity at all."""
import autofit as af
import autofit.graphical as g


class Analysis(af.Analysis):
    def log_likelihood_function(self, instance):
        return -1.0


p = af.GaussianPrior(mean=0.0, sigma=4.0)
factor = g.AnalysisFactor(af.Model(af.Gaussian, centre=p, normalization=1.0, sigma=1.0), Analysis())
fgm = g.FactorGraphModel(factor, include_prior_factors=False)
approx = fgm.mean_field_approximation()
cavity = approx.factor_approximation(approx.factor_graph.factors[0]).cavity_dist
print("cavity variables:", list(cavity.keys()))      # [] : the user's prior is not in the first optimisation
assert p in cavity, "the initial cavity has no distribution for the factor's prior"
