"""PYTHONPATH=/repo /venv/bin/python findings/C15-pool-stale-after-raise.py
Three analyses x -> x, 10x, 100x (the first raises on negative x, the others take 0.1 s) on a 3-core pool."""
import os, time
import autofit as af
from autofit import exc


class A(af.Analysis):
    def __init__(self, k):
        self.k = k

    def log_likelihood_function(self, instance):
        if self.k == 1 and instance < 0:
            raise exc.FitException()
        time.sleep(0.1 if self.k > 1 else 0)      # the raising analysis answers first
        return float(self.k * instance)


combined = A(1) + A(10) + A(100)
combined.n_cores = 3
out = []
for x in (2, -7, 2, 3):
    try:
        out.append(combined.log_likelihood_function(x))
    except exc.FitException:
        out.append("FitException")
    time.sleep(0.3)          # let the workers finish: the outcome below is then deterministic
print(out, "expected [222.0, 'FitException', 222.0, 333.0]")
combined._analysis_pool.terminate()
os._exit(0 if out == [222.0, "FitException", 222.0, 333.0] else 1)
