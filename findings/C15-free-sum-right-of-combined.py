"""PYTHONPATH=/repo /venv/bin/python findings/C15-free-sum-right-of-combined.py"""
import sys
import autofit as af


class A(af.Analysis):
    pass


p = af.UniformPrior(0.0, 1.0)
a, b, c, d = A(), A(), A(), A()
f = (c + d).with_free_parameters(p)
out = {}
for name, thunk in [("f + a", lambda: f + a), ("a + f", lambda: a + f), ("f + (a + b)", lambda: f + (a + b)),
                    ("(a + b) + f", lambda: (a + b) + f)]:
    try:
        r = thunk()
        out[name] = "%s %s" % (type(r).__name__, [type(x).__name__ for x in r.analyses])
    except TypeError:
        out[name] = "TypeError"
    print(name, "->", out[name])
sys.exit(0 if set(out.values()) == {"TypeError"} else 1)
