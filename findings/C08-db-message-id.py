"""C08 finding: database rows store prior.id_ (= message.id_), so a.new() merges with a.  Run: PYTHONPATH=/repo /venv/bin/python findings/C08-db-message-id.py"""
import pickle
import autofit as af
from autofit import database as db
from autofit.database.model import sa

def reload(model):
    engine = sa.create_engine("sqlite://")
    session = sa.orm.sessionmaker(bind=engine)()
    db.Base.metadata.create_all(engine)
    session.add(db.Fit(id="fit", model=model)); session.commit(); session.close()
    return sa.orm.sessionmaker(bind=engine)().query(db.Fit).one().model

a = af.UniformPrior(0.0, 1.0)
model = af.Model(af.Gaussian, centre=a, normalization=a.new(), sigma=1.0)
print("prior_count before", model.prior_count, "after database round trip", reload(model).prior_count)   # 2 -> 1
print("af.Array((2, 2), prior):", af.Collection(arr=af.Array((2, 2), a)).prior_count, "->", reload(af.Collection(arr=af.Array((2, 2), a))).prior_count)
g = pickle.loads(pickle.dumps(af.Model(af.Gaussian, centre=af.GaussianPrior(0.0, 1.0))))
try:
    reload(g)
except AttributeError as e:
    print("pickled GaussianPrior then database:", type(e).__name__, e)
