"""C07 finding: SearchOutput.id differs from the output folder for a Collection built from a list.
Run: PYTHONPATH=/repo /venv/bin/python findings/C07-item-number.py   (writes under a temporary directory)"""
import tempfile
from pathlib import Path
import autofit as af
from autoconf import conf
from autofit.aggregator.search_output import SearchOutput

conf.instance.push(new_path="/repo/test_autofit/config", output_path=tempfile.mkdtemp())
g = lambda: af.Model(af.Gaussian, centre=af.UniformPrior(0.0, 1.0), normalization=1.0, sigma=af.UniformPrior(0.0, 2.0))
model = af.Collection([g(), g()])                      # item_number = 2 is part of the identifier
search = af.LBFGS(name="fit")
search.paths.model, search.paths.unique_tag = model, None
search.paths.save_all()                                # what pre_fit_output writes: model.json, search.json, ...
folder, reread = Path(search.paths.output_path).name, SearchOutput(Path(search.paths.output_path)).id
print("VIOLATION: output folder %s but SearchOutput.id %s" % (folder, reread) if folder != reread else "no violation: SearchOutput.id is the folder name (repaired in /repo, 74a3352)")
