"""C19 finding: a database at the current schema without a stamp (here: one just created by
open_database/create_all, committed by the user) gets object.latent_variables_for_id added when reopened."""
import os, shutil, sqlite3, sys, tempfile
REPO = os.environ.get("VERIF_REPO", "/repo"); sys.path.insert(0, REPO)
import autofit as af; from autoconf import conf
tmp = tempfile.mkdtemp(); conf.instance.push(new_path="/verif/harness/config", output_path=tmp)
import autofit.database as db
path = os.path.join(tmp, "new.sqlite")
def cols():
    con = sqlite3.connect(path); c = [r[1] for r in con.execute("PRAGMA table_info('object')")]; con.close(); return c
s = db.open_database(path); s.add(db.Fit(id="a")); s.commit(); s.close(); s.get_bind().dispose()   # creates the file
before = cols()
s = db.open_database(path); s.add(db.Fit(id="b")); s.commit(); s.close(); s.get_bind().dispose()   # first reopen
after = cols(); shutil.rmtree(tmp)
print("object columns after creation:", before); print("object columns after reopen:  ", after)
assert after != before, "reopen changed nothing (defect repaired for new files)"
print("DEFECT: reopening a database created by the current code changed its schema")
