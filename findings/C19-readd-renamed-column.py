"""C19 finding (known, not repairable without rewriting released steps): a database at the current schema
WITHOUT a revision stamp -- what create_all of every version before 8b3dae9 produced -- gets
object.latent_variables_for_id added when it is reopened."""
import os, shutil, sqlite3, sys, tempfile
REPO = os.environ.get("VERIF_REPO", "/repo"); sys.path.insert(0, REPO)
import autofit as af; from autoconf import conf
tmp = tempfile.mkdtemp(); conf.instance.push(new_path="/verif/harness/config", output_path=tmp)
import autofit.database as db
path = os.path.join(tmp, "legacy.sqlite")
def cols():
    con = sqlite3.connect(path); c = [r[1] for r in con.execute("PRAGMA table_info('object')")]; con.close(); return c
s = db.open_database(path); s.add(db.Fit(id="a")); s.commit(); s.close(); s.get_bind().dispose()   # current schema
con = sqlite3.connect(path); con.execute("DROP TABLE IF EXISTS revision"); con.commit(); con.close()  # ... as an older version left it: no stamp
before = cols()
s = db.open_database(path); s.close(); s.get_bind().dispose()                                       # first reopen
after = cols(); shutil.rmtree(tmp)
print("object columns before the reopen:", before); print("object columns after the reopen: ", after)
assert after != before, "reopen changed nothing (defect gone)"
print("DEFECT: reopening an unstamped database at the current schema added a column of an already applied step")
