"""C07 finding: a fixed value and the string spelling its token give one identifier.
Run: PYTHONPATH=/repo /venv/bin/python findings/C07-type-collapse.py"""
import autofit as af
from autofit.mapper.identifier import Identifier

def model(v):
    m = af.Model(af.Gaussian, centre=af.UniformPrior(0.0, 1.0), normalization=1.0, sigma=1.0)
    m.flag = v
    return m
for x, y in ((1.0, "1.0"), (True, "True"), (3, "3")):
    same = str(Identifier(model(x))) == str(Identifier(model(y)))
    print("VIOLATION:" if same else "no violation:", repr(x), "and", repr(y), "-> same identifier" if same else "-> different identifiers")
