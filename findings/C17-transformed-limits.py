# C17 finding: arithmetic on a TransformedMessage loses its limits (with_base does not pass them on).
# run: PYTHONPATH=/repo /venv/bin/python findings/C17-transformed-limits.py
import autofit as af
m = af.UniformPrior(1.0, 3.0).message
print("limits of the message:", (m.lower_limit, m.upper_limit))
for name, r in (("m ** 1.0", m ** 1.0), ("(m*m)/m", (m * m) / m), ("m * 2.0", m * 2.0), ("m.copy()", m.copy())):
    print(name, "->", (r.lower_limit, r.upper_limit))
    assert (r.lower_limit, r.upper_limit) == (float("-inf"), float("inf"))
