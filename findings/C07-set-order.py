"""C07 finding: a set of strings is walked in iteration order, which follows PYTHONHASHSEED: not the same in every process.
Run: PYTHONPATH=/repo /venv/bin/python findings/C07-set-order.py"""
import os, subprocess, sys
code = "from autofit.mapper.identifier import Identifier; print(Identifier([{'a','b','c','dd','e1','mass'}]))"
ids = {subprocess.run([sys.executable, "-W", "ignore", "-c", code], env=dict(os.environ, PYTHONHASHSEED=str(s)),
                      capture_output=True, text=True).stdout.strip().splitlines()[-1] for s in (1, 2, 3, 4)}
print("VIOLATION: %d different identifiers in 4 processes:" % len(ids) if len(ids) > 1 else "no violation:", sorted(ids))
