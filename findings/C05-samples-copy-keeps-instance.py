"""C05 finding: a Samples object derived with with_paths / without_paths after the parent's `instance` has been
read hands out the PARENT's cached best-fit instance (Samples.__copy__ resets `_paths` / `_names` but keeps
`_instance`), i.e. an instance that is not built from the derived object's own maximising sample and model.
Run:  PYTHONPATH=/repo /venv/bin/python -W ignore findings/C05-samples-copy-keeps-instance.py
"""
import autofit as af
from autofit.non_linear.samples.sample import Sample
from autofit.non_linear.samples.samples import Samples


class G:
    def __init__(self, a=0.0, b=0.0):
        self.a, self.b = a, b


def make():
    model = af.Collection(g0=af.Model(G, a=af.UniformPrior(0.0, 1.0), b=af.UniformPrior(0.0, 1.0)),
                          g1=af.Model(G, a=af.UniformPrior(0.0, 1.0), b=2.0))
    sl = Sample.from_lists(model=model, parameter_lists=[[0.1, 0.2, 0.3], [0.4, 0.5, 0.6]],
                           log_likelihood_list=[-2.0, -1.0], log_prior_list=[0.0, 0.0], weight_list=[0.5, 0.5])
    return Samples(model=model, sample_list=sl)


fresh = make().with_paths([("g0",)]).instance
used_parent = make()
used_parent.instance                                  # use ...
used = used_parent.with_paths([("g0",)]).instance     # ... change ... use again
print("fresh parent : components", [k for k in ("g0", "g1") if hasattr(fresh, k)])
print("parent read  : components", [k for k in ("g0", "g1") if hasattr(used, k)])
assert [k for k in ("g0", "g1") if hasattr(fresh, k)] == ["g0"]
if hasattr(used, "g1"):
    print("DEFECT: the reduced Samples object reports the parent's instance (it still holds g1)")
else:
    print("ok: the reduced object builds its own instance")
