"""C04 finding: BFGS/LBFGS minimise chi-squared but designate -inf as the value of an invalid vector.
Run: cd /tmp && PYTHONPATH=/repo /venv/bin/python /verif/findings/C04-bfgs-resample.py
The keywords are read from autofit/non_linear/search/mle/bfgs/search.py itself.
Expected: an invalid vector costs more than every valid one (the search minimises); observed: -inf < 1.0"""
import ast, os
import autofit as af
from autofit.non_linear.fitness import Fitness

src = os.path.join(os.path.dirname(af.__file__), "non_linear", "search", "mle", "bfgs", "search.py")
call = [n for n in ast.walk(ast.parse(open(src).read())) if isinstance(n, ast.Call) and getattr(n.func, "id", "") == "Fitness"][0]
kw = {k.arg: ast.unparse(k.value) for k in call.keywords if k.arg in ("fom_is_log_likelihood", "resample_figure_of_merit", "convert_to_chi_squared")}
print("bfgs/search.py wiring:", kw)
import numpy as np
kw = {k: eval(v, {"np": np}) for k, v in kw.items()}

class G:
    def __init__(self, a=0.0):
        self.a = a

class A(af.Analysis):
    def log_likelihood_function(self, instance):
        return -instance.g.a

model = af.Collection(g=af.Model(G, a=af.UniformPrior(0.0, 1.0)))
fitness = Fitness(model=model, analysis=A(), **kw)
valid, invalid = fitness([0.5]), fitness([5.0])
print("cost of a valid vector:", valid, " cost of an out-of-limit vector:", invalid)
assert invalid > valid, "the minimiser is told that the invalid vector is the best possible one"
