"""C18 finding: a prior used twice inside one factor's model -> initial cavity is not the prior."""
import autofit as af
import autofit.graphical as g


class Analysis(af.Analysis):
    def log_likelihood_function(self, instance):
        return -1.0


p = af.GaussianPrior(mean=0.0, sigma=4.0)
factor = g.AnalysisFactor(af.Model(af.Gaussian, centre=p, normalization=p, sigma=1.0), Analysis())
fgm = g.FactorGraphModel(factor)
print("prior_counts:", fgm.prior_counts)            # 3 (one analysis factor + one prior factor = 2 expected)
approx = fgm.mean_field_approximation()
cavity = approx.factor_approximation(approx.factor_graph.factors[0]).cavity_dist[p]
print("cavity sigma:", cavity.sigma, "prior sigma:", p.sigma)
assert abs(cavity.sigma - p.sigma) < 1e-9, "initial cavity is not the user's prior"
