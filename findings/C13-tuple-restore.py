"""C13 episode (fixed by 916e580): restoring a frozen model that holds a TuplePrior.
Run: PYTHONPATH=/repo /venv/bin/python -W ignore findings/C13-tuple-restore.py"""
import copy, pickle
import autofit as af
from autofit import database as db
from autofit.mapper.prior.tuple_prior import TuplePrior

class T:
    def __init__(self, pos=0.0, w=0.0):
        self.pos, self.w = pos, w

m = af.Model(T, pos=TuplePrior(pos_0=af.UniformPrior(0.0, 1.0), pos_1=2.0), w=af.UniformPrior(0.0, 1.0))
m.freeze()
for name, restore in (("deepcopy", copy.deepcopy), ("pickle", lambda x: pickle.loads(pickle.dumps(x))), ("copy", copy.copy),
                      ("database", lambda x: db.Object.from_object(x)())):
    r = restore(m)                                   # raised AssertionError for "database" between b49160e and 916e580
    owner, tup = getattr(r, "_is_frozen", False), getattr(r.pos, "_is_frozen", False)
    print(name, r.prior_count, owner, tup)
    assert r.prior_count == m.prior_count and owner == tup
