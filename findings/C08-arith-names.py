"""C08 finding: attribute names of arithmetic priors are not stored.  Run: PYTHONPATH=/repo /venv/bin/python findings/C08-arith-names.py"""
import json
import autofit as af

p, q = af.UniformPrior(0.0, 1.0), af.UniformPrior(0.0, 1.0)
model = af.Model(af.Gaussian, centre=p, normalization=p + q, sigma=1.0)
loaded = af.AbstractPriorModel.from_dict(json.loads(json.dumps(model.dict())))
print("paths before", model.paths)     # [('centre',), ('normalization', 'p'), ('normalization', 'q')]
print("paths after ", loaded.paths)    # [('centre',), ('normalization', 'left_'), ('normalization', 'right_')]
