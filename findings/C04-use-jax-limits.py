"""C04 finding: under USE_JAX=1 prior limits are not checked, an out-of-limit vector is evaluated.
Run: cd /tmp && PYTHONPATH=/repo /venv/bin/python /verif/findings/C04-use-jax-limits.py
(jax is not installed here: the flag USE_JAX=1 would set, autofit.jax_wrapper.use_jax, is set directly;
 it is the only thing Prior.assert_within_limits consults)
Expected (property): -1e99 (resample value) for [5.0] with UniformPrior(0, 1); observed: -5.0"""
import autofit as af
import autofit.jax_wrapper as jw
from autofit.non_linear.fitness import Fitness

class G:
    def __init__(self, a=0.0):
        self.a = a

class A(af.Analysis):
    def log_likelihood_function(self, instance):
        return -instance.g.a

model = af.Collection(g=af.Model(G, a=af.UniformPrior(0.0, 1.0)))
fitness = Fitness(model=model, analysis=A(), resample_figure_of_merit=-1e99, store_history=True)
print("USE_JAX off:", fitness([5.0]))
jw.use_jax = True
value = fitness([5.0])
print("USE_JAX on :", value, "history:", fitness.parameters_history_list)
assert value == -1e99, "an out-of-limit vector was evaluated instead of resampled"
