"""C02 finding: NormalMessage.value_for computes erfinv(1 - 2.0*(1.0 - unit)); the cancellation destroys the lower tail.
Run: PYTHONPATH=/repo /venv/bin/python findings/C02-normal-lower-tail.py"""
from statistics import NormalDist
import autofit as af
from autofit import exc

g = af.GaussianPrior(mean=0.0, sigma=1.0)
for u in (1e-12, 1e-15, 1e-17):
    print("GaussianPrior(0,1).value_for(%g) = %r   true quantile %r" % (u, float(g.value_for(u)), NormalDist().inv_cdf(u)))
assert float(g.value_for(1e-17)) == float("-inf") and abs(float(g.value_for(1e-12)) - NormalDist().inv_cdf(1e-12)) > 1e-6
t = af.GaussianPrior(mean=0.0, sigma=1.0, lower_limit=-9.0, upper_limit=-8.5)   # unit window (1.1e-19, 9.5e-18) is not empty
raised = 0
for u in (2e-19, 1e-18, 3e-18, 5e-18, 9e-18):
    try:
        t.value_for(u)
    except exc.PriorLimitException:
        raised += 1
print("GaussianPrior(0,1,-9,-8.5): value_for raised for %d of 5 unit values inside its unit window" % raised)
assert raised == 5, "defect no longer reproduces"
