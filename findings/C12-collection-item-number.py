"""C12 finding: a passed list-style Collection forgets its item counter; append() overwrites a component.
Run: PYTHONPATH=/repo /venv/bin/python -W ignore findings/C12-collection-item-number.py"""
import autofit as af


class G:
    def __init__(self, a=0.0, b=1.0):
        self.a, self.b = a, b


model = af.Collection([af.Model(G, a=af.UniformPrior(-1.0, 1.0), b=af.UniformPrior(-2.0, 1.0))])
new = model.mapper_from_prior_means([0.5, 0.25], a=1.0)
print(model.item_number, new.item_number)            # 1 0
new.append(af.Model(G, a=af.UniformPrior(0.0, 1.0), b=af.UniformPrior(0.0, 1.0)))
print(new.prior_count, [k for k in vars(new) if k.isdigit()])   # 2 ['0']  (expected 4 ['0', '1'])
