"""C08 finding (fixed by acffd7c): item_number of a reloaded Collection after a removal.  Run: PYTHONPATH=/repo /venv/bin/python findings/C08-reload-item-number-after-removal.py"""
import json
import autofit as af

c = af.Collection([af.Model(af.Gaussian), af.Model(af.Exponential), af.Model(af.Gaussian, centre=1.0)])
c.remove(c[1])
loaded = af.AbstractPriorModel.from_dict(json.loads(json.dumps(c.dict())))
print("item_number", c.item_number, "->", loaded.item_number)      # 3 -> 3 (was 2 before acffd7c)
for m in (c, loaded):
    m.append(af.Model(af.Exponential))
print(sorted(k for k in c.__dict__ if k.isdigit()), sorted(k for k in loaded.__dict__ if k.isdigit()), c.prior_count, loaded.prior_count)
