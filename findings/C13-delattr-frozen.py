"""C13 finding: delattr (and Collection.remove) are not covered by assert_not_frozen.
Run: PYTHONPATH=/repo /venv/bin/python -W ignore findings/C13-delattr-frozen.py"""
import autofit as af

class G:
    def __init__(self, a=0.0, b=0.0):
        self.a, self.b = a, b

m = af.Model(G, a=af.UniformPrior(0.0, 1.0), b=af.UniformPrior(0.0, 1.0))
m.freeze()
print(m.prior_count)                        # 2 (cached)
del m.a                                     # accepted on a frozen model
stale, now = m.prior_count, m.copy().prior_count
print(stale, now)                           # 2 1
c = af.Collection(x=af.Model(G, a=af.UniformPrior(0.0, 1.0), b=1.0), y=af.Model(G, a=af.UniformPrior(0.0, 1.0), b=2.0))
c.freeze(); print(c.prior_count)            # 2
c.remove(c.x); print(c.prior_count, c.copy().prior_count)   # 2 1
assert stale == now, "frozen model answers from a composition that no longer exists"
