# PYTHONPATH=/repo /venv/bin/python -W ignore findings/C06-lbfgs-resume.py
# An LBFGS fit interrupted after its first saved state (here: by an exception in the likelihood) can not be resumed.
import tempfile, logging, autofit as af
from autoconf import conf
out = tempfile.mkdtemp(); conf.instance.push(new_path="/verif/harness/config", output_path=out); logging.disable(50)
class A(af.Analysis):
    calls = 0
    def __init__(self, die_after=None): self.die_after = die_after
    def log_likelihood_function(self, instance):
        A.calls += 1
        if self.die_after and A.calls > self.die_after: raise KeyboardInterrupt   # the "kill"
        return -0.5 * ((instance.centre - 0.3) ** 2 + 3 * (instance.sigma - 0.6) ** 2)
    def should_visualize(self, paths, during_analysis=True): return False
m = af.Model(af.Gaussian, centre=af.UniformPrior(-5.0, 5.0), normalization=1.0, sigma=af.UniformPrior(-5.0, 5.0))
try: af.LBFGS(name="fit", iterations_per_update=1, maxiter=3).fit(m, A(die_after=12))
except KeyboardInterrupt: print("first run interrupted after", A.calls, "likelihood calls")
try: af.LBFGS(name="fit", iterations_per_update=1, maxiter=3).fit(m, A())
except Exception as e: print("re-run raised", type(e).__name__, e)
import shutil; shutil.rmtree(out, ignore_errors=True)
