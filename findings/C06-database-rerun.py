# PYTHONPATH=/repo /venv/bin/python -W ignore findings/C06-database-rerun.py
# Re-running a fit completed through a database session returns a Result without samples summary / instance.
import os, sys, tempfile, logging
import autofit as af
from autoconf import conf
out = tempfile.mkdtemp(); conf.instance.push(new_path="/verif/harness/config", output_path=out); logging.disable(50)
class A(af.Analysis):
    n=0
    def log_likelihood_function(self, instance):
        A.n+=1
        return -(instance.centre - 0.3) ** 2
    def should_visualize(self, paths, during_analysis=True): return False
m = af.Model(af.Gaussian, centre=af.UniformPrior(-5.0, 5.0), normalization=1.0, sigma=1.0)
session = af.db.open_database(out+"/db.sqlite")
for i in range(2):
    A.n=0
    try:
        r = af.LBFGS(name="fit", iterations_per_update=1, maxiter=2, session=session).fit(m, A())
        print(i, "evals", A.n, "summary", r.samples_summary, "samples", r.samples)
        print("   instance", r.instance.centre)
    except Exception as e:
        import traceback; traceback.print_exc()
import shutil; shutil.rmtree(out, ignore_errors=True)
