# C17 finding: BetaMessage.project raises for every input with the installed numpy (>= 2.0):
# np.linalg.solve(jac, -f) with f of shape (n, 2) is read as a matrix right-hand side.
# run: PYTHONPATH=/repo /venv/bin/python findings/C17-beta-project.py
import numpy as np
from autofit.messages.beta import BetaMessage
samples = np.array([0.2, 0.35, 0.5, 0.4, 0.7, 0.3, 0.45])
try:
    print(BetaMessage.project(samples).parameters)
    raise SystemExit("no exception: defect not present")
except ValueError as e:
    print("BetaMessage.project raised ValueError:", e)
