"""C16 finding: sensitivity results.csv headers and folder labels use attribute (path) order, values use prior id order.
Run: PYTHONPATH=/repo /venv/bin/python -W ignore findings/C16-sensitivity-labels-id-order.py"""
import autofit as af
from autofit.non_linear.grid import sensitivity as s

sig = af.UniformPrior(lower_limit=0.0, upper_limit=8.0)        # created first: grid dimension 0 (2 steps)
cen = af.UniformPrior(lower_limit=100.0, upper_limit=104.0)    # created second: grid dimension 1 (4 steps)
sens = object.__new__(s.Sensitivity)
sens.perturb_model = af.Model(af.Gaussian, centre=cen, normalization=1.0, sigma=sig)
sens.number_of_steps, sens.limit_scale = (2, 4), 1
cell0 = next(iter(sens._perturb_models))
print("cell 0 fitted: centre in [%s, %s], sigma in [%s, %s]" % (cell0.centre.lower_limit, cell0.centre.upper_limit, cell0.sigma.lower_limit, cell0.sigma.upper_limit))
row0 = dict(zip(sens._headers, sens._physical_values[0]))
label0 = next(iter(sens._labels))
print("results.csv row 0:", row0, " folder:", label0)
ok = cell0.centre.lower_limit <= row0["centre"] <= cell0.centre.upper_limit and label0 == "sigma_2.0_centre_100.5"
print("no violation: headers and labels follow the grid dimensions (repaired in /repo, c25e54b)" if ok else
      "VIOLATION: row 0 / folder 0 describe centre=%s, sigma=%s; the cell fitted has centre in [100, 101], sigma in [0, 4]" % (row0["centre"], row0["sigma"]))
