"""C01 finding: a tuple member defined by arithmetic on priors is silently dropped from the built tuple.
Run: /venv/bin/python findings/C01-arith-member-in-tuple.py   (VERIF_REPO selects the tree, default /repo)"""
import sys, os
sys.path.insert(0, os.path.join(os.path.dirname(os.path.abspath(__file__)), "..", "harness", "impl"))
from vimpl_common import setup
af, conf = setup("/tmp/c01_finding_scratch")
import vclasses, shutil
p0, p1, p2 = [af.UniformPrior(0.0, 1.0) for _ in range(3)]
m = af.Model(vclasses.T2, c=p2)
m.pos_0 = p0 + p1
m.pos_1 = p1
pos = m.instance_from_vector([0.25, 0.5, 0.75]).pos
shutil.rmtree("/tmp/c01_finding_scratch", ignore_errors=True)
print("prior_count", m.prior_count, "paths", m.paths, "pos", pos)
assert pos != (0.75, 0.5), "tuple built correctly (defect repaired?)"
print("VIOLATION: pos should be (0.75, 0.5), got", pos)
