"""C14 finding: SneakyPool.map returns results in completion order (free-running, no harness).
Run: PYTHONPATH=/repo /venv/bin/python findings/C14-map-order.py"""
import time
from autofit.non_linear.parallel import SneakyPool


def slow_identity(args):
    time.sleep(args[0])
    return args[0]


if __name__ == "__main__":
    pool = SneakyPool(processes=2, fitness=None, paths=None)
    inputs = [0.5, 0.0]
    results = list(pool.map(slow_identity, [(x,) for x in inputs], log_info=False))
    print("inputs ", inputs)
    print("results", results, "<- expected", inputs)
    del pool
    assert results == inputs, "results are not matched to inputs by position"
