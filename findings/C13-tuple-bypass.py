"""C13 finding: TuplePrior is not freezable, so a frozen model's tuple members can be reassigned.
Run: PYTHONPATH=/repo /venv/bin/python -W ignore findings/C13-tuple-bypass.py"""
import autofit as af
from autofit.mapper.prior.tuple_prior import TuplePrior

class T:
    def __init__(self, pos=0.0, w=0.0):
        self.pos, self.w = pos, w

m = af.Model(T, pos=TuplePrior(pos_0=af.UniformPrior(0.0, 1.0), pos_1=2.0), w=af.UniformPrior(0.0, 1.0))
m.freeze()
print(m.prior_count)                                   # 2 (cached)
try:
    m.pos_1 = af.UniformPrior(0.0, 1.0)                # rejected: AssertionError
except AssertionError as e:
    print("rejected:", e)
m.pos.pos_1 = af.UniformPrior(0.0, 1.0)                # accepted
print(m.prior_count, m.copy().prior_count)             # 2 3
assert m.prior_count == m.copy().prior_count
