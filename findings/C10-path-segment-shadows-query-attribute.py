"""Reproduction of a C10 finding against the real code:  PYTHONPATH=/repo /venv/bin/python -W ignore C10-path-segment-shadows-query-attribute.py
model.g.name == 'lens' is a Python bool because NamedQuery.name shadows the path segment."""
import logging; logging.disable(logging.CRITICAL)
from autofit import database as db
from autofit.database.model import sa
from autofit.database.aggregator.aggregator import Aggregator


class G:
    def __init__(self, **kw):
        self.__dict__.update(kw)


engine = sa.create_engine("sqlite://")
session = sa.orm.sessionmaker(bind=engine)()
db.Base.metadata.create_all(engine)
session.add_all([
    db.Fit(id="f0", instance=G(a=G(b=1.0, c=2.0), d=1.0), name="n0", unique_tag="t0", is_complete=True, info={"k": "v"}),
    db.Fit(id="f1", instance=G(a=G(b=2.0, c=2.0), d="x"), name="n1", unique_tag="t1", is_complete=True, info={"k": "w", "o": "p"}),
    db.Fit(id="f2", instance=G(a=1.0, d=None), name="n2", unique_tag="t2", is_complete=True),
    db.Fit(id="f3", instance=G(a=0.0), name="n3", unique_tag="t3", is_complete=True),
    db.Fit(id="f4", instance=G(a=0.5), name="n4", unique_tag="t4", is_complete=True),
])
session.commit()
agg = Aggregator(session, top_level_only=False)
m = agg.model
ids = lambda a: sorted(f.id for f in a.fits)
session.add(db.Fit(id="f5", instance=G(g=G(name="lens", mass=1.0)), name="n5", unique_tag="t5", is_complete=True))
session.commit()
q = m.g.name == "lens"
print("m.g.name == 'lens' ->", repr(q), "; m.g.mass == 1.0 ->", type(m.g.mass == 1.0).__name__)
assert q is False
try:
    print(ids(agg.query(q)))
    raise SystemExit("defect not reproduced")
except AttributeError as e:
    print("AttributeError:", e, "-- expected ['f5']")
for seg in ("condition", "query", "tables", "fit_query", "tables_string", "other_condition"):
    assert not hasattr(getattr(m.g, seg), "fit_query") or seg == "condition", seg
print("reproduced: path-segment-shadows-query-attribute")
