# PYTHONPATH=/repo /venv/bin/python -W ignore findings/C06-internal-truncated.py
# A completed fit whose search_internal.dill rewrite was interrupted can never be loaded again.
import os, glob, tempfile, logging, autofit as af
from autoconf import conf
out = tempfile.mkdtemp(); conf.instance.push(new_path="/verif/harness/config", output_path=out); logging.disable(50)
class A(af.Analysis):
    def log_likelihood_function(self, instance): return -(instance.centre - 0.3) ** 2
m = af.Model(af.Gaussian, centre=af.UniformPrior(0.0, 1.0), normalization=1.0, sigma=1.0)
conf.instance["general"]["output"]["remove_files"] = False
af.Drawer(name="fit", total_draws=4).fit(m, A())
z = glob.glob(out + "/fit/*.zip")[0]; os.remove(z)              # folder only, as before the zip step
open(z[:-4] + "/files/search_internal/search_internal.dill", "wb").close()   # = killed inside save_search_internal
for i in range(2):
    try: af.Drawer(name="fit", total_draws=4).fit(m, A())
    except Exception as e: print("re-run", i, "raised", type(e).__name__, "| .completed present:", os.path.exists(z[:-4] + "/.completed"))
import shutil; shutil.rmtree(out, ignore_errors=True)
