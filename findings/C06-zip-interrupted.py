# PYTHONPATH=/repo /venv/bin/python -W ignore findings/C06-zip-interrupted.py
# State left by a process killed inside zip_directory: intact completed folder + truncated archive.
import os, glob, tempfile, logging, autofit as af
from autoconf import conf
out = tempfile.mkdtemp(); conf.instance.push(new_path="/verif/harness/config", output_path=out); logging.disable(50)
class A(af.Analysis):
    def log_likelihood_function(self, instance): return -(instance.centre - 0.3) ** 2
m = af.Model(af.Gaussian, centre=af.UniformPrior(0.0, 1.0), normalization=1.0, sigma=1.0)
conf.instance["general"]["output"]["remove_files"] = False
r = af.Drawer(name="fit", total_draws=4).fit(m, A())          # completes: folder kept + archive
z = glob.glob(out + "/fit/*.zip")[0]; folder = z[:-4]
os.truncate(z, os.path.getsize(z) // 2)                         # = killed half way through the next zip_directory
print("before:", os.path.exists(folder + "/.completed"), os.path.exists(folder + "/files/samples_summary.json"))
try: af.Drawer(name="fit", total_draws=4).fit(m, A())
except Exception as e: print("re-run raised", type(e).__name__)
print("after :", os.path.exists(folder + "/.completed"), os.path.exists(folder + "/files/samples_summary.json"))
import shutil; shutil.rmtree(out, ignore_errors=True)
