# PYTHONPATH=/repo /venv/bin/python -W ignore findings/C06-archive-suffix-name.py
# Two fits without identifier folder in one output directory, named 'x.zip' and 'x': the folder of the first is the archive
# name of the second. After both completed, the completed fit 'x.zip' can not be loaded again (NotADirectoryError).
import tempfile, logging, shutil
import autofit as af
from autoconf import conf
out = tempfile.mkdtemp(); conf.instance.push(new_path="/verif/harness/config", output_path=out); logging.disable(50)
class A(af.Analysis):
    def log_likelihood_function(self, instance):
        return -(instance.centre - 0.3) ** 2
    def should_visualize(self, paths, during_analysis=True): return False
m = af.Model(af.Gaussian, centre=af.UniformPrior(-5.0, 5.0), normalization=1.0, sigma=1.0)
for name in ("x.zip", "x", "x.zip", "x"):
    try:
        paths = af.DirectoryPaths(name=name, path_prefix="demo", is_identifier_in_paths=False)
        r = af.Drawer(name=name, path_prefix="demo", paths=paths, total_draws=4).fit(m, A())
        print(name, "ok", r.instance.centre)
    except Exception as e:
        print(name, "raises", type(e).__name__, e)
shutil.rmtree(out, ignore_errors=True)
