"""C19 finding: Migrator.migrate never commits -> no stamp, steps re-executed on every open.
Run: /venv/bin/python -W ignore findings/C19-stamp-not-committed.py   (VERIF_REPO selects the tree)"""
import os, shutil, sqlite3, sys, tempfile
REPO = os.environ.get("VERIF_REPO", "/repo"); sys.path.insert(0, REPO)
import autofit as af; from autoconf import conf
tmp = tempfile.mkdtemp(); conf.instance.push(new_path="/verif/harness/config", output_path=tmp)
import autofit.database as db
path = os.path.join(tmp, "old.sqlite")
shutil.copy(os.path.join(REPO, "test_autofit/database/migration/database.sqlite"), path)  # historical file, no revision table
def look():
    con = sqlite3.connect(path)
    cols = [r[1] for r in con.execute("PRAGMA table_info('object')")]
    tabs = sorted(r[0] for r in con.execute("SELECT name FROM sqlite_master WHERE type='table'"))
    rev = con.execute("SELECT * FROM revision").fetchall() if "revision" in tabs else "no table"
    con.close(); return rev, "json" in tabs, cols[6:]
for i in range(4):
    s = db.open_database(path); s.close(); s.get_bind().dispose()   # read-only use: no commit
    print("after open %d: revision rows %r, json table %r, extra object columns %r" % ((i + 1,) + look()))
rev, _, extra = look()
shutil.rmtree(tmp)
assert rev == [], "stamp stored (defect repaired)"
print("DEFECT: revision table is still empty after 4 opens; the first open migrated nothing on disk, "
      "the third one added 'latent_variables_for_id' again")
