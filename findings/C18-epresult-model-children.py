"""C18 finding: EPResult.model drops all but the last child of a hierarchical factor (children share one name)."""
import autofit as af
import autofit.graphical as g
from autofit.graphical.declarative.result import EPResult

mean, p1, p2 = af.GaussianPrior(mean=0.0, sigma=4.0), af.GaussianPrior(mean=1.0, sigma=2.0), af.GaussianPrior(mean=2.0, sigma=2.0)
h = g.HierarchicalFactor(af.GaussianPrior, mean=mean, sigma=1.0)
h.add_drawn_variable(p1)
h.add_drawn_variable(p2)
fgm = g.FactorGraphModel(h)
res = EPResult(ep_history=None, declarative_factor=fgm, updated_ep_mean_field=fgm.mean_field_approximation())
reported = {pr.id for pr in res.model.priors}
print("priors of the graph:", sorted(pr.id for pr in fgm.priors), " priors with a posterior in EPResult.model:", len(reported))
assert len(res.model.priors) == len(fgm.priors), "EPResult.model has no posterior for a drawn variable"
