"""C07 finding: fixed values that are numpy scalars (not float64), and constructor arguments of a plain object that
are keyword-only or stored under another name, do not enter the identifier.
(test_autofit/database/identifier/test_identifiers.py::test_numpy_array pins Identifier(np.array([0])).hash_list == [].)
Run: PYTHONPATH=/repo /venv/bin/python findings/C07-dropped-value.py"""
import numpy as np
import autofit as af
from autofit.mapper.identifier import Identifier

m = lambda v: af.Model(af.Gaussian, centre=af.UniformPrior(0.0, 1.0), normalization=1.0, sigma=v)
a, b = Identifier(m(np.float32(3.5))), Identifier(m(np.float32(4.5)))
print(a.hash_list[-3:], b.hash_list[-3:], Identifier([np.int64(3), np.bool_(True), 1 + 2j]).hash_list)
print("VIOLATION: sigma=3.5 and sigma=4.5 (float32) claim the same output:" if str(a) == str(b) else "no violation (repaired?)", a)

class KW:
    def __init__(self, *, p=1.0):
        self.p = p
print("VIOLATION: keyword-only argument invisible:" if str(Identifier(KW(p=1.0))) == str(Identifier(KW(p=5.0))) else "no violation", Identifier(KW(p=5.0)).hash_list)
