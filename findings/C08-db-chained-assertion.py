"""C08 finding: chained assertions cannot be written to the database.  Run: PYTHONPATH=/repo /venv/bin/python findings/C08-db-chained-assertion.py"""
import autofit as af
from autofit import database as db

model = af.Model(af.Gaussian)
model.add_assertion((model.centre < model.normalization) < model.sigma)
try:
    db.Fit(id="fit", model=model)
except AttributeError as e:
    print(type(e).__name__, e)     # 'CompoundAssertion' object has no attribute 'left'
