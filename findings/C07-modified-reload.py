"""C07 finding: a negated / abs prior does not survive the fit's own model.json.
Run: PYTHONPATH=/repo /venv/bin/python findings/C07-modified-reload.py"""
import json
import autofit as af
from autofit.mapper.identifier import Identifier
from autoconf.dictable import to_dict, from_dict

x, y = af.UniformPrior(0.0, 1.0), af.UniformPrior(0.0, 2.0)
model = af.Model(af.Gaussian, centre=-(x + y), normalization=1.0, sigma=y)
back = from_dict(json.loads(json.dumps(to_dict(model))))
print(Identifier(model).hash_list[3:6], "->", Identifier(back).hash_list[3:6], "free parameters", model.prior_count, "->", back.prior_count)
print("VIOLATION: the reloaded centre is the default prior of the class, the identifier changed"
      if str(Identifier(model)) != str(Identifier(back)) else "no violation (repaired?)")
try:
    json.dumps(to_dict(af.Model(af.Gaussian, centre=-x, normalization=1.0, sigma=1.0)))
    print("no violation: a negated bare prior can be written (repaired?)")
except TypeError as e:
    print("VIOLATION: model.json cannot be written for a negated bare prior:", e)
