"""C13 finding: with_paths(("pos",)) drops the members of a tuple prior.
Run: PYTHONPATH=/repo /venv/bin/python -W ignore findings/C13-with-paths-whole-tuple.py"""
import autofit as af


class T:
    def __init__(self, pos=(0.0, 0.0), w=0.0):
        self.pos, self.w = pos, w


m = af.Model(T)
m.pos.pos_0 = af.UniformPrior(0.0, 1.0); m.pos.pos_1 = af.UniformPrior(0.0, 1.0); m.w = af.UniformPrior(0.0, 1.0)
print(m.prior_count, m.with_paths([("w",)]).prior_count, m.with_paths([("pos", "pos_0")]).prior_count)   # 3 1 1
print(m.with_paths([("pos",)]).prior_count)        # 0, expected 2
assert m.with_paths([("pos",)]).prior_count == 2
