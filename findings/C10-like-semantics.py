"""Reproduction of a C10 finding against the real code:  PYTHONPATH=/repo /venv/bin/python -W ignore C10-like-semantics.py
search.name.contains('N1') and contains('_1') select the fit named 'n1' (SQL LIKE), 'N1' in 'n1' is False."""
import logging; logging.disable(logging.CRITICAL)
from autofit import database as db
from autofit.database.model import sa
from autofit.database.aggregator.aggregator import Aggregator


class G:
    def __init__(self, **kw):
        self.__dict__.update(kw)


engine = sa.create_engine("sqlite://")
session = sa.orm.sessionmaker(bind=engine)()
db.Base.metadata.create_all(engine)
session.add_all([
    db.Fit(id="f0", instance=G(a=G(b=1.0, c=2.0), d=1.0), name="n0", unique_tag="t0", is_complete=True, info={"k": "v"}),
    db.Fit(id="f1", instance=G(a=G(b=2.0, c=2.0), d="x"), name="n1", unique_tag="t1", is_complete=True, info={"k": "w", "o": "p"}),
    db.Fit(id="f2", instance=G(a=1.0, d=None), name="n2", unique_tag="t2", is_complete=True),
    db.Fit(id="f3", instance=G(a=0.0), name="n3", unique_tag="t3", is_complete=True),
    db.Fit(id="f4", instance=G(a=0.5), name="n4", unique_tag="t4", is_complete=True),
])
session.commit()
agg = Aggregator(session, top_level_only=False)
m = agg.model
ids = lambda a: sorted(f.id for f in a.fits)
for pat in ("N1", "_1", "n%"):
    got = ids(agg.query(agg.search.name.contains(pat)))
    want = sorted(f.id for f in agg.fits if pat in f.name)
    print("contains(%r) returned %s expected %s" % (pat, got, want))
    assert got != want
got = ids(agg.query(agg.search.name.in_("xN1")))
print("in_('xN1') returned", got, "expected []")
assert got == ["f1"]
print("reproduced: like-semantics")
