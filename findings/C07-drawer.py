"""C07 finding: search.json written for a Drawer search cannot be read back, so SearchOutput.id raises.
Run: PYTHONPATH=/repo /venv/bin/python findings/C07-drawer.py"""
import json, tempfile
import autofit as af
from autoconf import conf
from autoconf.dictable import to_dict, from_dict

conf.instance.push(new_path="/repo/test_autofit/config", output_path=tempfile.mkdtemp())
d = json.loads(json.dumps(to_dict(af.Drawer(name="fit", total_draws=3))))
try:
    from_dict(d)
    print("no violation: the files can be read back (repaired in /repo)")
except TypeError as e:
    print("VIOLATION: the identifier cannot be recomputed from the fit's files:", e)
