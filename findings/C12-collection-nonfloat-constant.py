"""C12 finding: non-float constants held directly by a Collection are dropped by prior passing.
Run: PYTHONPATH=/repo /venv/bin/python -W ignore findings/C12-collection-nonfloat-constant.py"""
import autofit as af


class G:
    def __init__(self, a=0.0, b=1.0):
        self.a, self.b = a, b


model = af.Collection(g=af.Model(G, a=af.UniformPrior(-1.0, 1.0), b=af.UniformPrior(-2.0, 1.0)), k=3, tag="txt", f=2.5)
new = model.mapper_from_prior_means([0.5, 0.25], a=1.0)
print(sorted(k for k in vars(model) if k in ("g", "k", "tag", "f")))     # ["f", "g", "k", "tag"]
print(sorted(k for k in vars(new) if k in ("g", "k", "tag", "f")))       # ['f', 'g']
