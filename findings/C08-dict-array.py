"""C08 finding: af.Array inside a Collection is dropped by dict/JSON reload.  Run: PYTHONPATH=/repo /venv/bin/python findings/C08-dict-array.py"""
import json
import autofit as af

model = af.Collection(arr=af.Array((2, 2), af.UniformPrior(0.0, 1.0)))
loaded = af.AbstractPriorModel.from_dict(json.loads(json.dumps(model.dict())))
print("prior_count", model.prior_count, "->", loaded.prior_count, "; paths", loaded.paths)     # 4 -> 0
