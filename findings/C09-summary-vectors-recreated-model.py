"""C09 finding: error estimates of samples_summary.json attach to the wrong parameters when read through an aggregator.
Run: PYTHONPATH=/repo /venv/bin/python -W ignore findings/C09-summary-vectors-recreated-model.py"""
import tempfile
import autofit as af
from autoconf import conf
from autoconf.dictable import to_dict
from autofit.aggregator.search_output import SearchOutput
from autofit.non_linear.samples.sample import Sample
from autofit.non_linear.samples.pdf import SamplesPDF

conf.instance.push(new_path="/verif/harness/config", output_path=tempfile.mkdtemp())
model = af.Collection(g=af.Model(af.Gaussian, normalization=af.UniformPrior(0.0, 1.0), sigma=af.UniformPrior(0.0, 1.0)))
model.g.centre = af.UniformPrior(0.0, 100.0)          # customised afterwards: newest prior, first attribute
rows = [[0.1, 0.2, 10.0], [0.2, 0.3, 20.0], [0.3, 0.4, 30.0], [0.4, 0.5, 40.0]]
samples = SamplesPDF(model=model, samples_info={"total_iterations": 4, "time": 1.0},
                     sample_list=Sample.from_lists(model, rows, [-4.0, -1.0, -2.0, -3.0], [0.0] * 4, [0.25] * 4))
paths = af.DirectoryPaths(name="c09_vectors")
paths.model = model
summary = samples.summary()
paths.save_samples_summary(summary)
paths.save_json("model", to_dict(model))
loaded = SearchOutput(paths.output_path).samples_summary
print("fit   :", dict(zip([".".join(p) for p in model.unique_prior_paths], summary.values_at_sigma_1)))
print("reload:", dict(zip([".".join(p) for p in loaded.model.unique_prior_paths], loaded.values_at_sigma_1)))
