"""C09 finding: a best-fit parameter equal to 0.0 is dropped when samples_summary.json is read back.
Run: PYTHONPATH=/repo /venv/bin/python -W ignore findings/C09-summary-zero-value.py"""
import tempfile
import autofit as af
from autoconf import conf
from autofit.non_linear.samples.sample import Sample
from autofit.non_linear.samples.pdf import SamplesPDF

conf.instance.push(new_path="/verif/harness/config", output_path=tempfile.mkdtemp())
model = af.Collection(g=af.Model(af.Gaussian, centre=af.UniformPrior(-1.0, 1.0),
                                 normalization=af.UniformPrior(0.0, 1.0), sigma=af.UniformPrior(0.0, 1.0)))
samples = SamplesPDF(model=model, samples_info={"total_iterations": 1, "time": 1.0},
                     sample_list=Sample.from_lists(model, [[0.0, 0.5, 0.25]], [-1.0], [0.0], [1.0]))
paths = af.DirectoryPaths(name="c09_zero")
paths.model = model
paths.save_samples_summary(samples.summary())
loaded = paths.load_samples_summary()
print("persisted kwargs:", samples.summary().max_log_likelihood_sample.kwargs)
print("reloaded kwargs :", loaded.max_log_likelihood_sample.kwargs)
try:
    print(loaded.max_log_likelihood(as_instance=False))
except KeyError as e:
    print("KeyError", e)
