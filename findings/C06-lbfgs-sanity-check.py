# check_likelihood_function = true (library default): state of a fit interrupted before .completed; argv: drawer|lbfgs  trunc|full
# trunc: samples_summary.json cut (killed while writing it) -> JSONDecodeError for ever; lbfgs full: SearchException for ever
import os, sys, tempfile, logging, glob
import autofit as af
from autoconf import conf
out = tempfile.mkdtemp(); conf.instance.push(new_path="/verif/harness/config", output_path=out); logging.disable(50)
conf.instance["general"]["test"]["check_likelihood_function"] = True
print("chk", conf.instance["general"]["test"]["check_likelihood_function"])
class A(af.Analysis):
    def log_likelihood_function(self, instance):
        return -0.5 * ((instance.centre - 0.3) ** 2 + 3.0 * (instance.sigma - 0.6) ** 2)
    def should_visualize(self, paths, during_analysis=True): return False
m = af.Model(af.Gaussian, centre=af.UniformPrior(-5.0, 5.0), normalization=1.0, sigma=af.UniformPrior(-5.0, 5.0))
which = sys.argv[1]
def mk():
    return af.Drawer(name="fit", total_draws=4) if which=="drawer" else af.LBFGS(name="fit", iterations_per_update=1, maxiter=2)
mk().fit(m, A())
z = glob.glob(out + "/fit/*.zip")[0]
import zipfile, shutil
with zipfile.ZipFile(z) as f: f.extractall(z[:-4])
os.remove(z); os.remove(z[:-4] + "/.completed")     # state: everything written, marker not yet
if which!="drawer": os.remove(z[:-4] + "/files/search_internal/search_internal.dill")
mode = sys.argv[2]
if mode == "trunc":
    p = z[:-4] + "/files/samples_summary.json"; os.truncate(p, os.path.getsize(p)//2)
for i in range(2):
    try: mk().fit(m, A()); print("rerun", i, "ok")
    except Exception as e: print("rerun", i, "raised", type(e).__name__, str(e)[:150].replace("\n"," "))
shutil.rmtree(out, ignore_errors=True)
