"""C01 finding: an int constant as tuple member is silently dropped from the built tuple.
Run: /venv/bin/python findings/C01-int-const-in-tuple.py"""
import sys, os
sys.path.insert(0, os.path.join(os.path.dirname(os.path.abspath(__file__)), "..", "harness", "impl"))
from vimpl_common import setup
af, conf = setup("/tmp/c01_finding_scratch")
import vclasses, shutil
p0, p1, p2 = [af.UniformPrior(0.0, 1.0) for _ in range(3)]
m = af.Model(vclasses.T2, c=p1)
m.pos_0 = 1
m.pos_1 = p0
pos = m.instance_from_vector([0.25, 0.75]).pos
shutil.rmtree("/tmp/c01_finding_scratch", ignore_errors=True)
print("pos", pos)
assert pos != (1, 0.25), "tuple built correctly (defect repaired?)"
print("VIOLATION: pos should be (1, 0.25), got", pos)
