# C17 finding: FixedMessage declares `__div__ = _no_op` (the Python-2 name); `/ real` therefore goes through
# AbstractMessage.__truediv__ and subtracts log(real) from log_norm, while `* real` is the identity: (f * c) / c is not f.
# run: PYTHONPATH=/repo /venv/bin/python findings/C17-fixed-sdiv.py
from autofit.messages.fixed import FixedMessage
f = FixedMessage(2.0, log_norm=0.5)
print("(f * 3.).log_norm =", (f * 3.0).log_norm, "  ((f * 3.) / 3.).log_norm =", ((f * 3.0) / 3.0).log_norm, "  (f / f) is f:", (f / f) is f)
assert (f * 3.0) is f and ((f * 3.0) / 3.0).log_norm != f.log_norm
