#!/usr/bin/env python3
import json, sys
pid, wt = sys.argv[1], sys.argv[2]
hint = sys.argv[3] if len(sys.argv) > 3 else ""
p = [json.loads(l) for l in open('/verif/properties.jsonl') if json.loads(l)["id"] == pid][0]
print(f"""You are given a git worktree of the Python library PyAutoFit at {wt} (Python interpreter: /venv/bin/python; run code with `cd {wt} && PYTHONPATH={wt} /venv/bin/python ...`; no network). Work ONLY inside {wt}; do not look at or touch /repo, /verif or any other directory.

Here is a semantic property the library is supposed to satisfy:

Title: {p['title']}
Statement: {p['statement']}
It must hold for: {p['quantifier']['text']}
Code it is anchored in: {', '.join(p['anchors']['files'])}

YOUR TASK: write ONE realistic change to the library source (a plausible refactoring slip, off-by-one, wrong operand/ordering, dropped case, stale state, wrong key, etc. — the kind of bug a maintainer could introduce) that BREAKS this property, while the library still imports and its existing test-suite still passes. The change must need something SPECIFIC to manifest — a particular interleaving or completion order, a crash/fault at a particular point, a multi-step sequence of operations, an unusual input (e.g. a particular size, shape, sign, sharing pattern), or two cooperating sites that each look fine alone — NOT something ordinary use would expose at once. Keep the change small (a few lines, source files under autofit/ only, no test edits). {hint}

Steps:
1. Read the anchored code. Decide on the change. Make it in {wt}.
2. Write a demonstration `demo.py` at {wt}/demo.py: a small self-contained program that exits 0 (printing PASS) on the ORIGINAL code and exits 1 (printing FAIL and why) with your change. It must exercise the library's real API and check the property (not internals). If the library needs prior configuration use explicit priors (e.g. af.Model(af.Gaussian, centre=af.UniformPrior(0,1), ...)) or `from autoconf import conf; conf.instance.push(new_path="{wt}/test_autofit/config", output_path="<a temp dir>")`.
3. Verify: with your change `cd {wt} && PYTHONPATH={wt} /venv/bin/python demo.py` fails; `git diff -- autofit > {wt}/seed.diff; git checkout -- autofit` (do NOT use `git stash`: the stash is shared between worktrees of the same repository and other people are using it) and it passes; re-apply the change with `git apply {wt}/seed.diff` and confirm with `git diff --stat` that only your own files are modified. Run the relevant existing tests with the change applied and confirm they pass: `cd {wt} && /venv/bin/python -m pytest -q -p no:cacheprovider -x <relevant test dirs under test_autofit>` (the full suite has ~1090 tests and takes several minutes; run at least the directories that cover the files you touched, and preferably the whole suite: `/venv/bin/python -m pytest -q -p no:cacheprovider --timeout=900`).
4. Leave the worktree with the change applied (uncommitted) and demo.py present. Write {wt}/seed_meta.json: {{"property": "{pid}", "summary": "<one sentence: what was changed>", "needs": "<what specific condition makes it manifest>", "files": [...], "tests_run": "<command and result>"}}.

Final message: the diff (git diff of autofit/), what it needs to manifest, the demo result with and without the change, and the tests you ran with their result. Be honest if some existing test fails with your change (then choose a different change).""")
