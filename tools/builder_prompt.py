#!/usr/bin/env python3
import json, sys
pid = sys.argv[1]
extra = sys.argv[2] if len(sys.argv) > 2 else ""
p = [json.loads(l) for l in open('/verif/properties.jsonl') if json.loads(l)["id"] == pid][0]
print(f"""You are building the verification check for ONE property ({pid}) of the Python library PyAutoFit (source in /repo, pinned; Python at /venv/bin/python; never modify /repo) inside an existing framework in /verif. The technique is machine-checked proof in Coq 8.16 (installed: coqc, coq_makefile; no network; nothing can be installed): a Gallina model of the relevant code, theorems about it for ALL inputs/histories, and a correspondence check that runs the model (vm_compute inside Coq) and the real implementation on the same generated inputs and compares, plus a direct property oracle on the implementation.

PROPERTY {pid}: {p['title']}
Statement: {p['statement']}
Quantifier: {p['quantifier']['text']}
Why tests cannot settle it: {p['why_tests_cant']}
Anchored files: {', '.join(p['anchors']['files'])}
Mechanisms: {'; '.join(m.get('name','')+' @ '+m.get('where','') for m in p['anchors']['mechanism'])}
Observe at: {'; '.join(p['anchors'].get('observe_at') or [])}

WHAT TO DO
1. Read /verif/BUILDING.md completely (conventions, file layout, rules, what you may and may not edit). Read /verif/DESIGN.md sections 0-4 and 7, the '{pid}' part of section 5, the parts of Appendix A and section 6 that concern {pid} (the design was written after reading the code; section 6 lists suspected defects that you must re-derive with your check before they count). Study the worked example C16: /verif/coq/C16/*.v, /verif/harness/vcheck/c16.py, /verif/harness/impl/c16_impl.py, and /verif/harness/vcheck/common.py (the Ctx API).
2. Read the anchored code in /repo carefully; the model must be faithful to the code that exists (defects included).
3. Build, in this order, committing nothing (the lead commits): (a) coq/{pid}/Model.v with an executable model + `Inductive case` + `check_case`; (b) harness/impl/{pid.lower()}_impl.py + harness/vcheck/{pid.lower()}.py with generator, property oracle, correspondence, `run(ctx)` and `MANIFEST`; get `cd /verif && ./check {pid} --tier quick` running end to end early; (c) Proofs.v / Props.v / Witness.v with real, universally quantified theorems (induction / invariants / refinement) stating the property over the model at full strength, `_refuted` witnesses + `_partial` theorems where the faithful model violates the full statement; (d) thorough tier; (e) known_findings/{pid}.json + findings/{pid}-*.{{json,py}} reproductions for genuine defects you decide to record, proposed_fixes/{pid}-*.diff (+ .md) for defects with a small safe repair (test the repair on a scratch copy of the repo via VERIF_REPO=..., run the relevant part of the repo test-suite on the copy with `cd <copy> && /venv/bin/python -m pytest -q -p no:cacheprovider <tests>`, then delete the copy).
4. The final state must be: `./check {pid} --tier quick` exits 0 on the current /repo (possibly printing KNOWN-FINDING lines), takes at most ~3 minutes, writes /verif/evidence/{pid}.json that validates against /root/.vp/EVIDENCE.schema.json (validate with /opt/veriftools/pyvenv/bin/python + jsonschema), and `--tier thorough` also exits 0 (<= ~20 min). No Admitted/admit/Axiom/Parameter anywhere. Props.v only statements closed by `exact`.
5. Think about which realistic breaking changes to the anchored code (subtle ones: a particular interleaving, unusual input, multi-step sequence, two cooperating sites) your check would catch; strengthen generator/oracle/correspondence so that it catches as many as possible, while never raising an alarm on correct code. Try 2-3 such mutations yourself on a scratch copy of the repo (VERIF_REPO=/tmp/repo_{pid} ./check {pid}) and confirm they are detected; delete the copy afterwards.

CONSTRAINTS
- Only create/edit files that belong to {pid}: coq/{pid}/*, harness/vcheck/{pid.lower()}.py, harness/impl/{pid.lower()}_*.py, known_findings/{pid}.json, findings/{pid}-*, proposed_fixes/{pid}-*, corpus/{pid}/*. Other builders are working concurrently on other properties in the same tree: do not touch shared files (coq/Common, common.py, pyexpr2coq.py, check, setup.sh, MANIFEST.json, DESIGN.md) and do not run git commands that change the index or working tree of /verif or /repo. Do not run `./setup.sh`.
- Every shell command prints a harmless 'WARNING conda.cli.condarc' line; ignore it. Use `timeout` on every coqc/make. Do not leave processes running or files under /tmp when you finish. Scratch copies of the repo go under /tmp/repo_{pid} and must be deleted.
- Prefer a working, sound, reasonably strong check over an ambitious unfinished one. If a part of the design for {pid} is too expensive, implement the core and say precisely what is missing. A proof is never replaced by a bounded sweep presented as the unbounded claim.
{extra}
FINAL REPORT (your last message; it is read by the lead, keep it under 60 lines): files created; theorems in Props.v (name: one-line meaning; full/partial/refuted); what the correspondence compares and case counts; genuine defects found (with the failing input and whether you propose a fix or a known finding); anything in shared files that should change; which mutations you tried and whether they were detected; wall time of quick and thorough; what remains weak.""")
