#!/usr/bin/env python3
import json, sys
pid = sys.argv[1]
p = [json.loads(l) for l in open('/verif/properties.jsonl') if json.loads(l)["id"] == pid][0]
print(f"""You are an adversarial REVIEWER (read-only: do not create, edit or delete any file under /verif or /repo; you may create scratch files only under /tmp/review_{pid} and must delete them at the end) of one property check in a verification framework. Technique: machine-checked proof in Coq 8.16 about a Gallina model of Python code (PyAutoFit, in /repo), tied to the code by a correspondence check (model run by vm_compute vs real code on generated inputs) and a direct property oracle. Read /verif/BUILDING.md for the conventions.

PROPERTY {pid}: {p['title']}
Statement: {p['statement']}
Quantifier: {p['quantifier']['text']}
Anchored files: {', '.join(p['anchors']['files'])}

MATERIAL: /verif/coq/{pid}/*.v (Props.v = theorem statements, Model.v = model, Witness.v), /verif/harness/vcheck/{pid.lower()}.py, /verif/harness/impl/{pid.lower()}_*.py, /verif/known_findings/{pid}.json, /verif/evidence/{pid}.json (last run), the anchored code in /repo, and the {pid} part of /verif/DESIGN.md section 5. You may run `cd /verif && ./check {pid} --tier quick` (do not run other checks; VERIF_SEED=<n> selects a seed) and small read-only experiments with `PYTHONPATH=/repo /venv/bin/python`.

LOOK FOR, concretely and with evidence (file:line, theorem names, a concrete input):
1. Theorems that are vacuous, trivially definitional, or weaker than they look: hypotheses no reachable state satisfies; conclusions that restate the model's definition; a guard that excludes most realistic inputs; `_partial` theorems whose guard hides the interesting case; parts of the property statement with NO theorem at all.
2. Places where the Gallina model may not be faithful to the code AND the correspondence would not notice (observables not compared, inputs never generated, exceptions mapped too coarsely, values fed back from the implementation into the model as 'oracles' so that the comparison becomes circular).
3. Parts of the property statement / quantifier that neither the oracle nor the correspondence exercises (name them: input shapes, operations, configurations, interleavings).
4. Known-finding classes that are too broad (could mask a NEW defect) — say which label and what it would hide.
5. False-alarm risks on unchanged code: timing/flakiness, dependence on machine load, randomness not derived from the seed, tolerance comparisons that could fail legitimately, temp files, sensitivity to dict/set order or hash seeds.
6. Realistic code changes (give 2-3 concrete one-to-five-line mutations of the anchored code that break the property subtly) that you believe this check would NOT detect, and why.

OUTPUT (your final message, <= 60 lines, no preamble): a ranked list of the most valuable improvements (most valuable first), each with: what is wrong/missing, evidence, and the smallest concrete change that would fix it (in terms of generator / oracle / model / theorem). Then one line: overall verdict (sound? strong? where is it weakest?). Be specific; do not praise; do not list things that are fine.""")
