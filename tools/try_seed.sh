#!/bin/bash
# usage: tools/try_seed.sh <worktree> <prop> [tier]   -- run a check against a mutated worktree
wt=$1; prop=$2; tier=${3:-quick}
cd /verif
cp evidence/$prop.json /tmp/evidence_backup_$prop.json 2>/dev/null
VERIF_REPO=$wt ./check $prop --tier $tier 2>&1 | grep -v conda.cli | tail -6
echo "exit=$?"
# evidence files must describe runs against /repo itself: restore
mv /tmp/evidence_backup_$prop.json evidence/$prop.json 2>/dev/null
# restore generated files from the real repo
python3 - <<PY
import sys; sys.path.insert(0,'/verif/harness')
import importlib
try:
    m = importlib.import_module("vcheck.$prop".lower())
    if hasattr(m, "regenerate"): m.regenerate()
except Exception as e: print("regen:", e)
PY
