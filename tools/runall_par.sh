#!/bin/bash
# tools/runall_par.sh <tier> <jobs> "<seeds>" [props...]  -- run checks (one property per worker, seeds sequential), summarise
tier=$1; jobs=$2; seeds=$3; shift 3
cd "$(dirname "$0")/.."
props=${@:-$(python3 -c "import json;print(' '.join(json.load(open('tools/claimed.json'))))")}
one() { p=$1; for s in $SEEDS; do
    start=$(date +%s)
    out=$(VERIF_SEED=$s ./check $p --tier $TIER 2>&1 | grep -v conda.cli); 
    echo "$p seed=$s ($(( $(date +%s)-start )) s): $(echo "$out" | tail -1) | viol=$(echo "$out" | grep -c '^VIOLATION') known=$(echo "$out" | grep -c '^KNOWN-FINDING')"
    echo "$out" | grep -E "^VIOLATION" | head -3
  done; }
export -f one; export SEEDS="$seeds" TIER=$tier
echo $props | tr ' ' '\n' | xargs -P $jobs -I{} bash -c 'one {}'
