#!/bin/bash
# usage: tools/keep_seed.sh <worktree> <seed-id> <prop> "<detected-by / result>"
wt=$1; id=$2; prop=$3; res=$4
d=/verif/seeded/$id; mkdir -p $d
git -C $wt diff -- autofit > $d/patch.diff
cp $wt/demo.py $d/demo.py 2>/dev/null
python3 - "$wt" "$id" "$prop" "$res" <<'PY'
import json, sys, os
wt, sid, prop, res = sys.argv[1:5]
meta = {}
try: meta = json.load(open(os.path.join(wt, "seed_meta.json")))
except Exception: pass
meta.update({"id": sid, "property": prop, "check_result": res,
             "confirmed": "lead re-ran demo.py with and without the change in the scratch worktree; check run with VERIF_REPO=<worktree> (equivalent to applying patch.diff to /repo, which was avoided while builder agents were using /repo)"})
json.dump(meta, open("/verif/seeded/%s/meta.json" % sid, "w"), indent=1)
PY
