#!/bin/bash
# tools/runall.sh [tier] [seeds...]  -- run every claimed check, summarise
tier=${1:-quick}; shift; seeds=${@:-0}
cd /verif
for p in $(python3 -c "import json;print(' '.join(json.load(open('tools/claimed.json'))))"); do
  for s in $seeds; do
    out=$(VERIF_SEED=$s ./check $p --tier $tier 2>&1 | grep -v conda.cli)
    rc=$?
    echo "$p seed=$s: $(echo "$out" | tail -1)"
    echo "$out" | grep -E "^(VIOLATION|KNOWN-FINDING)" | head -5
  done
done
