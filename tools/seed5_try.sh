#!/bin/bash
# usage: tools/seed5_try.sh <prop> [check-prop]  -- confirm the demo, then run the quick check against the mutated worktree
p=$1; c=${2:-$1}; wt=/tmp/seed5/$p
tools/confirm_seed.sh $wt 2>&1 | grep -v conda
s=$(date +%s)
tools/try_seed.sh $wt $c quick 2>&1 | grep -v conda | tail -5
echo "[$p via $c] $(( $(date +%s)-s )) s"
