#!/bin/bash
# usage: tools/seed_try.sh <round-dir> <prop> [check-prop]
r=$1; p=$2; c=${3:-$2}; wt=$r/$p
tools/confirm_seed.sh $wt 2>&1 | grep -v conda
s=$(date +%s)
tools/try_seed.sh $wt $c quick 2>&1 | grep -v conda | tail -5
echo "[$p via $c] $(( $(date +%s)-s )) s"
