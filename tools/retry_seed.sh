#!/bin/bash
# usage: run.sh <seed-id>
id=$1; d=/verif/seeded/$id
prop=$(python3 -c "import json;print(json.load(open('$d/meta.json'))['property'])")
wt=${SCRATCH:-/tmp/retry}/wt_$id
git -C /repo worktree add -q --detach $wt HEAD 2>/dev/null
if ! git -C $wt apply $d/patch.diff 2>/dev/null; then
  if ! git -C $wt apply -3 $d/patch.diff 2>/dev/null; then echo "$id $prop PATCH-DOES-NOT-APPLY"; git -C /repo worktree remove --force $wt; exit; fi
fi
cd ${VERIF_WT:-/verif}
out=$(VERIF_REPO=$wt timeout 1500 ./check $prop --tier quick 2>&1 | grep -v conda | tail -1)
v=$(echo "$out" | sed -n 's/.*violations \([0-9]*\).*/\1/p'); o=$(echo "$out" | sed -n 's/.*obligations \([0-9]*\/[0-9]*\).*/\1/p')
echo "$id $prop violations=$v obligations=$o"
git -C /repo worktree remove --force $wt
