#!/bin/bash
# usage: tools/confirm_seed.sh <worktree>   -- demo must FAIL with the change and PASS without it
w=$1
cd $w || exit 2
git diff -- autofit > $w/seed.diff
PYTHONPATH=$w timeout 900 /venv/bin/python -W ignore demo.py > $w/with.txt 2>&1; a=$?
git checkout -q -- autofit
PYTHONPATH=$w timeout 900 /venv/bin/python -W ignore demo.py > $w/without.txt 2>&1; b=$?
git apply $w/seed.diff
echo "$w: with-change exit=$a ($(grep -v conda $w/with.txt | tail -1 | cut -c1-120)) | without exit=$b ($(tail -1 $w/without.txt | cut -c1-60))"
