#!/usr/bin/env python3
"""Assemble MANIFEST.json from the per-property modules (harness/vcheck/cXX.py: MANIFEST dict)."""
import importlib, json, os, sys
HERE = os.path.dirname(os.path.dirname(os.path.abspath(__file__)))
sys.path.insert(0, os.path.join(HERE, "harness"))
props = [json.loads(l) for l in open(os.path.join(HERE, "properties.jsonl"))]
NOT_READY = {}
f = os.path.join(HERE, "tools", "not_claimed.json")
if os.path.exists(f):
    NOT_READY = json.load(open(f))
# only properties the lead has reviewed and listed here are claimed
CLAIMED = json.load(open(os.path.join(HERE, "tools", "claimed.json")))
checks, na = [], []
for p in props:
    pid = p["id"]
    try:
        mod = importlib.import_module("vcheck." + pid.lower())
        m = getattr(mod, "MANIFEST")
        if pid in NOT_READY or pid not in CLAIMED:
            raise ImportError
    except (ImportError, AttributeError):
        na.append({"property_id": pid, "reason": NOT_READY.get(pid, "check under construction (not yet claimed); the technique applies, see DESIGN.md section 5")})
        continue
    checks.append({
        "property_id": pid,
        "quick_cmd": "./check %s --tier quick" % pid,
        "thorough_cmd": "./check %s --tier thorough" % pid,
        "evidence_file": "/verif/evidence/%s.json" % pid,
        "replay_cmd_template": "./check %s --replay {path}" % pid,
        "engine": "coq-model+correspondence",
        "level_claimed": {"category": m.get("category", "proof"), "text": m["text"], "design_ref": "DESIGN.md section 5 (%s)" % pid},
        "level_note": m["note"],
        "technique": m["technique"],
    })
man = {
    "version": 1,
    "setup_cmd": "./setup.sh",
    "hooks": {
        "guard": "RHAYES777_PYAUTOFIT_VERIF",
        "enable": "checks export RHAYES777_PYAUTOFIT_VERIF=1 for the implementation drivers; no source hooks exist in /repo (fault injection, tracing and schedule steering are harness-side monkeypatches)",
        "baseline_off_cmd": "cd /repo && /venv/bin/python -m pytest -ra -q -p no:cacheprovider --timeout=900 --continue-on-collection-errors",
        "source_commits": [],
        "add_only": True,
    },
    "engines": [{"name": "coq-model+correspondence", "path": "/verif/check", "serves_properties": [c["property_id"] for c in checks],
                 "kind_free_text": "Coq 8.16 development under /verif/coq (Common + one directory per property), Python harness under /verif/harness; see DESIGN.md"}],
    "checks": checks,
    "notes": "See DESIGN.md. Genuine defects repaired in /repo by fix: commits and recorded findings are listed in known_findings/<id>.json.",
    "not_applicable": na,
}
json.dump(man, open(os.path.join(HERE, "MANIFEST.json"), "w"), indent=1)
print("checks:", [c["property_id"] for c in checks])
