#!/bin/bash
# MANIFEST.setup_cmd: full offline .vo build of the whole Coq development.
set -e
cd "$(dirname "$0")"
export PATH=/usr/bin:$PATH
python3 - <<'PY'
import os, sys
sys.path.insert(0, "harness")
from vcheck import common
ok, log = common.make_dir("Common")
print("Common:", "ok" if ok else "FAILED")
if not ok:
    print(log[-3000:]); sys.exit(1)
from concurrent.futures import ThreadPoolExecutor
dirs = sorted(d for d in os.listdir("coq") if d.startswith("C") and d[1:].isdigit())
# dependencies first (C01 is imported by C03/C08/C12)
first = [d for d in dirs if d in {x for v in common.DEPS.values() for x in v}]
for d in first:
    ok, log = common.make_dir(d)
    print(d + ":", "ok" if ok else "FAILED")
dirs = [d for d in dirs if d not in first]
def b(d):
    try:
        m = __import__("vcheck." + d.lower(), fromlist=["x"])
        if hasattr(m, "regenerate"):
            m.regenerate()
    except ImportError:
        pass
    return d, common.make_dir(d)
bad = 0
with ThreadPoolExecutor(4) as ex:
    for d, (ok, log) in ex.map(b, dirs):
        print(d + ":", "ok" if ok else "FAILED")
        if not ok:
            print(log[-3000:]); bad += 1
print('setup: %d property directories failed to build (their checks will report it)' % bad)
sys.exit(0)
PY
