"""C10 -- database queries return exactly the fits satisfying the predicate (DESIGN.md section 5, C10)."""
import json
import os
import random
import re
import subprocess

from . import common
from .common import cZ, cstr, cbool, clist, copt, cpair

from fractions import Fraction

BASE_NAMES = ["a", "b", "c", "d", "e"]
ODD_NAMES = ["_p", "a_b"]                       # private-looking / underscore names must be stored and queryable
SHADOW_NAMES = ["name", "condition", "query"]   # attributes of NamedQuery: shadow a path segment after the first
# numbers: every distinct value has ONE spelling per database (so set de-duplication by SQL text = by value)
NUM_SPELLINGS = [[-1.0], [0, 0.0, False], [0.5], [1, 1.0, True], [1.5], [2, 2.0], [0.125], [0.375], [-0.625], [0.1],
                 [1e-07], [1e+20, 10 ** 20], [3], [2.675], [-7]]
STRS = ["x", "y", "xy", "abc", "X", "Xy", "a_c", "50%", "it's"]
CLS = ["A", "B", "C"]
CLASS_MODULE = "c10_classes"
FIT_NAMES = ["fit", "fita", "fitb", "grid", "gridx", "run", "runfit", "alpha", "Fit", "fit_a", "n1"]
TAGS = ["t0", "t1", "t2", "tag", "T1"]
PREFIXES = ["p", "p/q", "out"]
INFO_KEYS = ["k", "m", "o"]
INFO_VALS = ["v", "w", "x"]
MLLS = [-2.0, -0.5, 0.0, 0.5, 1.0, 2.5, 3.0, 0.1, 1e-07, 12345.678]
SYMS = ["=", "<", "<=", ">", ">="]
CMP_COQ = {"=": "CEq", "<": "CLt", "<=": "CLe", ">": "CGt", ">=": "CGe"}

# which variant of the model describes the code under test: "current" (the tree as it is: every repair applied).
# The others describe the code with repairs reverted and exist only for regression experiments on scratch copies:
# "pre4" (766ce6b, 21e37aa, 79488b4, 596613e reverted), "ortab"/"njunc"/"nnull"/"ninfo" (pre4 + one of them),
# "prequote" (also 60fb795 reverted), "legacy" (everything reverted).
DEFAULT_VARIANT = "bestfix"   # /repo since b724954 (BestFitQuery without the trailing semicolon); "current" = the tree before it
LABEL_FN = {"current": "case_labels", "bestfix": "case_labels_bestfix", "slicefix": "case_labels_slicefix", "bothfix": "case_labels_bothfix", "pre4": "case_labels_pre4", "prequote": "case_labels_prequote", "legacy": "case_labels_legacy",
            "ortab": "case_labels_ortab", "ninfo": "case_labels_ninfo", "nnull": "case_labels_nnull", "njunc": "case_labels_njunc"}

KNOWN_CLASSES = {     # label bits of Model.case_labels that may excuse a failure (only live findings)
    32: "three-tables",
    512: "like-semantics",
    2048: "path-segment-shadows-query-attribute",
}


def fit_attr(f, attr):
    """the column `attr` of an abstract fit"""
    if attr == "max_log_likelihood":
        return f["mll"]
    if attr == "parent_id":
        return f["parent"]
    return f[attr]


def null_key(v):
    """SQLite: NULL sorts before every value (ASC), after every value under DESC (= reverse of this key)"""
    return (0, 0) if v is None else (1, v)


def class_path(name):
    if name in ("list", "tuple", "dict"):
        return name
    return CLASS_MODULE + "." + name


# ---------------------------------------------------------------------------
# generator
# ---------------------------------------------------------------------------

def gen_leaf(rng, dom):
    r = rng.random()
    if r < 0.6:
        return {"v": rng.choice(dom["nums"])}
    if r < 0.85:
        return {"s": rng.choice(dom["strs"])}
    return {"none": 1}


def gen_obj(rng, depth, dom):
    r = rng.random()
    if depth <= 0 or r < 0.42:
        return gen_leaf(rng, dom)
    if r < 0.84:
        names = rng.sample(dom["names"], rng.randint(1, 3))
        return {"cls": rng.choice(CLS), "kids": [[n, gen_obj(rng, depth - 1, dom)] for n in names]}
    if r < 0.95:
        k = rng.randint(0, 3)
        return {"cls": rng.choice(["list", "tuple"]), "kids": [[str(i), gen_obj(rng, depth - 1, dom)] for i in range(k)]}
    names = rng.sample(dom["names"], rng.randint(1, 2))
    return {"cls": "dict", "kids": [[n, gen_obj(rng, depth - 1, dom)] for n in names]}


_DOMS = {}


def dom_of(db):
    d = _DOMS.get(id(db))
    if d is None:       # a database that was not generated here (corpus / replay): derive a domain from it
        nums, strs, names = [], [], []
        def walk(o):
            if "v" in o and o["v"] not in nums:
                nums.append(o["v"])
            if "s" in o and o["s"] not in strs:
                strs.append(o["s"])
            for n, c in o.get("kids", []):
                if n not in names and not n.isdigit():
                    names.append(n)
                walk(c)
        for f in db:
            walk(f["inst"])
        d = {"names": names or ["a"], "nums": nums or [1.0], "strs": strs or ["x"]}
        _DOMS[id(db)] = d
    return d


def gen_domain(rng):
    """Per-database value domain: attribute names, numbers (one spelling per value), strings."""
    names = rng.sample(BASE_NAMES, 4)
    if rng.random() < 0.4:
        names.append(rng.choice(ODD_NAMES))
    if rng.random() < 0.15:
        names.append(rng.choice(SHADOW_NAMES))
    nums = [rng.choice(sp) for sp in rng.sample(NUM_SPELLINGS, rng.randint(4, 7))]
    strs = rng.sample(STRS[:-1], rng.randint(3, 5))
    if rng.random() < 0.2:
        strs.append(STRS[-1])          # a string with a single quote
    return {"names": names, "nums": nums, "strs": strs}


def gen_db(rng, thorough, want_children=None, for_order=False):
    n = rng.randint(1, 12 if thorough else 8)
    if rng.random() < 0.2:
        n = rng.randint(8, 12)           # enough fits beyond the window of a slice
    if rng.random() < 0.04:
        n = 1
    elif n == 1 and rng.random() < 0.7:
        n = rng.randint(2, 6)
    fits = []
    dom = gen_domain(rng)
    children = rng.random() < 0.3 if want_children is None else want_children
    null_tags = rng.random() < 0.3
    null_mll = rng.random() < 0.25
    null_bool = rng.random() < 0.15
    # a template shared by most fits, so that the same paths exist with different values
    template = [[nm, gen_obj(rng, rng.randint(0, 3), dom)] for nm in rng.sample(dom["names"], rng.randint(2, 4))]

    def vary(o):
        if "cls" not in o:
            return gen_leaf(rng, dom) if rng.random() < 0.6 else o
        if rng.random() < 0.12:
            return gen_obj(rng, 2, dom)
        cls = o["cls"]
        if cls in CLS and rng.random() < 0.35:
            cls = rng.choice(CLS)
        return {"cls": cls, "kids": [[nm, vary(c)] for nm, c in o["kids"]]}

    for i in range(n):
        if rng.random() < 0.75:
            kids = [[nm, vary(c)] for nm, c in template]
        else:
            kids = [[nm, gen_obj(rng, rng.randint(0, 3), dom)] for nm in rng.sample(dom["names"], rng.randint(1, 4))]
        info = {}
        for k in INFO_KEYS:
            if rng.random() < 0.5:
                info[k] = rng.choice(INFO_VALS)
        parent = None
        if children and i > 0 and rng.random() < 0.5:
            parent = "f00"
        fits.append({
            "id": "f%02d" % i,
            "inst": {"cls": "Root", "kids": kids},
            "name": rng.choice(FIT_NAMES),
            "unique_tag": None if (null_tags and rng.random() < 0.3) else rng.choice(TAGS),
            "path_prefix": rng.choice(PREFIXES),
            "is_complete": None if (null_bool and rng.random() < 0.3) else rng.random() < 0.6,
            "is_grid_search": (i == 0 and children) or rng.random() < 0.15,
            "mll": None if (null_mll and rng.random() < 0.3) else rng.choice(MLLS),
            "info": info,
            "parent": parent,
        })
    _DOMS[id(fits)] = dom
    return fits


def all_paths(o, prefix=()):
    """(path, node) for every node below o."""
    out = []
    for n, c in o.get("kids", []):
        p = prefix + (n,)
        out.append((p, c))
        out += all_paths(c, p)
    return out


def gen_const_for(rng, node, dom):
    r = rng.random()
    if node is not None and r < 0.75:
        if "v" in node:
            return {"n": node["v"] if rng.random() < 0.7 else rng.choice(dom["nums"])}
        if "s" in node:
            return {"s": node["s"] if rng.random() < 0.7 else rng.choice(dom["strs"])}
        if "none" in node:
            return {"none": 1}
        return {"t": node["cls"] if node["cls"] != "Root" else "A"}
    r = rng.random()
    if r < 0.5:
        return {"n": rng.choice(dom["nums"])}
    if r < 0.7:
        return {"s": rng.choice(dom["strs"])}
    if r < 0.82:
        return {"none": 1}
    return {"t": rng.choice(CLS + ["list", "tuple"])}


def gen_cmp(rng, pool, dom):
    path, node = rng.choice(pool)
    c = gen_const_for(rng, node, dom)
    if ("n" in c or "s" in c) and rng.random() < 0.4:
        sym = rng.choice(SYMS[1:])
    else:
        sym = "="
    if sym == "=" and rng.random() < 0.15:
        return ["ne", list(path), c]
    return ["cmp", list(path), sym, c]


def mangle(rng, t):
    """upper-case a letter or put a LIKE wildcard in place of a character (LIKE then differs from `in`)."""
    if not t:
        return t
    i = rng.randrange(len(t))
    r = rng.random()
    if r < 0.5:
        return t[:i] + t[i].swapcase() + t[i + 1:]
    if r < 0.8:
        return t[:i] + "_" + t[i + 1:]
    return t[:i] + "%" + t[i + 1:]


def gen_attr(rng, db):
    f = rng.choice(db)
    r = rng.random()
    if r < 0.27:
        attr = rng.choice(["name", "unique_tag", "path_prefix", "parent_id", "id"])
        if attr in ("parent_id", "id"):
            v = fit_attr(f, attr) if rng.random() < 0.7 else rng.choice([g["id"] for g in db] + [None])
        else:
            v = f[attr] if rng.random() < 0.7 else rng.choice(FIT_NAMES + TAGS + ["it's"])
        return ["attr_eq", attr, v]
    if r < 0.37:
        return ["attr_eqn", "max_log_likelihood", f["mll"] if (f["mll"] is not None and rng.random() < 0.7) else rng.choice(MLLS)]
    if r < 0.6:
        attr = rng.choice(["name", "path_prefix", "unique_tag"])
        t = f[attr] or "t1"
        i = rng.randint(0, len(t) - 1)
        j = rng.randint(i + 1, len(t))
        sub = t[i:j] if rng.random() < 0.8 else "zz"
        if rng.random() < 0.12:
            sub = mangle(rng, sub)
        return ["attr_contains", attr, sub]
    if r < 0.72:
        attr = rng.choice(["name", "unique_tag", "path_prefix"])
        v = f[attr] or "t9"
        hay = rng.choice(["", "q"]) + v + rng.choice(["", "z", "fit"])
        if rng.random() < 0.12:
            hay = mangle(rng, hay)
        return ["attr_in", attr, hay]
    if r < 0.82:
        return ["attr_eqb", rng.choice(["is_complete", "is_grid_search"]), rng.random() < 0.5]
    return ["attr_bool", rng.choice(["is_complete", "is_grid_search"])]


def gen_info(rng, db):
    f = rng.choice(db)
    if f["info"] and rng.random() < 0.7:
        k = rng.choice(sorted(f["info"]))
        return ["info", k, f["info"][k]]
    return ["info", rng.choice(INFO_KEYS), rng.choice(INFO_VALS)]


def gen_pred(rng, db, depth, pool, style):
    """style: 'free' (anything) or 'tame' (constructs the code supports: negation only of leaves)."""
    if depth <= 0 or rng.random() < 0.25:
        r = rng.random()
        if r < 0.7:
            return gen_cmp(rng, pool, dom_of(db))
        if r < 0.88:
            return gen_attr(rng, db)
        return gen_info(rng, db)
    r = rng.random()
    if r < 0.42:
        return ["and", gen_pred(rng, db, depth - 1, pool, style), gen_pred(rng, db, depth - 1, pool, style)]
    if r < 0.84:
        return ["or", gen_pred(rng, db, depth - 1, pool, style), gen_pred(rng, db, depth - 1, pool, style)]
    if style == "tame":
        return ["not", gen_pred(rng, db, 0, pool, style)]
    return ["not", gen_pred(rng, db, depth - 1, pool, style)]


def gen_none_cmp(rng, pool):
    short = [e for e in pool if len(e[0]) == 1] or pool
    path, _ = rng.choice(short)
    return ["cmp", list(path), "=", {"none": 1}]


def gen_algebraic(rng, db, pool):
    """Boolean identities over shared sub-predicates: exercise set de-duplication, hashing / equality of query
    objects (x vs ~x), flattening of nested junctions and the merge by name."""
    def leaf(neg_ok=False):
        r = rng.random()
        if neg_ok and r < 0.2:
            return gen_none_cmp(rng, pool)
        if neg_ok and r < 0.45:
            return gen_attr(rng, db)
        if neg_ok and r < 0.9:
            return gen_cmp(rng, pool, dom_of(db))   # x | ~x, ~x & ~y on paths that get merged by name
        return gen_pred(rng, db, 0, pool, "tame")
    t = rng.randint(0, 9)
    if t == 0:
        x = leaf(True)
        return ["or", x, ["not", x]]
    if t == 1:
        x = leaf(True)
        return ["and", x, ["not", x]]
    if t == 2:
        x = leaf()
        return [rng.choice(["and", "or"]), x, x]
    if t == 3:
        x, y, z = leaf(), leaf(), leaf()
        return ["or", ["and", x, y], ["and", x, z]]
    if t == 4:
        x, y, z = leaf(), leaf(), leaf()
        return ["and", ["or", x, y], ["or", x, z]]
    if t == 5:
        x = leaf(True)
        return ["not", ["not", x]]
    if t == 6:
        x, y = leaf(True), leaf(True)
        return [rng.choice(["and", "or"]), ["not", x], ["not", y]]
    if t == 7:
        x, y = leaf(), leaf()
        return ["or", ["and", x, y], x]
    if t == 8:
        x, y, z = leaf(), leaf(True), leaf()
        return ["and", ["or", x, ["not", y]], ["or", y, z]]
    x, y = leaf(True), leaf()
    return ["or", ["and", ["not", x], y], ["and", x, ["not", ["not", x]]]]


def make_pool(rng, db, maxlen=3):
    # the query objects re-render their SQL recursively: cost grows exponentially with path depth
    existing = []
    for f in db:
        existing += [e for e in all_paths(f["inst"]) if len(e[0]) <= maxlen]
    pool = []
    k = rng.randint(2, 5)
    for _ in range(k):
        if existing and rng.random() < 0.85:
            pool.append(rng.choice(existing))
        else:
            pool.append((tuple(rng.choice(dom_of(db)["names"]) for _ in range(rng.randint(1, 3))), None))
    # deliberately: siblings and extensions of pooled paths, so that name merges happen at every depth
    for path, node in list(pool):
        if rng.random() < 0.5 and len(path) > 1:
            sib = [e for e in existing if e[0][:-1] == path[:-1] and e[0] != path]
            if sib:
                pool.append(rng.choice(sib))
        if rng.random() < 0.3:
            ext = [e for e in existing if len(e[0]) == len(path) + 1 and e[0][:-1] == path]
            if ext:
                pool.append(rng.choice(ext))
    return pool


def pred_size(p):
    if p[0] in ("and", "or"):
        return 1 + pred_size(p[1]) + pred_size(p[2])
    if p[0] == "not":
        return 1 + pred_size(p[1])
    return 1


def has_connective(p):
    return p[0] in ("and", "or", "not", "ne")


def ill_formed(p):
    """inequality against None / a type: rejected by _make_comparison (AssertionError), not a defect."""
    if p[0] in ("and", "or"):
        return ill_formed(p[1]) or ill_formed(p[2])
    if p[0] == "not":
        return ill_formed(p[1])
    if p[0] == "cmp":
        return p[2] != "=" and ("none" in p[3] or "t" in p[3])
    return False


BROAD = [["attr_contains", "path_prefix", "p"], ["attr_contains", "path_prefix", "o"], ["attr_contains", "name", "i"],
         ["attr_contains", "name", "r"], ["or", ["attr_bool", "is_complete"], ["attr_contains", "name", "f"]],
         ["attr_in", "path_prefix", "zp/qout"], ["attr_eqb", "is_complete", True]]
ORDER_ATTRS = ["name", "path_prefix", "max_log_likelihood", "is_complete", "is_grid_search", "unique_tag", "parent_id"]


def gen_slice(rng, n, open_prob=0.45):
    def idx():
        return None if rng.random() < 0.35 else rng.randint(-n - 2, n + 2)
    if rng.random() < open_prob:
        return [idx(), None]
    return [idx(), idx()]


def gen_slice_chain(rng, n):
    """2-3 chained slices whose first window ends before the end of the selection (fits exist beyond it), followed by
    open-ended / negative / bounded slices: every later slice must be composed with the limit already carried."""
    n = max(n, 2)
    a = rng.randint(0, max(0, n - 3))
    b = rng.randint(a + 1, max(a + 1, n - 1))
    first = rng.choice([[a, b], [None, b], [a, b - n], [a - n, b], [None, b - n]])

    def later(m):
        m = max(m, 1)
        k = rng.randint(1, min(3, m))
        r = rng.random()
        if r < 0.4:
            return [k, None]                      # open-ended, start >= 1
        if r < 0.55:
            return [-rng.randint(1, m), None]     # open-ended, negative start
        if r < 0.7:
            return [k, rng.randint(k, m + 2)]
        if r < 0.8:
            return [None, -rng.randint(1, m)]
        if r < 0.9:
            return [k, -rng.randint(0, 2) or None]
        return [0, None] if rng.random() < 0.5 else [None, None]
    width = b - a
    chain = [first, later(width)]
    if rng.random() < 0.5:
        chain.append(later(max(width - 1, 1)))
    return chain


def gen_chain_case(rng, db):
    """a selection with many fits (no predicate or a broad one), ordered totally, then a chain of slices"""
    n = len(db)
    keys = [[a, rng.random() < 0.4] for a in rng.sample(ORDER_ATTRS, rng.randint(0, 1))]
    keys.append(["id", rng.random() < 0.3])
    top_only = rng.random() < 0.35
    m = len([f for f in db if f["parent"] is None]) if top_only else n
    chain = gen_slice_chain(rng, m)
    if rng.random() < 0.5:
        return {"kind": "order", "db": db, "pred": rng.choice(BROAD), "top_only": top_only, "keys": keys,
                "slices": chain, "index": rng.randint(-n, n - 1)}
    ops = [["query", rng.choice(BROAD)]] if rng.random() < 0.3 else []
    ops += [["order", a, r] for a, r in keys]
    ops += [["slice", a, b, None] for a, b in chain]
    return {"kind": "ops", "db": db, "top_only": top_only, "ops": ops, "index": rng.randint(-n, n - 1)}


GRID_MLLS = [-0.5, 1.0, 2.5]          # few values: ties between the children of one grid search are common


def gen_grid_db(rng, thorough):
    """grid searches with children (ties and NULLs in max_log_likelihood, a grid search without children, one whose
    children all have a NULL likelihood, a nested grid search, a parent that is not a grid search), plus unrelated
    fits; inserted in an order unrelated to the ids"""
    db = gen_db(rng, thorough, want_children=False)
    while len(db) < 6:
        db = gen_db(rng, thorough, want_children=False)
    dom = dom_of(db)
    n = len(db)
    grids = sorted(rng.sample(range(n), rng.randint(1, min(3, n // 2))))
    plain_parent = rng.choice([i for i in range(n) if i not in grids]) if rng.random() < 0.2 else None
    all_null = rng.choice(grids) if rng.random() < 0.25 else None
    for i, f in enumerate(db):
        f["parent"] = None
        f["is_grid_search"] = i in grids or (rng.random() < 0.05)
        r = rng.random()
        f["mll"] = None if r < 0.1 else rng.choice(GRID_MLLS) if r < 0.8 else rng.choice(MLLS)
    for i, f in enumerate(db):
        if i in grids:
            if rng.random() < 0.25:
                lower = [g for g in grids if g < i]
                if lower:
                    f["parent"] = db[rng.choice(lower)]["id"]        # a nested grid search
            continue
        if i == plain_parent:
            continue
        r = rng.random()
        if r < 0.8:
            g = rng.choice(grids)
            f["parent"] = db[g]["id"]
            if g == all_null:
                f["mll"] = None
        elif r < 0.8 and plain_parent is not None:
            f["parent"] = db[plain_parent]["id"]
    rng.shuffle(db)
    _DOMS[id(db)] = dom
    return db


def gen_gops(rng, db, make_pred):
    """query / order_by / slice / grid_searches / children / best_fits.  A slice is only taken when the id is among
    the order keys (positions determined); shadowed path segments are not generated here"""
    n = len(db)

    def a_pred():
        for _ in range(20):
            p = rng.choice(BROAD) if rng.random() < 0.65 else make_pred(1)
            if not has_shadow(p) and not ill_formed(p):
                return p
        return rng.choice(BROAD)
    ops, keys = [], []

    def order(attr=None):
        attr = attr or rng.choice(ORDER_ATTRS + ["id"])
        ops.append(["order", attr, rng.random() < 0.4])
        keys.append(attr)

    def slice_():
        if "id" not in keys:
            order("id")
        start, stop = gen_slice(rng, n, 0.3)
        ops.append(["slice", start, stop, rng.choice([1, 2, -1]) if rng.random() < 0.1 else None])
    if rng.random() < 0.4:
        ops.append(["query", a_pred()])
    if rng.random() < 0.15:
        order()
    if rng.random() < 0.08:
        slice_()
    if rng.random() < 0.04:
        ops.append([rng.choice(["children", "best"])])          # not a GridSearchAggregator yet: AttributeError
    ops.append(["grid"])
    keys[:] = ["id"]
    for _ in range(rng.choice([0, 1, 1, 2, 2, 3, 4])):
        if ops[-1][0] == "best" and rng.random() < 0.6:
            break                      # composing a BestFitQuery raises (known finding): keep most best_fits() last
        r = rng.random()
        if r < 0.22:
            ops.append(["query", a_pred()])
        elif r < 0.55:
            ops.append(["children"])
            keys[:] = ["parent_id"]
        elif r < 0.75:
            ops.append(["best"])
            keys[:] = ["parent_id"]
        elif r < 0.87:
            order()
        elif r < 0.96:
            slice_()
        else:
            ops.append(["grid"])
            keys[:] = ["id"]
    if rng.random() < 0.4 and "id" not in keys:
        order("id")
    return ops


def gen_ops(rng, db, pred, make_pred):
    """query / order_by / slice in any order.  The order is made total (order_by id) before the first slice
    and before the end, so that list positions are determined."""
    n = len(db)
    ops = []
    if rng.random() < 0.8:
        ops.append(["query", pred])
    for a in rng.sample(ORDER_ATTRS, rng.randint(0, 2)):
        ops.append(["order", a, rng.random() < 0.4])
    ops.append(["order", "id", rng.random() < 0.3])
    for _ in range(rng.choice([0, 1, 1, 2, 2, 3])):
        r = rng.random()
        if r < 0.55:
            start, stop = gen_slice(rng, n, 0.3)
            step = None
            if rng.random() < 0.2:
                step = rng.choice([1, 2, 2, 3, -1, -1, -2])
            ops.append(["slice", start, stop, step])
        elif r < 0.78:
            ops.append(["order", rng.choice(ORDER_ATTRS + ["id"]), rng.random() < 0.5])
        else:
            ops.append(["query", make_pred()])
    return ops


def gen_cases(ctx):
    rng = ctx.rng
    thorough = ctx.tier == "thorough"
    n_db = 300 if thorough else 60
    per_db = 16 if thorough else 10
    cases = []
    for d in range(n_db):
        for_order = rng.random() < 0.5
        db = gen_db(rng, thorough, for_order=for_order)

        def make_pred(maxdepth=None):
            pool = make_pool(rng, db, 4 if thorough and rng.random() < 0.3 else 3)
            style = "tame" if rng.random() < 0.5 else "free"
            depth = rng.choice([0, 1, 1, 2, 2, 2, 3, 3, 3, 4, 4] + ([5] if thorough else []))
            if maxdepth is not None:
                depth = min(depth, maxdepth)
            pred = gen_pred(rng, db, depth, pool, style) if depth == 0 else \
                [rng.choice(["and", "or"]), gen_pred(rng, db, depth - 1, pool, style), gen_pred(rng, db, depth - 1, pool, style)] \
                if rng.random() < 0.8 else gen_pred(rng, db, depth, pool, style)
            if rng.random() < 0.2:
                pred = gen_algebraic(rng, db, pool)
            if rng.random() < 0.02:
                # an ill-formed comparison: the code must reject it
                path, _ = rng.choice(pool)
                pred = ["and", pred, ["cmp", list(path), rng.choice(SYMS[1:]), rng.choice([{"none": 1}, {"t": "A"}])]]
            return pred

        for j in range(per_db):
            pred = make_pred()
            if for_order and j % 2 == 0:
                if rng.random() < 0.45:
                    # a broad selection, so that ordering and slicing have something to work on
                    pred = rng.choice(BROAD)
                n = len(db)
                if j % 4 == 0:
                    keys = [[a, rng.random() < 0.4] for a in rng.sample(ORDER_ATTRS, rng.randint(0, 2))]
                    keys.append(["id", rng.random() < 0.3])
                    slices = [gen_slice(rng, n) for _ in range(rng.choice([0, 1, 1, 1, 2]))]
                    cases.append({"kind": "order", "db": db, "pred": pred, "top_only": rng.random() < 0.5,
                                  "keys": keys, "slices": slices, "index": rng.randint(-n, n - 1)})
                else:
                    cases.append({"kind": "ops", "db": db, "top_only": rng.random() < 0.5,
                                  "ops": gen_ops(rng, db, pred, lambda: make_pred(2) if rng.random() < 0.5 else rng.choice(BROAD)),
                                  "index": rng.randint(-n, n - 1)})
            else:
                cases.append({"kind": "query", "db": db, "pred": pred, "top_only": rng.random() < 0.5,
                              "chain": pred[0] == "and" and rng.random() < 0.4})
        if len(db) >= 4:
            for _ in range(2 if d % 2 == 0 else 1):
                cases.append(gen_chain_case(rng, db))
        # negation chains BY CONSTRUCTION (every database, own random stream): every kind of atom -- path comparison, fit
        # attribute, info condition, == None -- under two and three negations and under a negated junction that holds a
        # negated atom (De Morgan re-negates the children: `~` must be its own inverse for every query class)
        nrng = random.Random(ctx.seed * 7919 + d)
        npool = make_pool(nrng, db, 3)
        atoms = [lambda: gen_info(nrng, db), lambda: gen_cmp(nrng, npool, dom_of(db)), lambda: gen_attr(nrng, db),
                 lambda: gen_info(nrng, db), lambda: gen_none_cmp(nrng, npool)]
        a = atoms[d % len(atoms)]()
        b = atoms[(d // len(atoms) + 1) % len(atoms)]()
        shapes = [["not", ["not", a]], ["not", ["and", ["not", a], b]], ["not", ["or", ["not", a], b]],
                  ["not", ["not", ["not", a]]], ["and", ["not", ["not", a]], b], ["not", ["and", b, ["not", ["not", a]]]]]
        npred = shapes[(d // 2) % len(shapes)]
        ctx.hist("negation_chain", "%s:%s" % (a[0], ["nn", "n(n&)", "n(n|)", "nnn", "nn&", "n(&nn)"][(d // 2) % len(shapes)]))
        cases.append({"kind": "query", "db": db, "pred": npred, "top_only": nrng.random() < 0.5, "chain": False})
        if d % (3 if thorough else 2) == 0:
            gdb = gen_grid_db(rng, thorough)
            gpool = lambda: make_pool(rng, gdb, 3)

            def make_gpred(maxdepth=2):
                return gen_pred(rng, gdb, rng.randint(0, maxdepth), gpool(), "tame")
            for _ in range(5):
                cases.append({"kind": "grid", "db": gdb, "top_only": rng.random() < 0.5,
                              "ops": gen_gops(rng, gdb, make_gpred), "index": rng.randint(-len(gdb), len(gdb) - 1)})
    return cases


def case_preds(c):
    if c["kind"] in ("ops", "grid"):
        return [o[1] for o in c["ops"] if o[0] == "query"]
    return [c["pred"]]


# ---------------------------------------------------------------------------
# Coq printers
# ---------------------------------------------------------------------------

def numbers_of_obj(o, acc):
    if "v" in o:
        acc.append(o["v"])
    for _, c in o.get("kids", []):
        numbers_of_obj(c, acc)


def numbers_of_pred(p, acc):
    t = p[0]
    if t == "cmp" and "n" in p[3]:
        acc.append(p[3]["n"])
    elif t == "ne" and "n" in p[2]:
        acc.append(p[2]["n"])
    elif t == "attr_eqn":
        acc.append(p[2])
    elif t in ("and", "or"):
        numbers_of_pred(p[1], acc)
        numbers_of_pred(p[2], acc)
    elif t == "not":
        numbers_of_pred(p[1], acc)


def make_rank(c):
    """Order-isomorphic abstraction of the numbers of a case: value -> its rank among the distinct values
    (exact comparison through Fraction, so 0.1, 1e-07, 10**20, True, 1 and 1.0 are all handled exactly)."""
    acc = []
    for f in c["db"]:
        numbers_of_obj(f["inst"], acc)
        if f["mll"] is not None:
            acc.append(f["mll"])
    for p in case_preds(c):
        numbers_of_pred(p, acc)
    vals = sorted(set(Fraction(x) for x in acc))
    index = {v: i for i, v in enumerate(vals)}
    return lambda x: index[Fraction(x)]


def c_obj(o, rk):
    if "v" in o:
        return "(OVal %s)" % cZ(rk(o["v"]))
    if "s" in o:
        return "(OStr %s)" % cstr(o["s"])
    if "none" in o:
        return "ONone"
    return "(OInst %s %s)" % (cstr(class_path(o["cls"])), clist([cpair(cstr(n), c_obj(c, rk)) for n, c in o["kids"]]))


def c_fit(f, rk):
    strs = clist([cpair(cstr(a), copt(fit_attr(f, a), cstr)) for a in ("name", "unique_tag", "path_prefix", "parent_id", "id")])
    nums = clist([cpair(cstr("max_log_likelihood"), cZ(rk(f["mll"])))] if f["mll"] is not None else [])     # NULL = no entry
    bools = clist([cpair(cstr(a), cbool(f[a])) for a in ("is_complete", "is_grid_search") if f[a] is not None])
    info = clist([cpair(cstr(k), cstr(v)) for k, v in f["info"].items()])
    return "(mkFit %s %s %s %s %s %s %s)" % (cstr(f["id"]), c_obj(f["inst"], rk), strs, nums, bools, info, copt(f["parent"], cstr))


def c_const(c, rk):
    if "n" in c:
        return "(KNum %s)" % cZ(rk(c["n"]))
    if "s" in c:
        return "(KStr %s)" % cstr(c["s"])
    if "none" in c:
        return "KNone"
    return "(KType %s)" % cstr(class_path(c["t"]))


def c_pred(p, rk):
    t = p[0]
    if t == "cmp":
        return "(PCmp %s %s %s)" % (clist([cstr(n) for n in p[1]]), CMP_COQ[p[2]], c_const(p[3], rk))
    if t == "ne":
        return "(PNot (PCmp %s CEq %s))" % (clist([cstr(n) for n in p[1]]), c_const(p[2], rk))
    if t == "attr_eq":
        return "(PAttr (AEqS %s %s))" % (cstr(p[1]), copt(p[2], cstr))
    if t == "attr_eqn":
        return "(PAttr (AEqN %s %s))" % (cstr(p[1]), cZ(rk(p[2])))
    if t == "attr_eqb":
        return "(PAttr (AEqB %s %s))" % (cstr(p[1]), cbool(p[2]))
    if t == "attr_contains":
        return "(PAttr (AContains %s %s))" % (cstr(p[1]), cstr(p[2]))
    if t == "attr_in":
        return "(PAttr (AIn %s %s))" % (cstr(p[1]), cstr(p[2]))
    if t == "attr_bool":
        return "(PAttr (ABool %s))" % cstr(p[1])
    if t == "info":
        return "(PInfo %s %s)" % (cstr(p[1]), cstr(p[2]))
    if t == "and":
        return "(PAnd %s %s)" % (c_pred(p[1], rk), c_pred(p[2], rk))
    if t == "or":
        return "(POr %s %s)" % (c_pred(p[1], rk), c_pred(p[2], rk))
    if t == "not":
        return "(PNot %s)" % c_pred(p[1], rk)
    raise ValueError(t)


def c_okey(attr):
    if attr == "id":
        return "OIdKey"
    if attr == "max_log_likelihood":
        return "(ONumKey %s)" % cstr(attr)
    if attr in ("is_complete", "is_grid_search"):
        return "(OBoolKey %s)" % cstr(attr)
    return "(OStrKey %s)" % cstr(attr)


def c_key(k):
    attr, rev = k
    return cpair(c_okey(attr), cbool(rev))


def c_gop(o, rk):
    if o[0] == "query":
        return "(GQuery %s)" % c_pred(o[1], rk)
    if o[0] == "order":
        return "(GOrder %s %s)" % (c_okey(o[1]), cbool(o[2]))
    if o[0] == "slice":
        return "(GSlice %s %s %s)" % (copt(o[1], cZ), copt(o[2], cZ), copt(o[3], cZ))
    return {"grid": "GGrid", "children": "GChildren", "best": "GBestFits"}[o[0]]


def c_op(o, rk):
    if o[0] == "query":
        return "(OQuery %s)" % c_pred(o[1], rk)
    if o[0] == "order":
        return "(OOrder %s %s)" % (c_okey(o[1]), cbool(o[2]))
    return "(OSlice %s %s %s)" % (copt(o[1], cZ), copt(o[2], cZ), copt(o[3], cZ))


def has_shadow(p):
    t = p[0]
    if t == "cmp" or t == "ne":
        return any(n in ("name", "condition", "query", "tables", "fit_query", "tables_string", "other_condition") for n in p[1][1:])
    if t in ("and", "or"):
        return has_shadow(p[1]) or has_shadow(p[2])
    if t == "not":
        return has_shadow(p[1])
    return False


def c_outcome(c, r):
    """(exception class, stage) -> the model's error token; anything unexpected never matches (EFuel)."""
    if "exc" in r:
        if any(has_shadow(p) for p in case_preds(c)):
            return "(RExc EShadow)"        # whatever the non-query object made of the predicate raised
        tok = {("AssertionError", "construct"): "EAssertion", ("TypeError", "construct"): "ETypeError",
               ("OperationalError", "execute"): "ESql", ("AttributeError", "grid"): "EAttr"}.get((r["exc"], r.get("stage")), "EFuel")
        return "(RExc %s)" % tok
    return "(RIds %s)" % clist([cstr(i) for i in r["ids"]])


def coq_case(c, r):
    rk = make_rank(c)
    db = clist([c_fit(f, rk) for f in c["db"]])
    if c["kind"] == "query":
        return "CQuery %s %s %s %s" % (db, c_pred(c["pred"], rk), cbool(c["top_only"]), c_outcome(c, r))
    if c["kind"] == "order":
        return "COrder %s %s %s %s %s %s" % (
            db, c_pred(c["pred"], rk), cbool(c["top_only"]), clist([c_key(k) for k in c["keys"]]),
            clist([cpair(copt(a, cZ), copt(b, cZ)) for a, b in c["slices"]]), c_outcome(c, r))
    idx = "None"
    if "index_id" in r:
        idx = "(Some %s)" % cpair(cZ(c["index"]), cstr(r["index_id"]))
    if c["kind"] == "grid":
        return "CGrid %s %s %s %s %s %s" % (db, cbool(c["top_only"]), clist([c_gop(o, rk) for o in c["ops"]]),
                                            c_outcome(c, r), cZ(r.get("len", 0)), idx)
    return "COps %s %s %s %s %s %s" % (db, cbool(c["top_only"]), clist([c_op(o, rk) for o in c["ops"]]),
                                       c_outcome(c, r), cZ(r.get("len", 0)), idx)


def coq_map_cases(prop, header, fn, cases, rundir, tag="labels", shard=40, timeout=600):
    """Evaluate `map fn cases : list N` inside Coq; returns (list of ints, "") or (None, log).
    Every shard is always reaped; a failed / timed-out shard is retried once alone with a longer timeout."""
    os.makedirs(rundir, exist_ok=True)
    shards = [cases[i:i + shard] for i in range(0, len(cases), shard)] or [[]]
    files = []
    for si, sc in enumerate(shards):
        vf = os.path.join(rundir, "%s_%s_%d.v" % (tag, prop, si))
        with open(vf, "w") as f:
            f.write(header + "\n")
            f.write("Definition the_cases : list case :=\n [\n  " + ";\n  ".join(sc) + "\n ].\n")
            f.write('Redirect "%s/%s_%s_%d" Eval vm_compute in (map %s the_cases).\n' % (rundir, tag, prop, si, fn))
        files.append(vf)

    def launch(vf, tmo):
        return subprocess.Popen(["bash", "-c", "exec timeout %d coqc %s %s" % (tmo, " ".join(common.coq_flags(prop)), vf)],
                                stdout=subprocess.PIPE, stderr=subprocess.STDOUT, text=True)

    def read(si):
        path = os.path.join(rundir, "%s_%s_%d.out" % (tag, prop, si))
        if not os.path.exists(path):
            return None
        m = re.search(r"=\s*(.*?)\s*:\s*list N", open(path).read(), re.S)
        if not m:
            return None
        vals = [int(x) for x in re.findall(r"(\d+)%N", m.group(1))]
        return vals if len(vals) == len(shards[si]) else None

    results, logs, failed = {}, {}, []
    pending = list(enumerate(files))
    running = []
    while pending or running:
        while pending and len(running) < common.NCPU:
            si, vf = pending.pop(0)
            running.append((si, launch(vf, timeout)))
        si, p = running.pop(0)
        log, _ = p.communicate()
        vals = read(si) if p.returncode == 0 else None
        if vals is None:
            failed.append(si)
            logs[si] = "shard %d rc=%s %s" % (si, p.returncode, (log or "")[-800:])
        else:
            results[si] = vals
    for si in failed:                      # one retry, alone, with a longer timeout (busy machine)
        p = launch(files[si], timeout * 2)
        log, _ = p.communicate()
        vals = read(si) if p.returncode == 0 else None
        if vals is None:
            return None, logs[si] + "\nretry rc=%s %s" % (p.returncode, (log or "")[-800:])
        results[si] = vals
    out = []
    for si in range(len(shards)):
        out += results[si]
    return out, ""


# ---------------------------------------------------------------------------
# oracle: the property stated directly on the implementation's outputs
# ---------------------------------------------------------------------------

def abstract_of_dump(t):
    if "row" not in t:
        if "v" in t:
            return {"v": t["v"]}
        return t
    return {"class_path": t["class_path"], "kids": [[n, abstract_of_dump(c)] for n, c in t["kids"]]}


def expected_dump(o):
    if "v" in o:
        return {"v": float(o["v"])}          # ints and bools are stored in the Float column of `value`
    if "cls" not in o:
        return o
    return {"class_path": class_path(o["cls"]), "kids": sorted([[n, expected_dump(c)] for n, c in o["kids"]], key=lambda kv: kv[0])}


def check_dump(c, dump):
    """two-sided abstraction: the rows the real code stored must be the tree the generator meant."""
    if len(dump) != len(c["db"]):
        return "database holds %d fits, %d were added" % (len(dump), len(c["db"]))
    by_id = {d["id"]: d for d in dump}
    for f in c["db"]:
        d = by_id.get(f["id"])
        if d is None:
            return "fit %s missing from the database" % f["id"]
        if abstract_of_dump(d["tree"]) != expected_dump(f["inst"]):
            return "stored object rows of %s differ from the instance: %r vs %r" % (f["id"], abstract_of_dump(d["tree"]), expected_dump(f["inst"]))
        for a in ("name", "unique_tag", "path_prefix", "is_complete", "is_grid_search", "parent", "info"):
            if d[a] != f[a]:
                return "stored %s of %s is %r, expected %r" % (a, f["id"], d[a], f[a])
        if d["mll"] != (None if f["mll"] is None else float(f["mll"])):
            return "stored max_log_likelihood differs"
    return None


def sort_key_fn(c):
    by_id = {f["id"]: f for f in c["db"]}

    def keyval(fid, attr):
        return fit_attr(by_id[fid], attr)

    return keyval


def is_sorted(c, ids, keys=None):
    """adjacent fits are in key order, first key first; a NULL key is smaller than every value (SQLite): NULLs come
    first under an ascending key and last under a reversed one"""
    keyval = sort_key_fn(c)
    for a, b in zip(ids, ids[1:]):
        for attr, rev in (c["keys"] if keys is None else keys):
            x, y = null_key(keyval(a, attr)), null_key(keyval(b, attr))
            if x == y:
                continue
            if (x < y) != (not rev):
                return "fits %s, %s are out of order on %s%s" % (a, b, attr, " (reversed)" if rev else "")
            break
    return None


def oracle(c, r):
    """Returns None or (message, slice_related)."""
    top = {f["id"] for f in c["db"] if f["parent"] is None}
    want = [i for i in r["direct"] if (not c["top_only"]) or i in top]
    if "exc" in r:
        if ill_formed(c["pred"]) and r["exc"] == "AssertionError":
            return None
        return ("query raised %s (%s) at %s; the predicate selects %s" % (r["exc"], r.get("msg", "")[:80], r.get("stage"), want), False)
    if ill_formed(c["pred"]):
        return ("an inequality against None / a type was accepted", False)
    if c["kind"] == "query":
        ids = r["ids"]
        if len(set(ids)) != len(ids):
            return ("a fit is returned more than once: %s" % ids, False)
        if sorted(ids) != sorted(want):
            return ("query returns %s, the predicate evaluated on the stored objects selects %s" % (sorted(ids), sorted(want)), False)
        if sorted(r["ids_call"]) != sorted(ids):
            return ("aggregator(predicate) and aggregator.query(predicate) differ", False)
        return None
    base = r["base"]
    if len(set(base)) != len(base):
        return ("a fit is returned more than once: %s" % base, False)
    if sorted(base) != sorted(want):
        return ("ordered query returns %s, the predicate evaluated on the stored objects selects %s" % (sorted(base), sorted(want)), False)
    msg = is_sorted(c, base)
    if msg:
        return (msg, False)
    exp = list(base)
    for a, b in c["slices"]:
        exp = exp[slice(a, b)]
    if r["ids"] != exp:
        return ("slices %s of %s give %s, expected %s" % (c["slices"], base, r["ids"], exp), True)
    if r.get("len") != len(r["ids"]):
        return ("len() differs from the number of fits", True)
    if "index_id" in r and r["index_id"] is not None and r["index_id"] != r["ids"][c["index"]]:
        return ("integer index returns another fit", True)
    return None


def slice_classes(c):
    """classes of the repaired slicing defects (kept: a regression of 127fbf4 would be matched by nothing, since
    those findings are `fixed`) and of the live ones of op sequences; computed from the case only."""
    out = []
    if c["kind"] == "ops":
        seen_slice = False
        for o in c["ops"]:
            if o[0] == "slice":
                seen_slice = True
                if o[3] not in (None, 1):
                    out.append("slice-step-ignored")
            elif seen_slice:
                out.append("slice-lost-by-later-operation")
        return sorted(set(out))
    if c["kind"] != "order" or not c["slices"]:
        return out
    if any(b is not None for a, b in c["slices"]):
        out.append("slice-stop")
    if any(a is not None and a < 0 for a, b in c["slices"][1:]):
        out.append("slice-chained-negative-start")
    if c["top_only"] and any(f["parent"] is not None for f in c["db"]):
        out.append("slice-with-child-fits")
    return out


def ops_oracle(c, r):
    """An aggregator is used like a list: query = filter, order_by = sort by all keys so far (first key first),
    slice = list slicing including the step.  Returns None or (message, slice_related)."""
    preds = case_preds(c)
    top = [f["id"] for f in c["db"] if f["parent"] is None or not c["top_only"]]
    if "exc" in r:
        if any(ill_formed(p) for p in preds) and r["exc"] == "AssertionError":
            return None
        return ("operation sequence raised %s (%s) at %s" % (r["exc"], r.get("msg", "")[:80], r.get("stage")), False)
    if any(ill_formed(p) for p in preds):
        return ("an inequality against None / a type was accepted", False)
    by_id = {f["id"]: f for f in c["db"]}

    def keyval(fid, attr):
        return null_key(fit_attr(by_id[fid], attr))
    cur, keys, k = list(top), [], 0
    sel_only = list(top)                    # the selection alone, for classifying a failure
    for o in c["ops"]:
        if o[0] == "query":
            ok = set(r["direct_ops"][k])
            k += 1
            cur = [i for i in cur if i in ok]
            sel_only = [i for i in sel_only if i in ok]
        elif o[0] == "order":
            keys.append((o[1], o[2]))
            for attr, rev in reversed(keys):
                cur.sort(key=lambda i: keyval(i, attr), reverse=rev)
                if rev:        # Python's reverse sort keeps the original order of equal keys; ORDER BY ... DESC too
                    pass
        else:
            cur = cur[slice(o[1], o[2], o[3])]
    ids = r["ids"]
    if len(set(ids)) != len(ids):
        return ("a fit is returned more than once: %s" % ids, False)
    sliced = any(o[0] == "slice" for o in c["ops"])
    if not sliced and sorted(ids) != sorted(cur):
        return ("operations %s return %s, expected %s" % (c["ops"], sorted(ids), sorted(cur)), False)
    if ids != cur:
        return ("operations %s return %s, expected %s" % ([o if o[0] != "query" else "query" for o in c["ops"]], ids, cur),
                set(ids) <= set(sel_only) or not sliced)
    if r.get("len") != len(ids) or r.get("iter_ids") != ids:
        return ("len() / iteration differ from .fits", True)
    if "index_id" in r and r["index_id"] != ids[c["index"]]:
        return ("integer index returns another fit", True)
    return None


def order_keys_null(c, r):
    """for a case with order keys: does a returned fit have a NULL in one of them?"""
    if c["kind"] == "order":
        keys = [k[0] for k in c["keys"]]
    elif c["kind"] in ("ops", "grid"):
        keys = [o[1] for o in c["ops"] if o[0] == "order"]
        if c["kind"] == "grid":
            keys += ["parent_id"] if any(o[0] in ("children", "best") for o in c["ops"]) else []
    else:
        return None
    keys = [k for k in keys if k != "id"]
    if not keys or "ids" not in r:
        return None
    by_id = {f["id"]: f for f in c["db"]}
    got = r.get("base", r["ids"])
    n = sum(1 for i in got for k in keys if fit_attr(by_id[i], k) is None)
    return "no-null" if n == 0 else "null-key" if len(got) > 1 else "null-key-single-fit"


def chain_shape(c):
    """shape of the slices of a case: per slice o = open-ended start>=1, n = negative bound, b = bounded, - = [:] / [0:]"""
    if c["kind"] == "order":
        sl = c["slices"]
    elif c["kind"] == "ops":
        sl = [[o[1], o[2]] for o in c["ops"] if o[0] == "slice"]
    else:
        return None
    if len(sl) < 2:
        return None
    def sh(a, b):
        if (a is not None and a < 0) or (b is not None and b < 0):
            return "n"
        if b is None:
            return "o" if a else "-"
        return "b"
    return "".join(sh(a, b) for a, b in sl)


def grid_classes(c):
    """defect classes of a grid-search operation sequence, computed from the operations only"""
    out = []
    seen_slice = seen_best = False
    for o in c["ops"]:
        if o[0] == "slice":
            seen_slice = True
            if o[3] not in (None, 1):
                out.append("slice-step-ignored")
            if seen_best == "composed":
                out.append("best-fit-query-not-composable")
            continue
        if seen_slice:
            out.append("slice-lost-by-later-operation")
        if o[0] in ("query", "children", "best", "grid") and seen_best:
            out.append("best-fit-query-not-composable")
            seen_best = "composed"
        if o[0] == "best":
            seen_best = seen_best or True
    return sorted(set(out))


def gops_oracle(c, r):
    """An aggregator is used like a list of fits.  query = filter; order_by = sort by all keys so far (NULL smallest);
    slice = list slicing; grid_searches = the grid searches among the selected fits, child fits included, ordered by
    id; children = every fit whose parent is in the list, ordered by parent_id; best_fits = for every fit of the list
    its children of maximal max_log_likelihood (none when no child has a likelihood), ordered by parent_id.
    Positions are compared when the id is among the keys; otherwise the set and the sortedness by the keys.
    Returns None or (message, slice_related)."""
    by_id = {f["id"]: f for f in c["db"]}
    everything = [f["id"] for f in c["db"]]
    first_grid = next((i for i, o in enumerate(c["ops"]) if o[0] == "grid"), len(c["ops"]))
    early = any(o[0] in ("children", "best") for o in c["ops"][:first_grid])
    if "exc" in r:
        if early and r["exc"] == "AttributeError":
            return None             # a plain Aggregator has no children() / best_fits()
        return ("operation sequence raised %s (%s) at %s" % (r["exc"], r.get("msg", "")[:80], r.get("stage")), False)
    if early:
        return ("children() / best_fits() accepted on a plain Aggregator", False)

    def keyval(fid, attr):
        return null_key(fit_attr(by_id[fid], attr))

    def resort():
        for attr, rev in reversed(keys):
            cur.sort(key=lambda i: keyval(i, attr), reverse=rev)
    cur = [i for i in everything if by_id[i]["parent"] is None or not c["top_only"]]
    allsel = list(everything)            # the selection before the top-level filter (grid_searches lifts it)
    keys, k, sliced = [], 0, False
    for o in c["ops"]:
        if o[0] == "query":
            ok = set(r["direct_ops"][k])
            k += 1
            cur = [i for i in cur if i in ok]
            allsel = [i for i in allsel if i in ok]
        elif o[0] == "order":
            keys.append((o[1], o[2]))
            resort()
        elif o[0] == "slice":
            cur = cur[slice(o[1], o[2], o[3])]
            sliced = True
        elif o[0] == "grid":
            src = cur if sliced else allsel
            cur = [i for i in src if by_id[i]["is_grid_search"]]
            allsel = list(cur)
            keys = [("id", False)]
            resort()
        else:
            parents = set(cur)
            kids = [i for i in everything if by_id[i]["parent"] in parents]
            if o[0] == "best":
                best = []
                for i in kids:
                    m = by_id[i]["mll"]
                    sib = [by_id[j]["mll"] for j in kids if by_id[j]["parent"] == by_id[i]["parent"] and by_id[j]["mll"] is not None]
                    if m is not None and all(Fraction(x) <= Fraction(m) for x in sib):
                        best.append(i)
                kids = best
            cur = kids
            allsel = list(cur)
            keys = [("parent_id", False)]
            resort()
    ids = r["ids"]
    if len(set(ids)) != len(ids):
        return ("a fit is returned more than once: %s" % ids, False)
    shown = [o if o[0] != "query" else "query" for o in c["ops"]]
    if sorted(ids) != sorted(cur):
        return ("operations %s return %s, expected %s" % (shown, sorted(ids), sorted(cur)), sliced)
    msg = is_sorted(c, ids, keys)
    if msg:
        return (msg, sliced)
    if any(a == "id" for a, _ in keys) and ids != cur:
        return ("operations %s return %s, expected %s" % (shown, ids, cur), sliced)
    if r.get("len") != len(ids) or r.get("iter_ids") != ids:
        return ("len() / iteration differ from .fits", True)
    if "index_id" in r and r["index_id"] != ids[c["index"]]:
        return ("integer index returns another fit", True)
    return None


def nontrivial(c, r):
    if c["kind"] == "grid":
        return len(c["ops"]) >= 2 and len(r.get("ids", [])) > 0
    if c["kind"] == "ops":
        return len(c["ops"]) >= 3 and len(r.get("ids", [])) > 0
    n_direct = len(r.get("direct", []))
    return has_connective(c["pred"]) and 0 < n_direct < len(c["db"])


def regenerate(repo=None):
    return {}


def run(ctx):
    import time
    ctx.rule = ("a case is (database of 1-12 fits with nested instances, NULL columns, parent links, then either one predicate tree "
                "over path comparisons / type tests / fit attributes (incl. parent_id, id) / info with and, or, not [+ ordering keys "
                "and [a:b] slices, incl. chains of 2-3 slices], or an arbitrary sequence of query / order_by / slice-with-step "
                "operations, or (grid-search databases: grid searches with children, ties and NULL likelihoods, nested grid "
                "searches) an arbitrary sequence of query / order_by / slice / grid_searches / children / best_fits); a query / "
                "order case is non-trivial when the predicate has a junction or negation and, evaluated directly on the stored "
                "objects, selects some but not all fits; an operation sequence when it has >= 3 (grid: >= 2) operations and a "
                "non-empty result; distinct = distinct abstract input")
    ctx.trusted = [
        "Coq 8.16.1 kernel incl. vm_compute",
        "SQLite's evaluation of the emitted SQL and SQLAlchemy's persistence of Fit/Object rows: covered by correspondence only",
        "the model reads the emitted SQL on the instance tree (object row = tree node, parent_id = tree edge, JOIN = kind of the "
        "node); the flattening Object.from_object is compared row-by-row with the generated tree on every database",
        "numbers enter the model as their rank among the distinct numbers of the case (order-isomorphic; computed exactly with "
        "fractions.Fraction), so only =, <, <= of binary64 / int / bool values are modelled, not their SQL spelling",
        "harness c10.py / impl/c10_impl.py (abstract case -> real API calls; direct evaluation on fit.instance / fit.info / columns)",
    ]
    ctx.assumptions = [
        "child names are unique below every stored object (attributes, list indices, string dict keys); info keys unique per fit",
        "within one database every numeric value has one Python spelling (1 / 1.0 / True are not mixed as constants)",
        "type tests mean class_path equality (a subclass instance does not satisfy a test for its base class)",
        "list positions are compared only when the id is among the order keys (ORDER BY leaves ties unspecified); otherwise the "
        "returned list must be the right set and sorted by the keys; NULL keys sort as the smallest value (SQLite; other "
        "engines, e.g. PostgreSQL, put NULLs last under ASC: outside the claim)",
        "max_log_likelihood is never NaN; GridSearchAggregator.cell_number (order by fit.model.order_no) is not exercised",
    ]
    t0 = time.time()
    timing = ctx.notes.setdefault('timing_s', {})
    built = ctx.build()
    timing['build'] = round(time.time() - t0, 1)
    cases = gen_cases(ctx)
    corpus_dir = os.path.join(common.VERIF, "corpus", "C10")
    corpus, regression = [], {}
    if os.path.isdir(corpus_dir):
        for fn in sorted(os.listdir(corpus_dir)):
            if fn.endswith(".json"):
                entry = json.load(open(os.path.join(corpus_dir, fn)))
                if entry.get("regression"):      # pinned case of a repaired finding: must pass from now on
                    regression[len(corpus)] = (entry["regression"], fn)
                corpus.append(entry["case"])
    cases = corpus + cases
    reg_state = {}
    if ctx.replay:
        rp = json.load(open(ctx.replay))
        if rp.get("case"):
            cases = [rp["case"]]
            regression = {}
    # implementation, in parallel chunks (cases of one database stay together)
    chunks, cur = [], []
    for c in cases:
        if cur and (len(cur) >= 36 and c["db"] is not cur[-1]["db"]):
            chunks.append(cur)
            cur = []
        cur.append(c)
    if cur:
        chunks.append(cur)
    t1 = time.time()
    outs = common.run_impl_parallel("c10_impl", [{"cases": ch} for ch in chunks], timeout=900)
    timing['impl'] = round(time.time() - t1, 1)
    results = []
    for ch, o in zip(chunks, outs):
        if "__error__" in o:
            ctx.obligation("impl-driver", "harness", False, o["__error__"][-800:])
            return
        results += o["results"]
    # model side: correspondence + labels computed from the abstract case
    terms, idx = [], []
    for i, (c, r) in enumerate(zip(cases, results)):
        if "driver_exc" in r:
            ctx.oracle["failures"] += 1
            ctx.failure("oracle", "the database could not be built / driven: %s %s" % (r["driver_exc"], r.get("msg")), c, impl=r)
            continue
        terms.append(coq_case(c, r))
        idx.append(i)
    labels = None
    have_model = os.path.exists(os.path.join(common.COQ, "C10", "Model.vo"))
    variant = os.environ.get("VERIF_C10_VARIANT", DEFAULT_VARIANT)
    ctx.notes["model_variant"] = variant
    if have_model:
        hdr = ctx.header(["Model"])
        t2 = time.time()
        # one vm_compute pass: bit 1 of case_labels is check_case (model = implementation), the other
        # bits are the defect classes of the abstract case
        shard = 40
        lab, log2 = coq_map_cases("C10", hdr, LABEL_FN[variant], terms, ctx.rundir, shard=shard)
        timing['coq'] = round(time.time() - t2, 1)
        ctx.corr["cases"] += len(terms)
        ctx.corr["shards"] += (len(terms) + shard - 1) // shard
        if lab is None:
            ctx.obligation("correspondence:cases", "correspondence", False, "the model could not be evaluated: " + log2[-700:])
        else:
            bad = [j for j, v in enumerate(lab) if not v & 1]
            ctx.corr["disagreements"] += len(bad)
            ctx.obligation("correspondence:cases", "correspondence", not bad,
                           "%d/%d cases disagree" % (len(bad), len(terms)) if bad else "%d cases agree" % len(terms))
            labels = {i: lab[j] for j, i in enumerate(idx)}
    else:
        ctx.obligation("correspondence:cases", "correspondence", False, "Model.vo not built")
    n_guarded = 0
    for i, (c, r) in enumerate(zip(cases, results)):
        if "driver_exc" in r:
            if i in regression:
                reg_state.setdefault(regression[i][0], []).append(regression[i][1] + ": driver failed")
            continue
        preds = case_preds(c)
        ctx.count_case(c, nontrivial(c, r), c["kind"])
        ctx.hist("pred_size", min(sum(pred_size(p) for p in preds), 12))
        ctx.hist("fits", len(c["db"]))
        ctx.hist("outcome", r.get("exc", "ok"))
        if c["kind"] == "ops":
            ctx.hist("ops", " ".join(o[0][0] for o in c["ops"]))
        elif c["kind"] == "grid":
            ctx.hist("grid_ops", " ".join({"grid": "G", "children": "C", "best": "B"}.get(o[0], o[0][0]) for o in c["ops"]))
            ctx.hist("grid_result", "exc" if "exc" in r else "empty" if not r["ids"] else "some")
            if "ids" in r and c["ops"][-1][0] == "best" or (len(c["ops"]) > 1 and c["ops"][-2][0] == "best" and c["ops"][-1][0] == "order"):
                par = [f["parent"] for f in c["db"] if f["id"] in set(r.get("ids", []))]
                ctx.hist("best_fits_shape", "tie" if len(set(par)) < len(par) else "one-per-grid" if par else "none")
        else:
            ctx.hist("selected", "none" if not r["direct"] else "all" if len(r["direct"]) == len(c["db"]) else "some")
        if chain_shape(c):
            ctx.hist("slice_chain", chain_shape(c))
        ctx.oracle["cases"] += 1
        if "dump" in r:
            msg = check_dump(c, r["dump"])
            if msg:
                ctx.oracle["failures"] += 1
                ctx.failure("oracle", msg, c, classes=[], impl=r)
        null_key_seen = order_keys_null(c, r)
        if null_key_seen is not None:
            ctx.hist("order_key_null", null_key_seen)
        res = ops_oracle(c, r) if c["kind"] == "ops" else gops_oracle(c, r) if c["kind"] == "grid" else oracle(c, r)
        small = {k: v for k, v in r.items() if k != "dump"}
        if i in regression:
            sig, fn = regression[i]
            bad_here = reg_state.setdefault(sig, [])
            if res:
                bad_here.append("%s: %s" % (fn, res[0][:160]))
            elif labels is not None and not labels[i] & 1:
                bad_here.append("%s: model and implementation disagree" % fn)
        if labels is None:
            # no labels, no classification: the single failed obligation above is the report
            if res:
                ctx.oracle["failures"] += 1
                ctx.hist("unclassified_oracle_failures", 1)
            continue
        lb = labels[i]
        agree = bool(lb & 1)
        ill = any(ill_formed(p) for p in preds)
        classes = [name for bitv, name in KNOWN_CLASSES.items() if lb & bitv and not (bitv == 32 and ill)]
        ctx.hist("classes", ",".join(classes) or "-")
        if not classes:
            n_guarded += 1
        if res:
            msg, slice_related = res
            ctx.oracle["failures"] += 1
            if c["kind"] == "grid":
                cl = classes + grid_classes(c)
            elif c["kind"] == "ops":
                cl = classes + slice_classes(c)
            else:
                cl = slice_classes(c) if slice_related else classes
            # a known class excuses a deviation only when the faithful model reproduces exactly this outcome
            ctx.failure("oracle", msg, c, classes=cl if agree else [], impl=small)
        if not agree:
            known = res is not None and False
            ctx.failure("correspondence", "model and implementation disagree on a %s case" % c["kind"], c,
                        impl=small, broken={"kind": "correspondence", "name": "C10.check_case"},
                        classes=[], found_input=res is not None)
        if i % 41 == 0:
            ctx.sample({"case": {k: v for k, v in c.items() if k != "db"}, "fits": len(c["db"]),
                        "selected_directly": r.get("direct", r.get("direct_ops")), "returned": r.get("ids", r.get("exc"))}, limit=8)
    for sig in sorted(set(v[0] for v in regression.values())):
        bad_here = reg_state.get(sig, [])
        ctx.obligation("regression:" + sig, "regression", not bad_here,
                       "; ".join(bad_here) if bad_here else "pinned cases of the repaired finding pass")
    ctx.notes["cases_outside_every_known_class"] = n_guarded
    ctx.notes["model"] = ("qobj/compile/mk_junction/holds/run_ops in coq/C10/Model.v; variant `current` = the code as it is "
                          "(all seven repairs applied), `pre4` / `prequote` / `legacy` = repairs reverted (history, regression experiments)")


MANIFEST = {
    "text": "Coq 8.16 model of the aggregator query objects (NamedQuery nesting, junction flattening / de-duplication / merge by name, "
            "negation, JOIN and NULL semantics of the emitted SQL on the flattened instance tree, LIKE, ordering incl. NULL keys "
            "(SQLite: NULL smallest), offset/limit slicing, the parent relation (ChildQuery), best fits (BestFitQuery), the Aggregator / "
            "GridSearchAggregator state machine over query / order_by / slice / grid_searches / children / best_fits) with theorems for all predicate trees and all databases with "
            "unique child names: the compiled query selects exactly the fits on which the predicate is true, and query+order+slices "
            "return the Python slices of the sorted selection (the sorted permutation is unique when the id is a key, NULL keys first under "
            "ASC and last under DESC), children() returns exactly the fits whose parent is selected, best_fits() exactly the children "
            "of maximal likelihood per grid search, and any sequence of these operations returns its list meaning, under an explicit guard that excludes the defect classes of the code "
            "(each refuted by a vm_compute witness and replayed on the real code); vm_compute correspondence with the running code on "
            "generated (database, predicate / operation sequence) cases and a direct oracle evaluating the predicates on the objects "
            "read back from SQLite and folding the operations over a Python list",
    "note": "Trusted: Coq kernel + vm_compute, SQLite/SQLAlchemy (correspondence only), the reading of SQL as tree semantics, the "
            "rank abstraction of numbers, the harness. Outside the claim: NULL ordering of engines other than SQLite, "
            "GridSearchAggregator.cell_number / CellAggregator (needs fit.model.order_no), NaN likelihoods, objects other than plain "
            "instances / lists / tuples / dicts / numbers / strings / None.",
    "technique": "machine-checked proof in Coq (hand-written model) + vm_compute correspondence + direct property oracle",
}
