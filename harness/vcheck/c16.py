"""C16 -- grid searches tile the space (DESIGN.md section 5, C16)."""
import os
from . import common
from . import pyexpr2coq as T

GS = "autofit/non_linear/grid/grid_search/__init__.py"
RES = "autofit/non_linear/grid/grid_search/result.py"
SENS = "autofit/non_linear/grid/sensitivity/__init__.py"
PRIOR = "autofit/mapper/prior/abstract.py"


def _listcomp_in_return(fn, which):
    """make_lists: the comprehension of the final return; `which` = 'elt' | 'range'."""
    import ast
    ret = T.returns(fn)[-1].value
    if not isinstance(ret, ast.ListComp):
        raise T.TranslationError("make_lists no longer returns a list comprehension")
    if which == "range":
        gen = ret.generators[0]
        if T._dotted(gen.iter.func) != "range" or len(gen.iter.args) != 1:
            raise T.TranslationError("first generator is not range(<count>)")
        if T._dotted(ret.generators[1].iter) != "sub_lists" or len(ret.generators) != 2:
            raise T.TranslationError("second generator is not `for sub_list in sub_lists`")
        return gen.iter.args[0]
    elt = ret.elt  # [expr] + sub_list
    if not (isinstance(elt, ast.BinOp) and isinstance(elt.op, ast.Add) and isinstance(elt.left, ast.List)
            and len(elt.left.elts) == 1 and T._dotted(elt.right) == "sub_list"):
        raise T.TranslationError("element is not `[value] + sub_list`")
    return elt.left.elts[0]


def _shape_elem(fn):
    import ast
    ret = T.returns(fn)[-1].value  # self.no_dimensions * (X,)
    if not (isinstance(ret, ast.BinOp) and isinstance(ret.op, ast.Mult) and T._dotted(ret.left) == "self.no_dimensions"
            and isinstance(ret.right, ast.Tuple) and len(ret.right.elts) == 1):
        raise T.TranslationError("shape is not `no_dimensions * (side,)`")
    return ret.right.elts[0]


def _listcomp_elt(fn, depth=2):
    import ast
    node = T.returns(fn)[-1].value
    for _ in range(depth):
        if not isinstance(node, ast.ListComp):
            raise T.TranslationError("expected nested list comprehension")
        node = node.elt
    return node


def _half_step(fn):
    """_perturb_models: half_steps = [<expr> for step_size in step_sizes]"""
    import ast
    node = T.assigns(fn, "half_steps")[0].value
    if not (isinstance(node, ast.ListComp) and len(node.generators) == 1 and T._dotted(node.generators[0].target) == "step_size"
            and T._dotted(node.generators[0].iter) == "step_sizes"):
        raise T.TranslationError("half_steps is not `[... for step_size in step_sizes]`")
    return node.elt


def _unit_limit(fn, which):
    """_perturb_models: limits = [(prior.value_for(<lower>), prior.value_for(<upper>)) for centre, prior, half_step in
    zip(list_, self.perturb_model.priors_ordered_by_id, half_steps)]; the wiring of the zip is pinned here."""
    import ast
    node = T.assigns(fn, "limits")[0].value
    if not (isinstance(node, ast.ListComp) and len(node.generators) == 1 and isinstance(node.elt, ast.Tuple) and len(node.elt.elts) == 2):
        raise T.TranslationError("limits is not a comprehension of pairs")
    gen = node.generators[0]
    tgt = [T._dotted(e) for e in gen.target.elts] if isinstance(gen.target, ast.Tuple) else None
    it = gen.iter
    if tgt != ["centre", "prior", "half_step"] or not (isinstance(it, ast.Call) and T._dotted(it.func) == "zip" and
            [T._dotted(a) for a in it.args] == ["list_", "self.perturb_model.priors_ordered_by_id", "half_steps"]):
        raise T.TranslationError("limits no longer zips (list_, priors_ordered_by_id, half_steps) into (centre, prior, half_step)")
    call = node.elt.elts[which]
    if not (isinstance(call, ast.Call) and T._dotted(call.func) == "prior.value_for" and len(call.args) == 1 and not call.keywords):
        raise T.TranslationError("limit is not prior.value_for(<unit>)")
    return call.args[0]


SPECS = [
    T.Spec("gs_step_size", GS, "GridSearch.step_size", lambda f: T.returns(f)[-1], [("number_of_steps", "int")], "float"),
    T.Spec("ml_count", GS, "make_lists", lambda f: _listcomp_in_return(f, "range"), [("step_size", "float")], "int",
           doc="number of lattice points per dimension"),
    T.Spec("ml_value", GS, "make_lists", lambda f: _listcomp_in_return(f, "elt"),
           [("step_size", "float"), ("value", "int"), ("centre_steps", "bool")], "float"),
    T.Spec("prior_width", PRIOR, "Prior.width", lambda f: T.returns(f)[-1], [("lower_limit", "float"), ("upper_limit", "float")], "float"),
    T.Spec("ma_lower", GS, "GridSearch.make_arguments", lambda f: T.assigns(f, "lower_limit")[0],
           [("grid_prior_lower_limit", "float"), ("grid_prior_width", "float"), ("value", "float")], "float"),
    T.Spec("ma_upper", GS, "GridSearch.make_arguments", lambda f: T.assigns(f, "upper_limit")[0],
           [("grid_prior_lower_limit", "float"), ("grid_prior_width", "float"), ("value", "float"), ("step_size", "float")], "float"),
    T.Spec("gsr_side_length", RES, "GridSearchResult.__init__", lambda f: T.assigns(f, "self.side_length")[0],
           [("no_steps", "int"), ("no_dimensions", "int")], "int"),
    T.Spec("gsr_shape_elem", RES, "GridSearchResult.shape", _shape_elem,
           [("no_steps", "int"), ("no_dimensions", "int")], "int"),
    T.Spec("gsr_step_size", RES, "GridSearchResult.__init__", lambda f: T.assigns(f, "self.step_size")[0],
           [("side_length", "int")], "float"),
    T.Spec("gsr_upper", RES, "GridSearchResult.upper_limits_lists", lambda f: _listcomp_elt(f),
           [("limit", "float"), ("step_size", "float")], "float"),
    T.Spec("gsr_centre", RES, "GridSearchResult.centres_lists", lambda f: _listcomp_elt(f),
           [("upper", "float"), ("lower", "float")], "float"),
    T.Spec("sens_step_size", SENS, "Sensitivity.step_size", lambda f: T.returns(f)[-1], [("number_of_steps", "int")], "float"),
    T.Spec("sens_half_step", SENS, "Sensitivity._perturb_models", _half_step, [("limit_scale", "float"), ("step_size", "float")], "float"),
    T.Spec("sens_unit_lower", SENS, "Sensitivity._perturb_models", lambda f: _unit_limit(f, 0),
           [("centre", "float"), ("half_step", "float")], "float"),
    T.Spec("sens_unit_upper", SENS, "Sensitivity._perturb_models", lambda f: _unit_limit(f, 1),
           [("centre", "float"), ("half_step", "float")], "float"),
]


def regenerate(repo=None):
    return T.generate(repo or common.REPO, SPECS, os.path.join(common.COQ, "C16", "Gen.v"),
                      "C16 leaf formulas of grid search / grid result / sensitivity")


# ---------------------------------------------------------------------------
# check
# ---------------------------------------------------------------------------
from .common import cfloat, cZ, cnat, cbool, clist, copt, cpair


def unhex(s):
    return float(s) if s in ("nan", "inf", "-inf") else float.fromhex(s)


def cfl(rows):
    return clist([clist([cfloat(unhex(x)) for x in r]) for r in rows])


def dyadic_or_random(rng):
    r = rng.random()
    if r < 0.3:
        return rng.randint(-40, 40) / 4.0
    if r < 0.6:
        return round(rng.uniform(-100, 100), rng.randint(0, 6))
    return rng.uniform(-1e3, 1e3) * 10 ** rng.randint(-6, 3)


def prior_range(rng):
    lo = dyadic_or_random(rng)
    w = abs(dyadic_or_random(rng)) + 10 ** rng.randint(-3, 2)
    return lo, lo + w


ATTRS = ["centre", "normalization", "sigma"]
KINDS_EXTRA = ["const", "const", "const", "gauss", "loguniform", "shared"]
# shapes (computed from the case alone) on which two defects were found; both are repaired in /repo (c25e54b, cc931f4),
# so these labels only feed the distribution histogram: no failure carries a class that a known finding could match
CLASS_SENS_ORDER = "sens-prior-id-order!=path-order"


def labels_collide(c):
    """two cells of a grid dimension would get the same two-decimal folder label `<name>_<lower:.2f>_<upper:.2f>`
    (the naming before cc931f4; computed with the code's own float formulas from the case alone)"""
    n = c["n"]
    step = 1 / n
    for nm, lo, hi in c["priors"]:
        if nm in c["grid"]:
            lo, hi = unhex(lo), unhex(hi)
            w = hi - lo
            labs = {"%.2f_%.2f" % (lo + (step * v) * w, lo + ((step * v) + step) * w) for v in range(n)}
            if len(labs) < n:
                return True
    return False


def gen_extras(rng, names):
    """non-grid content of each component: constants, Gaussian / LogUniform priors, one prior shared by several
    components, and `alias:<x>` = the prior object of component x's centre on a second path"""
    extras = {}
    for nm in names:
        e = {}
        for attr in ATTRS[1:]:
            kind = rng.choice(KINDS_EXTRA)
            if rng.random() < 0.12 and len(names) > 1:
                kind = "alias:" + rng.choice([x for x in names if x != nm])
            if kind != "const":
                e[attr] = kind
        if e:
            extras[nm] = e
    return extras


def gen_cases(ctx):
    rng = ctx.rng
    thorough = ctx.tier == "thorough"
    cases = []
    special_n = [1, 2, 3, 5, 7, 10, 49, 93, 99, 100, 105, 117, 123, 186, 198]
    # lattice: full comparison
    for _ in range(60 if not thorough else 300):
        d = rng.choice([1, 1, 2, 2, 3, 4])
        cap = {1: 400, 2: 24, 3: 8, 4: 5}[d]
        n = rng.choice(special_n) if rng.random() < 0.35 else rng.randint(1, cap)
        n = min(n, cap)
        if rng.random() < 0.5:
            cases.append({"kind": "lists", "n": n, "d": d, "centre": rng.random() < 0.5, "via": "make_lists"})
        else:
            cases.append({"kind": "lists", "n": n, "d": d, "centre": False, "via": "gridsearch"})
    # counts for many n
    ns = set(special_n) | {rng.randint(1, 5000) for _ in range(150 if not thorough else 1500)}
    for n in sorted(ns):
        cases.append({"kind": "count", "n": n})
    # cells
    for _ in range(60 if not thorough else 300):
        d = rng.choice([1, 2, 2, 3])
        cap = {1: 200, 2: 16, 3: 6}[d]
        n = min(rng.choice(special_n) if rng.random() < 0.3 else rng.randint(1, cap), cap)
        priors = []
        for _ in range(d):
            lo, hi = prior_range(rng)
            priors.append([lo.hex(), hi.hex()])
        cases.append({"kind": "cells", "n": n, "priors": priors})
    # grid priors without definite limits must be refused
    cases.append({"kind": "infinite", "n": 2, "prior": "gauss", "lo": "-inf", "hi": "inf"})
    cases.append({"kind": "infinite", "n": rng.randint(1, 6), "prior": "gauss", "lo": "-inf", "hi": float(rng.randint(1, 9)).hex()})
    cases.append({"kind": "infinite", "n": rng.randint(1, 6), "prior": "uniform", "lo": float(rng.randint(-9, 0)).hex(), "hi": "inf"})
    # model mappers and real fits with permuted completion order
    names = ["alpha", "beta", "gamma", "delta", "eps"]
    for k in range(16 if not thorough else 60):
        npri = rng.randint(2, 5)
        pri = []
        for nm in rng.sample(names, npri):
            lo, hi = prior_range(rng)
            pri.append([nm, lo.hex(), hi.hex()])
        d = rng.randint(1, min(3, npri))
        grid = rng.sample([p[0] for p in pri], d)
        cap = {1: 12, 2: 5, 3: 3}[d]
        n = rng.randint(1, cap)
        extras = gen_extras(rng, [p[0] for p in pri]) if rng.random() < 0.7 else {}
        cases.append({"kind": "mappers", "n": n, "priors": pri, "grid": grid, "extras": extras})
        total = n ** d
        order = list(range(total))
        rng.shuffle(order)
        cases.append({"kind": "fit", "n": n, "priors": pri, "grid": grid, "order": order, "extras": extras,
                      "entry": "fit" if rng.random() < 0.75 else "_fit", "interval": rng.choice([1, 1, 2, 3, 100])})
    if thorough:
        # the real process pool (number_of_cores > 1): completion order is whatever the OS makes it
        for n, grid in ((3, ["beta", "alpha"]), (5, ["gamma"])):
            pri = [[nm, float(i).hex(), float(i + 2 + i).hex()] for i, nm in enumerate(["alpha", "beta", "gamma"])]
            cases.append({"kind": "fit", "n": n, "priors": pri, "grid": grid, "order": list(range(n ** len(grid))), "extras": {},
                          "entry": "fit", "cores": 3, "interval": 2})
    # result accessors
    for _ in range(40 if not thorough else 200):
        d = rng.choice([1, 2, 3, 4])
        cap = {1: 300, 2: 30, 3: 9, 4: 5}[d]
        n = rng.randint(1, cap)
        step = 1 / n
        import itertools
        lower = [[step * v for v in idx] for idx in itertools.product(range(n), repeat=d)]
        cases.append({"kind": "result", "n": n, "d": d, "lower": [[x.hex() for x in r] for r in lower]})
    # builder: shuffled arrival orders incl. partial arrivals and re-delivery (same job number, distinct token)
    for _ in range(60 if not thorough else 300):
        total = rng.randint(1, 30)
        arr = list(range(total))
        rng.shuffle(arr)
        if rng.random() < 0.4:
            arr = arr[: rng.randint(0, total)]
        if arr and rng.random() < 0.5:
            for _ in range(rng.randint(1, 4)):
                arr.insert(rng.randint(0, len(arr)), rng.choice(arr))
        seen = {}
        arrivals = []
        for k in arr:
            seen[k] = seen.get(k, 0) + 1
            arrivals.append([k, 1000 * seen[k] + k])
        cases.append({"kind": "builder", "total": total, "arrivals": arrivals})
    # sensitivity
    scales = [1, 1, 1.0, 0.5, 2, 2.0, 3, 0.25, 4.0, 1.5]
    for _ in range(30 if not thorough else 150):
        d = rng.choice([1, 2, 2, 3])
        cap = {1: 150, 2: 14, 3: 6}[d]
        as_tuple = rng.random() < 0.6
        if as_tuple:
            ns_ = [min(rng.choice(special_n), cap) if rng.random() < 0.3 else rng.randint(1, cap) for _ in range(d)]
        else:
            ns_ = [rng.randint(1, cap)] * d
        cases.append({"kind": "sens_lists", "ns": ns_, "as_tuple": as_tuple})
        ls = rng.choice(scales) if rng.random() < 0.8 else round(rng.uniform(0.1, 5.0), rng.randint(1, 6))
        cases.append({"kind": "sens_cells", "ns": ns_, "as_tuple": as_tuple, "limit_scale": ls if isinstance(ls, int) else ls.hex()})
        arr = list(range(rng.randint(1, 25)))
        rng.shuffle(arr)
        cases.append({"kind": "sens_sorted", "arrivals": arr})
    # real Sensitivity.run() with a permuted completion order; the perturb priors are created in a random
    # order, so prior id order (the order of the grid dimensions) differs from attribute (path) order
    for i in range(10 if not thorough else 40):
        d = rng.choice([1, 2, 2, 3])
        cap = {1: 8, 2: 4, 3: 3}[d]
        as_tuple = rng.random() < 0.7
        ns_ = [rng.randint(1, cap) for _ in range(d)] if as_tuple else [rng.randint(1, cap)] * d
        total = 1
        for n_ in ns_:
            total *= n_
        order = list(range(total))
        rng.shuffle(order)
        pri = []
        for nm in rng.sample(ATTRS, d):
            lo = float(rng.randint(-4, 4))
            pri.append([nm, lo.hex(), (lo + rng.choice([1.0, 2.0, 4.0, 8.0])).hex()])
        ls = rng.choice([1, 1, 1, 2, 0.5, 3.0])
        cases.append({"kind": "sens_run", "ns": ns_, "as_tuple": as_tuple, "order": order, "priors": pri,
                      "weights": [[nm, (2.0 ** (-8 * j)).hex()] for j, nm in enumerate(ATTRS)],
                      "limit_scale": ls if isinstance(ls, int) else ls.hex(),
                      "cores": 2 if (thorough and i % 20 == 7) else 1})
    # one object, several uses (attributes changed in between): every seed gets refinements (same d, other n),
    # changes of d, of the limits, and returns to an earlier configuration
    for _ in range(14 if not thorough else 60):
        cases.append(gen_history_grid(rng))
    for _ in range(8 if not thorough else 30):
        cases.append(gen_history_sens(rng))
    return cases


# ---------------------------------------------------------------------------
# histories: ONE GridSearch / Sensitivity object used several times, public attributes changed between uses
# ---------------------------------------------------------------------------
HNAMES = ["alpha", "beta", "gamma", "delta", "eps"]


def _hist_plan(rng, dmax):
    """sequence of (n, d, relimit) -- every plan contains two uses with the SAME d and DIFFERENT n (refinement),
    most also a change of d and a return to an earlier (n, d)"""
    def cap(d):
        return {1: 8, 2: 4, 3: 2}[d]

    def two(d):
        a = rng.randint(1, cap(d))
        b = rng.choice([x for x in range(1, cap(d) + 1) if x != a] or [a + 1])
        return a, b
    pat = rng.choice(["refine", "alternate", "dims", "limits", "mixed", "mixed"])
    d = rng.randint(1, min(2, dmax)) if rng.random() < 0.8 else rng.randint(1, dmax)
    a, b = two(d)
    if pat == "refine":
        plan = [(a, d, False), (b, d, False), (rng.randint(1, cap(d)), d, False)]
    elif pat == "alternate":
        plan = [(a, d, False), (b, d, False), (a, d, False), (b, d, rng.random() < 0.3)]
    elif pat == "dims":
        d2 = rng.choice([x for x in range(1, dmax + 1) if x != d])
        m = min(a, cap(d2))
        plan = [(m, d, False), (m, d2, False), (m, d, False), (b if b != m else m + 1, d, False), (min(b, cap(d2)), d2, False)]
    elif pat == "limits":
        plan = [(a, d, False), (a, d, True), (b, d, True), (b, d, False)]
    else:
        plan = [(a, d, False)]
        for _ in range(rng.randint(2, 5)):
            dd = d if rng.random() < 0.6 else rng.randint(1, dmax)
            plan.append((rng.randint(1, cap(dd)), dd, rng.random() < 0.25))
        plan.append((b, d, False))
    return pat, plan


def gen_history_grid(rng):
    names = rng.sample(HNAMES, rng.randint(2, 4))
    lim = {nm: prior_range(rng) for nm in names}
    extras = gen_extras(rng, names) if rng.random() < 0.4 else {}
    pat, plan = _hist_plan(rng, min(3, len(names)))
    grids = {}
    steps = []
    for j, (n, d, relimit) in enumerate(plan):
        if d not in grids or rng.random() < 0.25:
            grids[d] = rng.sample(names, d)
        grid = grids[d]
        if relimit:
            lim[rng.choice(grid)] = prior_range(rng)
        op = rng.choice(["lists", "cells", "mappers", "jobs", "fit", "fit"])
        pri = [[nm, lim[nm][0].hex(), lim[nm][1].hex()] for nm in names]
        if op == "lists":
            st = {"kind": "lists", "n": n, "d": d, "centre": False, "via": "gridsearch"}
        elif op == "cells":
            st = {"kind": "cells", "n": n, "priors": [[lim[nm][0].hex(), lim[nm][1].hex()] for nm in grid]}
        else:
            st = {"kind": op, "n": n, "priors": pri, "grid": list(grid), "extras": extras, "reuse_model": j > 0 and rng.random() < 0.7}
            if op == "fit":
                order = list(range(n ** d))
                rng.shuffle(order)
                st.update({"order": order, "entry": "fit" if rng.random() < 0.75 else "_fit"})
        steps.append(st)
    return {"kind": "history", "target": "grid", "pattern": pat, "interval": rng.choice([1, 2, 100]), "steps": steps}


def gen_history_sens(rng):
    scales = [1, 1, 1.0, 0.5, 2, 2.0, 3, 0.25]
    d = rng.choice([1, 1, 2, 2, 3])
    steps = []
    prev = None
    for j in range(rng.randint(3, 5)):
        r = rng.random()
        if prev is not None and r < 0.15:
            d = rng.choice([x for x in (1, 2, 3) if x != d])
        op = rng.choice(["sens_lists", "sens_cells", "sens_run"])
        cap = {1: 8, 2: 4, 3: 2}[d] if op == "sens_run" else {1: 40, 2: 8, 3: 4}[d]
        as_tuple = rng.random() < 0.6
        for _ in range(20):
            ns_ = [rng.randint(1, cap) for _ in range(d)] if as_tuple else [rng.randint(1, cap)] * d
            if ns_ != prev:
                break
        prev = ns_
        ls = rng.choice(scales)
        ls = ls if isinstance(ls, int) else ls.hex()
        if op == "sens_lists":
            st = {"kind": op, "ns": ns_, "as_tuple": as_tuple}
        elif op == "sens_cells":
            st = {"kind": op, "ns": ns_, "as_tuple": as_tuple, "limit_scale": ls}
        else:
            total = 1
            for n_ in ns_:
                total *= n_
            order = list(range(total))
            rng.shuffle(order)
            pri = []
            for nm in rng.sample(ATTRS, d):
                lo = float(rng.randint(-4, 4))
                pri.append([nm, lo.hex(), (lo + rng.choice([1.0, 2.0, 4.0, 8.0])).hex()])
            st = {"kind": op, "ns": ns_, "as_tuple": as_tuple, "order": order, "priors": pri,
                  "weights": [[nm, (2.0 ** (-8 * i)).hex()] for i, nm in enumerate(ATTRS)], "limit_scale": ls, "cores": 1}
        steps.append(st)
    return {"kind": "history", "target": "sens", "pattern": "sens", "steps": steps}


def describe_use(st):
    if "ns" in st:
        return "%s steps=%s%s" % (st["kind"], tuple(st["ns"]) if st["as_tuple"] else st["ns"][0],
                                  " limit_scale=%s" % st["limit_scale"] if "limit_scale" in st else "")
    d = st["d"] if "d" in st else len(st["grid"]) if "grid" in st else len(st["priors"])
    return "%s n=%d d=%d" % (st["kind"], st["n"], d)


def oracle_jobs(c, r):
    n, d = c["n"], len(c["grid"])
    tot = n ** d
    if len(r["job_cells"]) != tot:
        return [("make_jobs made %d jobs, expected %d^%d" % (len(r["job_cells"]), n, d), [])]
    if r["job_index"] != [[i, i] for i in range(tot)]:
        return [("jobs are not numbered 0..%d in order: %s" % (tot - 1, r["job_index"]), [])]
    dims = r["sorted_names"]
    if sorted(dims) != sorted(c["grid"]):
        return [("grid dimensions %s are not the grid priors %s" % (dims, sorted(c["grid"])), [])]
    pr = {x: (unhex(a), unhex(b)) for x, a, b in c["priors"]}
    for idx in range(tot):
        dg = dict(zip(dims, digits_of(idx, [n] * d)))
        for j, nm in enumerate(dims):
            lo, hi = pr[nm]
            w = (hi - lo) / n
            got = (unhex(r["job_cells"][idx][nm][0]), unhex(r["job_cells"][idx][nm][1]))
            e = (lo + dg[nm] / n * (hi - lo), lo + (dg[nm] + 1) / n * (hi - lo))
            if not (close(got[0], e[0], w) and close(got[1], e[1], w)):
                return [("job %d is not cell %d in row-major order (prior %s is %r, cell is %r)" % (idx, idx, nm, got, e), [])]
            if idx < len(r["physical"]) and abs(unhex(r["physical"][idx][j]) - got[0]) > 1e-9 * w + 2e-14 + 8 * ulp(abs(got[0])):
                return [("make_physical_lists entry %d is %r, job %d's cell starts at %r" % (idx, unhex(r["physical"][idx][j]), idx, got[0]), [])]
    if len(r["physical"]) != tot:
        return [("make_physical_lists has %d entries for %d jobs" % (len(r["physical"]), tot), [])]
    return []


def oracle_history(c, r):
    """every use of the one object must (a) satisfy the property as stated for a single use and (b) answer what a
    fresh object with the same attributes answers"""
    what = "GridSearch" if c["target"] == "grid" else "Sensitivity"
    fails = []
    for j, (st, u, f) in enumerate(zip(c["steps"], r["steps"], r["fresh"])):
        tag = "use %d of ONE %s object [%s]" % (j + 1, what, " -> ".join(describe_use(x) for x in c["steps"][: j + 1]))
        if "exc" in u:
            fails.append(("%s raised %s: %s" % (tag, u["exc"], u.get("msg")), []))
            continue
        for msg, classes in oracle_all(st, u["ok"]):
            fails.append(("%s: %s" % (tag, msg), classes))
        if "exc" in f:
            fails.append(("%s: a fresh object raised %s: %s" % (tag, f["exc"], f.get("msg")), []))
        else:
            diff = sorted(k for k in u["ok"] if u["ok"][k] != f["ok"].get(k))
            if diff:
                fails.append(("%s: the answer differs from that of a fresh object with the same attributes in %s" % (tag, diff), []))
    return fails


def coq_history(c, r):
    """the whole history as ONE term for the state machine of Machine.v, plus each use as a stateless case"""
    out = []
    if any("exc" in u for u in r["steps"]):
        return out
    ops, exp = [], []
    for st, u in zip(c["steps"], r["steps"]):
        u = u["ok"]
        out += coq_cases(st, u)
        k = st["kind"]
        if c["target"] == "grid":
            ops.append("OSetSteps %s" % cZ(st["n"]))
            if k == "lists":
                ops.append("OLists %s" % cnat(st["d"]))
                exp.append("RLists %s" % cfl(u["lists"]))
                continue
            if k == "cells":
                pri = [cpair(cfloat(unhex(a)), cfloat(unhex(b))) for a, b in st["priors"]]
                cells = u["cells"]
            else:
                names = u["sorted_names"]
                if sorted(names) != sorted(st["grid"]):
                    return out
                pr = {x: (a, b) for x, a, b in st["priors"]}
                pri = [cpair(cfloat(unhex(pr[nm][0])), cfloat(unhex(pr[nm][1]))) for nm in names]
                if k == "mappers":
                    rows = [{nm: row[nm + ".centre"][1:3] for nm in names} for row in u["mappers"]]
                else:
                    rows = u["samples"] if k == "fit" else u["job_cells"]
                cells = [[row[nm] for nm in names] for row in rows]
            ops.append("OCells %s" % clist(pri))
            exp.append("RCells %s" % clist([clist([cpair(cfloat(unhex(a)), cfloat(unhex(b))) for a, b in row]) for row in cells]))
        else:
            if k == "sens_run":
                continue
            ops.append("OSetSteps %s" % clist([cZ(n) for n in st["ns"]]))
            if k == "sens_lists":
                ops.append("OLists %s" % cnat(len(st["ns"])))
                exp.append("RLists %s" % cfl(u["lists"]))
            else:
                ls = st["limit_scale"]
                ops.append("OCells %s" % cfloat(unhex(ls) if isinstance(ls, str) else float(ls)))
                exp.append("RCells %s" % clist([clist([cpair(cfloat(unhex(a)), cfloat(unhex(b))) for a, b in row]) for row in u["limits"]]))
    if exp:
        first = c["steps"][0]
        if c["target"] == "grid":
            out.append("CHistory %s %s %s" % (cZ(first["n"]), clist(["(%s)" % o for o in ops]), clist(["(%s)" % e for e in exp])))
        else:
            out.append("CSensHistory %s %s %s" % (clist([cZ(n) for n in first["ns"]]), clist(["(%s)" % o for o in ops]),
                                                  clist(["(%s)" % e for e in exp])))
    return out


def ulp(x):
    import math
    return math.ulp(x)


def close(a, b, width=None):
    """equality up to floating-point rounding: a few ulps of the operands plus 1e-9 of the CELL width (never
    of the magnitude of the prior limits, which may dwarf the cell)"""
    if width is None:
        return abs(a - b) <= 1e-9 * max(1.0, abs(a), abs(b))
    return abs(a - b) <= 1e-9 * abs(width) + 8 * ulp(max(abs(a), abs(b), abs(width)))


def digits_of(k, ns):
    out = []
    for n in reversed(ns):
        out.append(k % n)
        k //= n
    return list(reversed(out))


def sens_classes(c):
    """labels of the recorded sensitivity defects, computed from the case alone"""
    created = [p[0] for p in c["priors"]]
    out = []
    if created != [a for a in ATTRS if a in created]:
        out.append(CLASS_SENS_ORDER)
    return out


def oracle(c, r):
    fails = oracle_all(c, r)
    return fails[0][0] if fails else None


def oracle_all(c, r):
    """Direct statement of C16 on the implementation's outputs: list of (message, class labels)."""
    k = c["kind"]
    if k == "fit":
        return oracle_fit(c, r)
    if k == "sens_run":
        return oracle_sens_run(c, r)
    if k == "history":
        return oracle_history(c, r)
    if k == "jobs":
        return oracle_jobs(c, r)
    msg = oracle_simple(c, r)
    return [(msg, [])] if msg else []


def oracle_fit(c, r):
    n, d = c["n"], len(c["grid"])
    tot = n ** d
    if r["shape"] != [n] * d:
        return [("shape %s expected %s" % (r["shape"], [n] * d), [])]
    if r["no_steps"] != tot or len(r["samples"]) != tot:
        return [("result has %d cells" % r["no_steps"], [])]
    dims = r["sorted_names"]           # the library's order of the grid dimensions (sort_priors_alphabetically)
    aliased = any(v.startswith("alias:") for e in c.get("extras", {}).values() for v in e.values())
    if sorted(dims) != sorted(c["grid"]) or (not aliased and dims != sorted(c["grid"])):
        return [("grid dimensions %s are not the grid priors %s sorted by path" % (dims, sorted(c["grid"])), [])]
    pr = {x: (unhex(a), unhex(b)) for x, a, b in c["priors"]}
    alpha = sorted(c["grid"])          # the analysis weights the parameters in this (fixed) order
    exp_cell, exp_ll = [], []
    for idx in range(tot):
        dg = dict(zip(dims, digits_of(idx, [n] * d)))
        cell = {}
        for nm in dims:
            lo, hi = pr[nm]
            cell[nm] = (lo + dg[nm] / n * (hi - lo), lo + (dg[nm] + 1) / n * (hi - lo), (hi - lo) / n)
        exp_cell.append(cell)
        exp_ll.append(-sum(((dg[nm] + 0.5) / n) / (n + 1) ** j for j, nm in enumerate(alpha)))
    fails = []
    classes = []

    def bad(msg):
        fails.append((msg, classes))

    def cell_is(got, idx, what):
        for nm in dims:
            lo_, hi_, w = exp_cell[idx][nm]
            if not (close(unhex(got[nm][0]), lo_, w) and close(unhex(got[nm][1]), hi_, w)):
                bad("%s %d is not cell %d in row-major order (prior %s is [%r, %r], cell is [%r, %r]; completion order %s)"
                    % (what, idx, idx, nm, unhex(got[nm][0]), unhex(got[nm][1]), lo_, hi_, c["order"]))
                return False
        return True

    for idx in range(tot):
        if not cell_is(r["samples"][idx], idx, "samples entry"):
            break
    # every per-cell list: entry k carries the likelihood / evidence / instance of cell k
    for key, off, scale in (("log_likelihoods", 0.0, 1.0), ("native_flat", 0.0, 1.0), ("log_evidences", -100.0, 1.0),
                            ("fom_evidence", -101.0, 1.0), ("builder_results", 0.0, 1.0)):
        vals = r[key]
        if len(vals) != tot:
            bad("%s has %d entries" % (key, len(vals)))
            continue
        for idx in range(tot):
            if vals[idx] is None or abs(unhex(vals[idx]) - (exp_ll[idx] + off)) > 1e-9:
                bad("%s[%d] = %r is not the value of cell %d (%r)" % (key, idx, vals[idx] and unhex(vals[idx]), idx, exp_ll[idx] + off))
                break
    if r["native_shape"] != [n] * d:
        bad("log_likelihoods().native has shape %s" % r["native_shape"])
    for nm in dims:
        vals = r["attribute_grid"][nm]
        if vals is None:
            bad("attribute_grid(%s.centre) raises AttributeError: a cell has no instance" % nm)
            continue
        for idx in range(tot):
            lo_, hi_, w = exp_cell[idx][nm]
            if not close(unhex(vals[idx]), (lo_ + hi_) / 2, w):
                bad("attribute_grid(%s.centre)[%d] = %r is not inside cell %d" % (nm, idx, unhex(vals[idx]), idx))
                break
    if r["best"] != [0]:
        bad("best_samples is entry %s, the best likelihood is in cell 0" % r["best"])
    for idx in range(tot):
        if r["builder_paths"][idx] is None or not cell_is(r["builder_paths"][idx], idx, "ResultBuilder.results paths entry"):
            if r["builder_paths"][idx] is None:
                bad("ResultBuilder.results[%d] is a placeholder after the search" % idx)
            break
    if r["job_cells"]:
        if r["job_index"] != [[i, i] for i in range(tot)]:
            bad("jobs are not numbered 0..%d in order: %s" % (tot - 1, r["job_index"]))
        for idx in range(tot):
            if not cell_is(r["job_cells"][idx], idx, "job"):
                break
        # while running: slot k is filled exactly when job k has arrived
        seen = set()
        for step, kdone in enumerate(c["order"]):
            seen.add(kdone)
            if r["progress"][step] != [i in seen for i in range(tot)]:
                bad("after %d arrivals the builder shows %s, arrived %s" % (step + 1, r["progress"][step], sorted(seen)))
                break
    if not r["others_same"]:
        bad("a prior that is not a grid prior was replaced")
    # reported physical cell limits are consistent with the cells fitted
    for idx, smp in enumerate(r["samples"]):
        stop = False
        for j, nm in enumerate(dims):
            lo_, hi_ = unhex(smp[nm][0]), unhex(smp[nm][1])
            w = exp_cell[idx][nm][2]
            pl, pu, pc = unhex(r["physical_lower"][idx][j]), unhex(r["physical_upper"][idx][j]), unhex(r["physical_centres"][idx][j])
            if not (close(pl, lo_, w) and close(pu, hi_, w) and close(pc, (lo_ + hi_) / 2, w)):
                bad("reported physical limits/centre of cell %d (%r, %r, %r) are not those of the cell fitted (%r, %r)"
                    % (idx, pl, pu, pc, lo_, hi_))
                stop = True
                break
        if stop:
            break
    # results.csv: one row per finished cell, columns found by header
    hdr = r["csv_header"]
    rows = sorted(r["csv"])
    if [x[0] for x in rows] != list(range(tot)):
        bad("results.csv does not list every cell once")
    else:
        if c.get("cores", 1) == 1 and [x[0] for x in r["csv"]] != c["order"]:
            bad("results.csv rows are not in completion order")
        for row in rows:
            idx = row[0]
            stop = False
            for nm in dims:
                # the column is headed by a name of the grid prior: <component>_<attribute> of any path holding it
                cols = ["%s_centre" % nm] + ["%s_%s" % (x, attr) for x, e in c.get("extras", {}).items()
                                             for attr, v in e.items() if v == "alias:" + nm]
                found = [x for x in cols if x in hdr]
                if len(found) != 1:
                    bad("results.csv has no column for grid prior %s (header %s)" % (nm, hdr))
                    stop = True
                    break
                if unhex(row[hdr.index(found[0])]) != unhex(r["samples"][idx][nm][0]):
                    bad("results.csv row %d column %s does not describe cell %d" % (idx, found[0], idx))
                    stop = True
                    break
            llc = hdr.index("log_likelihood_increase")
            if not stop and (row[llc] is None or abs(unhex(row[llc]) - exp_ll[idx]) > 1e-9):
                bad("results.csv row %d carries the likelihood %r, cell %d has %r" % (idx, row[llc] and unhex(row[llc]), idx, exp_ll[idx]))
                stop = True
            if stop:
                break
    return fails


def parse_label(label):
    toks = label.split("_")
    return {toks[i]: float(toks[i + 1]) for i in range(0, len(toks) - 1, 2)}


def oracle_sens_run(c, r):
    ns = c["ns"]
    names = [p[0] for p in c["priors"]]        # creation order = prior id order = order of the grid dimensions
    tot = 1
    for n in ns:
        tot *= n
    if r["shape"] != ns or r["n"] != tot or r["n_perturb"] != tot or r["native_shape"] != ns:
        return [("sensitivity result has shape %s and %d entries for steps %s" % (r["shape"], r["n"], ns), [])]
    ls = c.get("limit_scale", 1)
    ls = unhex(ls) if isinstance(ls, str) else float(ls)
    pri = {nm: (unhex(a), unhex(b)) for nm, a, b in c["priors"]}
    wts = [(nm, unhex(w)) for nm, w in c["weights"]]
    exp = []
    for idx in range(tot):
        dg = digits_of(idx, ns)
        cell = {}
        for i, nm in enumerate(names):
            lo, hi = pri[nm]
            n = ns[i]
            cu = (dg[i] + 0.5) / n
            cell[nm] = {"centre": lo + cu * (hi - lo), "lo": lo + max(0.0, cu - ls / (2 * n)) * (hi - lo),
                        "hi": lo + min(1.0, cu + ls / (2 * n)) * (hi - lo), "w": (hi - lo) / n}
        exp.append(cell)
    fails = []
    order_classes = []

    def enc(idx):
        return -sum(w * (exp[idx][nm]["centre"] if nm in exp[idx] else 1.0) for nm, w in wts)

    # the k-th perturbed fit was made on cell k
    for idx in range(tot):
        stop = False
        for nm in names:
            e = exp[idx][nm]
            got = (unhex(r["cells"][idx][nm][0]), unhex(r["cells"][idx][nm][1]))
            if not (close(got[0], e["lo"], e["w"]) and close(got[1], e["hi"], e["w"])):
                fails.append(("entry %d of perturb_samples was fitted on %s in %r, but cell %d is %r (completion order %s)"
                              % (idx, nm, got, idx, (e["lo"], e["hi"]), c["order"]), []))
                stop = True
                break
        if stop:
            break
    # the k-th base fit / perturbed fit saw the dataset simulated at the centre of cell k
    for key in ("base_dataset", "perturb_dataset"):
        for idx in range(tot):
            if any(not close(unhex(r[key][idx][nm]), exp[idx][nm]["centre"], exp[idx][nm]["w"]) for nm in names):
                fails.append(("entry %d of %s was simulated at %s, the centre of cell %d is %s (completion order %s)"
                              % (idx, "samples" if key == "base_dataset" else "perturb_samples",
                                 {nm: unhex(r[key][idx][nm]) for nm in names}, idx, {nm: exp[idx][nm]["centre"] for nm in names}, c["order"]), []))
                break
    for key, f in (("ll_base", lambda e: e), ("ll_perturbed", lambda e: 2 * e + 1), ("ll_diff", lambda e: e + 1), ("ev_diff", lambda e: e + 1)):
        for idx in range(tot):
            if abs(unhex(r[key][idx]) - f(enc(idx))) > 1e-9 * max(1.0, abs(enc(idx))):
                fails.append(("%s[%d] = %r is not the value of cell %d (%r)" % (key, idx, unhex(r[key][idx]), idx, f(enc(idx))), []))
                break
    # results.csv: the value in the column headed p is the value of parameter p in that row's cell
    hdr = r["csv_header"]
    rows = sorted(r["csv"])
    if [x[0] for x in rows] != list(range(tot)):
        fails.append(("results.csv does not list every cell once", []))
    else:
        for row in rows:
            idx = row[0]
            stop = False
            for nm in names:
                if nm not in hdr:
                    fails.append(("results.csv has no column %s" % nm, []))
                    stop = True
                    break
                v = unhex(row[hdr.index(nm)])
                e = exp[idx][nm]
                if not close(v, e["centre"], e["w"]):
                    cell_lo, cell_hi = unhex(r["cells"][idx][nm][0]), unhex(r["cells"][idx][nm][1])
                    fails.append(("results.csv row %d reports %s = %r, but the cell fitted as entry %d has %s in [%r, %r] (centre %r)"
                                  % (idx, nm, v, idx, nm, cell_lo, cell_hi, e["centre"]), order_classes))
                    stop = True
                    break
            if stop:
                break
            llc = hdr.index("log_likelihood_increase")
            if abs(unhex(row[llc]) - (enc(idx) + 1)) > 1e-9 * max(1.0, abs(enc(idx))):
                fails.append(("results.csv row %d carries the likelihood increase of another cell" % idx, []))
                break
    # output folders: job k's label names the centre of cell k, parameter by parameter
    if r["job_labels"]:
        for idx, (number, label) in enumerate(r["job_labels"]):
            if number != idx:
                fails.append(("job %d carries number %d" % (idx, number), []))
                break
            vals = parse_label(label)
            wrong = [nm for nm in names if nm not in vals or not close(vals[nm], exp[idx][nm]["centre"], exp[idx][nm]["w"])]
            if wrong:
                fails.append(("the folder of cell %d is labelled %s, but the cell's centre is %s"
                              % (idx, label, {nm: exp[idx][nm]["centre"] for nm in names}), order_classes))
                break
        labels = [lab for _, lab in r["job_labels"]]
        if r["base_label"] != labels or r["perturb_label"] != labels:
            fails.append(("entries of samples / perturb_samples were not fitted in the folders of their cells", []))
    # physical centres of the perturbed model for each fit
    for nm in names:
        for idx in range(tot):
            e = exp[idx][nm]
            if not close(unhex(r["centres_from"][nm][idx]), (e["lo"] + e["hi"]) / 2, e["w"]):
                fails.append(("perturbed_physical_centres_list_from(perturb.%s)[%d] = %r, the prior fitted in cell %d is [%r, %r]"
                              % (nm, idx, unhex(r["centres_from"][nm][idx]), idx, e["lo"], e["hi"]), []))
                break
        else:
            continue
        break
    return fails


def oracle_simple(c, r):
    k = c["kind"]
    if k == "lists":
        L = [[unhex(x) for x in row] for row in r["lists"]]
        n, d = c["n"], c["d"]
        if len(L) != n ** d:
            return "lattice has %d points, expected %d^%d" % (len(L), n, d)
        if any(len(row) != d for row in L):
            return "row of wrong dimension"
        cols = [sorted(set(row[i] for row in L)) for i in range(d)]
        if any(len(col) != n for col in cols):
            return "a dimension has %s distinct values, expected %d" % ([len(col) for col in cols], n)
        for idx, row in enumerate(L):
            rem = idx
            for i in range(d - 1, -1, -1):
                if row[i] != cols[i][rem % n]:
                    return "entry %d is not in row-major order" % idx
                rem //= n
        return None
    if k == "count":
        return None if r["count"] == c["n"] else "make_lists yields %d points for %d steps" % (r["count"], c["n"])
    if k == "cells":
        n, d = c["n"], len(c["priors"])
        cells = [[(unhex(a), unhex(b)) for a, b in row] for row in r["cells"]]
        if len(cells) != n ** d:
            return "%d cells, expected %d" % (len(cells), n ** d)
        for i, (lo, hi) in enumerate(c["priors"]):
            lo, hi = unhex(lo), unhex(hi)
            per = sorted(set(row[i] for row in cells))
            if len(per) != n:
                return "dimension %d has %d distinct cells, expected %d" % (i, len(per), n)
            w = (hi - lo) / n
            if not close(per[0][0], lo, w) or not close(per[-1][1], hi, w):
                return "cells of dimension %d cover [%r,%r] not [%r,%r]" % (i, per[0][0], per[-1][1], lo, hi)
            for a, b in zip(per, per[1:]):
                if not close(a[1], b[0], w):
                    return "cells of dimension %d not contiguous: %r then %r" % (i, a, b)
            if any(not (a < b) for a, b in per):
                return "empty cell"
            # job k's cell in this dimension is the (digit i of k)-th cell, and make_physical_lists agrees
            for idx, row in enumerate(cells):
                dg = digits_of(idx, [n] * d)[i]
                if not close(row[i][0], lo + dg / n * (hi - lo), w) or not close(row[i][1], lo + (dg + 1) / n * (hi - lo), w):
                    return "cell %d dimension %d is %r, not cell number %d of the dimension" % (idx, i, row[i], dg)
                if abs(unhex(r["physical"][idx][i]) - row[i][0]) > 1e-9 * w + 2e-14 + 8 * ulp(abs(row[i][0])):
                    return "make_physical_lists entry %d is %r, cell starts at %r" % (idx, unhex(r["physical"][idx][i]), row[i][0])
        return None
    if k == "mappers":
        n, d = c["n"], len(c["grid"])
        ms = r["mappers"]
        if len(ms) != n ** d:
            return "%d models, expected %d" % (len(ms), n ** d)
        orig = r["original"]
        # paths holding a grid prior (the prior of <x>.centre and every alias of it)
        gridpaths = {}
        for nm in c["grid"]:
            grp = orig[nm + ".centre"][3]
            for path, v in orig.items():
                if v[0] != "const" and v[3] == grp:
                    gridpaths[path] = nm
        pr = {x: (unhex(a), unhex(b)) for x, a, b in c["priors"]}
        for row in ms:
            if sorted(row) != sorted(orig):
                return "model paths changed"
            for path, v in orig.items():
                got = row[path]
                if path not in gridpaths:
                    # all other parameters keep their priors (the very objects) and constants
                    if v[0] == "const":
                        if got != v:
                            return "constant %s changed" % path
                    elif got[:4] != v[:4] or not got[4]:
                        return "non-grid prior %s changed (%s -> %s)" % (path, v, got)
                else:
                    if got[0] != "UniformPrior" or got[4]:
                        return "grid prior at %s is not replaced by a uniform prior" % path
                    if got[3] != v[3] or got[1:3] != row[gridpaths[path] + ".centre"][1:3]:
                        return "paths sharing grid prior %s no longer share one prior" % gridpaths[path]
        if any(pc != r["original_prior_count"] for pc in r["prior_count"]):
            return "prior count changed"
        # tiling of each grid dimension
        for nm in c["grid"]:
            lo, hi = pr[nm]
            w = (hi - lo) / n
            per = sorted(set((unhex(row[nm + ".centre"][1]), unhex(row[nm + ".centre"][2])) for row in ms))
            if len(per) != n or not close(per[0][0], lo, w) or not close(per[-1][1], hi, w):
                return "grid prior %s not tiled" % nm
            if any(not close(a[1], b[0], w) for a, b in zip(per, per[1:])):
                return "grid prior %s cells not contiguous" % nm
        return None
    if k == "infinite":
        return None if r["raised"] == "PriorException" else "a grid prior with an infinite limit was accepted (%s models)" % r.get("n_models")
    if k == "sens_cells":
        ls = c["limit_scale"]
        ls = unhex(ls) if isinstance(ls, str) else float(ls)
        ns = c["ns"]
        tot = 1
        for n in ns:
            tot *= n
        if len(r["limits"]) != tot:
            return "%d sensitivity cells for steps %s" % (len(r["limits"]), ns)
        for idx, lim in enumerate(r["limits"]):
            dg = digits_of(idx, ns)
            for i, n in enumerate(ns):
                cu = (dg[i] + 0.5) / n
                e = (max(0.0, cu - ls / (2 * n)), min(1.0, cu + ls / (2 * n)))
                got = (unhex(lim[i][0]), unhex(lim[i][1]))
                if not (close(got[0], e[0], 1 / n) and close(got[1], e[1], 1 / n)):
                    return "sensitivity cell %d dimension %d has unit limits %r, expected %r (limit_scale %r)" % (idx, i, got, e, ls)
                if ls == 1 and not (close(got[0], dg[i] / n, 1 / n) and close(got[1], (dg[i] + 1) / n, 1 / n)):
                    return "sensitivity cell %d dimension %d is not [k/n, (k+1)/n]" % (idx, i)
        return None
    if k == "result":
        n, d = c["n"], c["d"]
        if r["shape"] != [n] * d or r["side_length"] != n:
            return "shape %s side %s for n=%d d=%d" % (r["shape"], r["side_length"], n, d)
        return None
    if k == "builder":
        arrived = dict((a, t) for a, t in c["arrivals"])
        exp = [arrived.get(i) for i in range(c["total"])]
        if r["summaries"] != exp:
            return "summaries not in job-number order (latest delivery of a job wins)"
        if r["results"] != [None if t is None else [t, "path%d" % i] for i, t in enumerate(exp)]:
            return "ResultBuilder.results does not pair job k's summary with job k's paths: %s" % r["results"]
        return None
    if k == "sens_lists":
        tot = 1
        for n in c["ns"]:
            tot *= n
        if len(r["lists"]) != tot:
            return "sensitivity lattice has %d points for steps %s" % (len(r["lists"]), c["ns"])
        if r["shape"] != c["ns"]:
            return "sensitivity shape %s for steps %s" % (r["shape"], c["ns"])
        L = [[unhex(x) for x in row] for row in r["lists"]]
        for i, n in enumerate(c["ns"]):
            col = sorted(set(row[i] for row in L))
            if len(col) != n:
                return "sensitivity dimension %d has %d distinct centres for %d steps" % (i, len(col), n)
            if any(not close(v, (j + 0.5) / n, 1 / n) for j, v in enumerate(col)):
                return "sensitivity centres of dimension %d are not the cell centres" % i
        for idx, row in enumerate(L):
            rem = idx
            for i in range(len(c["ns"]) - 1, -1, -1):
                n = c["ns"][i]
                if not close(row[i], (rem % n + 0.5) / n, 1 / n):
                    return "sensitivity entry %d is not in row-major order" % idx
                rem //= n
        return None
    if k == "sens_sorted":
        return None if r["numbers"] == sorted(c["arrivals"]) else "sensitivity results not sorted by number"
    return "unknown kind"




def cell_number(dataset, c):
    """the cell a sensitivity result entry belongs to, identified by the dataset simulated for it"""
    num = 0
    for (nm, lo, hi), n in zip(c["priors"], c["ns"]):
        lo, hi = unhex(lo), unhex(hi)
        j = int(round((unhex(dataset[nm]) - lo) / (hi - lo) * n - 0.5))
        num = num * n + j
    return num


def coq_cases(c, r):
    """Coq terms of type `case` (abstract input + what the implementation returned)."""
    k = c["kind"]
    if k == "history":
        return coq_history(c, r)
    if k == "jobs":
        names = r["sorted_names"]
        if sorted(names) != sorted(c["grid"]):
            return []
        pr = {x: (a, b) for x, a, b in c["priors"]}
        pri = clist([cpair(cfloat(unhex(pr[nm][0])), cfloat(unhex(pr[nm][1]))) for nm in names])
        exp = clist([clist([cpair(cfloat(unhex(s_[nm][0])), cfloat(unhex(s_[nm][1]))) for nm in names]) for s_ in r["job_cells"]])
        return ["CCells %s %s %s" % (cZ(c["n"]), pri, exp)]
    if k == "lists":
        if c.get("via") == "gridsearch":
            return ["CGridLists %s %s %s" % (cZ(c["n"]), cnat(c["d"]), cfl(r["lists"]))]
        return ["CLists %s %s %s %s" % (cZ(c["n"]), cnat(c["d"]), cbool(c["centre"]), cfl(r["lists"]))]
    if k == "count":
        return ["CCount %s %s" % (cZ(c["n"]), cZ(r["count"]))]
    if k == "cells":
        pri = clist([cpair(cfloat(unhex(a)), cfloat(unhex(b))) for a, b in c["priors"]])
        exp = clist([clist([cpair(cfloat(unhex(a)), cfloat(unhex(b))) for a, b in row]) for row in r["cells"]])
        return ["CCells %s %s %s" % (cZ(c["n"]), pri, exp)]
    if k == "fit":
        names = r["sorted_names"]
        if sorted(names) != sorted(c["grid"]):
            return []
        pr = {x: (a, b) for x, a, b in c["priors"]}
        pri = clist([cpair(cfloat(unhex(pr[nm][0])), cfloat(unhex(pr[nm][1]))) for nm in names])
        out = []
        for key in ("samples", "job_cells", "builder_paths"):
            if r[key] and all(x is not None for x in r[key]):
                exp = clist([clist([cpair(cfloat(unhex(s[nm][0])), cfloat(unhex(s[nm][1]))) for nm in names]) for s in r[key]])
                out.append("CCells %s %s %s" % (cZ(c["n"]), pri, exp))
        if r["progress"]:
            out.append("CProgress %s %s %s" % (cnat(c["n"] ** len(names)), clist([cZ(x) for x in c["order"]]),
                                               clist([clist([cbool(x) for x in row]) for row in r["progress"]])))
        return out
    if k == "result":
        ns, nd = len(c["lower"]), len(c["lower"][0])
        base, ex = float(ns), 1 / nd
        pt = clist(["(%s, %s, %s)" % (cfloat(base), cfloat(ex), cfloat(base ** ex))])
        return ["CResult %s %s %s %s %s %s %s" % (
            pt, cfl(c["lower"]), clist([cZ(x) for x in r["shape"]]), cZ(r["side_length"]),
            cfloat(unhex(r["step_size"])), cfl(r["upper"]), cfl(r["centres"]))]
    if k == "builder":
        res = []
        for x in r["results"]:
            ok = x is not None and isinstance(x[1], str) and x[1].startswith("path") and x[1][4:].isdigit()
            res.append(cpair(cZ(x[0]), cZ(int(x[1][4:]))) if ok else None)
        return ["CBuilder %s %s %s %s" % (cnat(c["total"]), clist([cpair(cZ(a), cZ(t)) for a, t in c["arrivals"]]),
                                          clist([copt(x, cZ) for x in r["summaries"]]), clist([copt(x) for x in res]))]
    if k == "sens_lists":
        return ["CSensLists %s %s %s" % (clist([cZ(n) for n in c["ns"]]), cfl(r["lists"]), clist([cZ(x) for x in r["shape"]]))]
    if k == "sens_cells":
        ls = c["limit_scale"]
        ls = unhex(ls) if isinstance(ls, str) else float(ls)
        exp = clist([clist([cpair(cfloat(unhex(a)), cfloat(unhex(b))) for a, b in row]) for row in r["limits"]])
        return ["CSensCells %s %s %s" % (cfloat(ls), clist([cZ(n) for n in c["ns"]]), exp)]
    if k == "sens_sorted":
        return ["CSensSorted %s %s" % (clist([cZ(x) for x in c["arrivals"]]), clist([cZ(x) for x in r["numbers"]]))]
    if k == "sens_run":
        # identify the cell each result entry belongs to (by the dataset simulated for it), then compare the
        # order of BOTH result lists with the model's sorted collection of the arrivals
        out = []
        for key in ("base_dataset", "perturb_dataset"):
            numbers = [cell_number(ds, c) for ds in r[key]]
            out.append("CSensSorted %s %s" % (clist([cZ(x) for x in c["order"]]), clist([cZ(x) for x in numbers])))
        return out
    return []


def nontrivial(c):
    k = c["kind"]
    if k in ("lists", "cells", "result"):
        return c["n"] >= 2
    if k == "count":
        return c["n"] >= 3
    if k in ("mappers", "fit"):
        return c["n"] >= 2 and (k == "mappers" or c["order"] != sorted(c["order"]) or c.get("cores", 1) > 1)
    if k == "builder":
        return [a for a, _ in c["arrivals"]] != sorted(a for a, _ in c["arrivals"])
    if k in ("sens_lists", "sens_cells"):
        return max(c["ns"]) >= 2
    if k == "sens_sorted":
        return c["arrivals"] != sorted(c["arrivals"])
    if k == "sens_run":
        return c["order"] != sorted(c["order"]) or c.get("cores", 1) > 1
    if k == "infinite":
        return True
    if k == "jobs":
        return c["n"] >= 2
    if k == "history":
        # at least two uses whose attributes differ
        return len({describe_use(x).split(" ", 1)[1] for x in c["steps"]}) >= 2
    return False


def shape_sweep(infos):
    """C16_shape assumes a d-th root accurate to 1/2; in binary64 that is checked here exhaustively for the
    source expression of GridSearchResult.shape / side_length themselves, on d <= 6, n^d <= 10^6."""
    from types import SimpleNamespace
    bad, count = [], 0
    for name in ("gsr_shape_elem", "gsr_side_length"):
        code = compile(__import__("ast").Expression(infos[name]["node"]), "<%s>" % name, "eval")
        for d in range(1, 7):
            n = 1
            while n ** d <= 10 ** 6:
                env = {"self": SimpleNamespace(no_steps=n ** d, no_dimensions=d)}
                v = eval(code, {"__builtins__": {"round": round, "int": int}}, env)
                count += 1
                if v != n and len(bad) < 5:
                    bad.append((name, n, d, v))
                n += 1
    return bad, count


def run(ctx):
    ctx.rule = ("cases are abstract grid-search inputs (kinds: lattice, count, cells, infinite limits, model mappers with non-uniform / "
                "shared / aliased other parameters, real fits through GridSearch.fit/_fit with a permuted completion order and a "
                "likelihood that is a function of the cell, GridSearchResult accessors, ResultBuilder arrival orders with re-delivery, "
                "sensitivity lattices / unit cells with limit_scale / sorting / real Sensitivity.run with perturb priors created out "
                "of path order, and HISTORIES: one GridSearch / Sensitivity object used for several make_lists / make_arguments / "
                "model_mappers / make_jobs / fit (resp. _lists / _perturb_models / run) calls with number_of_steps, the number of grid "
                "priors, their limits, limit_scale and the model changed between uses -- every use is checked as a single use, against "
                "a fresh object and against the state-machine model); a case is non-trivial when n >= 2 (count: n >= 3) and, for ordered kinds, the completion order "
                "differs from job order (or is left to the real process pool); distinct = distinct abstract input")
    ctx.trusted = [
        "Coq 8.16.1 kernel incl. vm_compute; primitive floats (PrimFloat, Uint63) are kernel primitives",
        "harness/vcheck/pyexpr2coq.py (leaf-formula translator, fail-closed) regenerating coq/C16/Gen.v from /repo on every run",
        "correspondence harness c16.py / impl/c16_impl.py; Python float.hex, float.__pow__ (oracle table for **(1/d))",
        "modelled not verified: UniformPrior construction and value_for, model.mapper_from_partial_prior_arguments, "
        "sort_priors_alphabetically (its order of the grid dimensions is taken as given), the mock search (likelihood evaluated at "
        "the prior medians), Process pool scheduling (completion order is steered by a permuting job runner; two thorough-tier "
        "cases use the real pool)",
    ]
    ctx.assumptions = [
        "C16_count_float is a finite sweep 1<=n<=131072 over the generated binary64 formula (bound stated in the theorem)",
        "C16_shape assumes the d-th root is computed to within 1/2 of n (libm pow is an oracle); for binary64 the source expression "
        "is swept exhaustively by the harness on d<=6, n^d<=10^6 (obligation sweep:shape-float)",
        "tiling theorems are over exact rationals; binary64 cells are compared bit-for-bit by correspondence and by the oracle to "
        "1e-9 of the CELL width plus 8 ulp",
    ]
    # 1. translator
    infos = None
    try:
        infos = regenerate()
        ctx.translated = {k: {"source": v["source"], "line": v["line"]} for k, v in infos.items()}
        ctx.obligation("translator:Gen.v", "translator", True, "%d expressions" % len(infos))
        translated = True
    except T.TranslationError as e:
        ctx.obligation("translator:Gen.v", "translator", False, str(e))
        translated = False
    if infos:
        bad, count = shape_sweep(infos)
        ctx.obligation("sweep:shape-float", "sweep", not bad, "%d (n, d) pairs" % count if not bad else "round(N**(1/d)) != n for %s" % bad)
        if bad:
            name, n, d, v = bad[0]
            ctx.failure("oracle", "a %d-dimensional grid with %d steps reports side %d" % (d, n, v), {"kind": "shape", "n": n, "d": d})
    # 2. proofs
    built = ctx.build() if translated else False
    # 3. cases
    cases = gen_cases(ctx)
    if ctx.replay:
        import json
        rp = json.load(open(ctx.replay))
        if rp.get("case"):
            cases = [rp["case"]]
    # pinned corpus (former findings, now repaired in /repo): each must pass the oracle without any failure
    corpus = {}
    cdir = os.path.join(common.VERIF, "corpus", "C16")
    if not ctx.replay and os.path.isdir(cdir):
        import json
        for f in sorted(os.listdir(cdir)):
            if f.endswith(".json"):
                corpus[len(cases)] = f[:-5]
                cases.append(json.load(open(os.path.join(cdir, f)))["case"])
    slow = [i for i, c in enumerate(cases) if c["kind"] in ("fit", "sens_run", "history")]
    fast = [i for i, c in enumerate(cases) if c["kind"] not in ("fit", "sens_run", "history")]
    groups = [fast] + [slow[j::6] for j in range(6)]
    groups = [g for g in groups if g]
    outs = common.run_impl_parallel("c16_impl", [{"cases": [cases[i] for i in g]} for g in groups], timeout=1500)
    results = [None] * len(cases)
    for g, res in zip(groups, outs):
        if "__error__" in res:
            ctx.obligation("impl-driver", "harness", False, res["__error__"][-800:])
            return
        for i, r in zip(g, res["results"]):
            results[i] = r
    coq_terms, coq_idx = [], []
    for i, (c, r) in enumerate(zip(cases, results)):
        ctx.count_case({k: v for k, v in c.items() if k != "idx"}, nontrivial(c), c["kind"])
        if c["kind"] == "sens_run":
            ctx.hist("sens_run.created_in_path_order", not sens_classes(c))
            ctx.hist("sens_run.limit_scale", str(c["limit_scale"]))
        if c["kind"] == "fit":
            ctx.hist("fit.two_decimal_labels_would_collide", labels_collide(c))
        if c["kind"] == "history":
            ctx.hist("history.pattern", "%s:%s" % (c["target"], c.get("pattern")))
            ctx.hist("history.uses", len(c["steps"]))
            for st in c["steps"]:
                ctx.hist("history.use_kind", st["kind"])
            same_d_other_n = any(("n" in a and "n" in b and a["n"] != b["n"] and describe_use(a).split(" d=")[-1] == describe_use(b).split(" d=")[-1])
                                 or ("ns" in a and "ns" in b and a["ns"] != b["ns"] and len(a["ns"]) == len(b["ns"]))
                                 for ia, a in enumerate(c["steps"]) for b in c["steps"][ia + 1:])
            ctx.hist("history.same_d_changed_steps", same_d_other_n)
        if c["kind"] in ("fit", "mappers"):
            ctx.hist("%s.extras" % c["kind"], ",".join(sorted({v.split(":")[0] for e in c["extras"].values() for v in e.values()})) or "const")
        ctx.oracle["cases"] += 1
        if "exc" in r:
            ctx.oracle["failures"] += 1
            if i in corpus:
                ctx.obligation("regression:" + corpus[i], "regression", False, "implementation raised %s" % r["exc"])
            ctx.failure("oracle", "implementation raised %s: %s" % (r["exc"], r.get("msg")), c, impl=r)
            continue
        fails = oracle_all(c, r["ok"])
        if i in corpus:
            ctx.obligation("regression:" + corpus[i], "regression", not fails, fails[0][0][:300] if fails else "pinned case passes")
        if fails:
            ctx.oracle["failures"] += 1
        small = {k: v for k, v in r["ok"].items() if len(str(v)) < 1500}
        if c["kind"] == "history":
            small = {"steps": [u if "exc" in u else {k: v for k, v in u["ok"].items() if len(str(v)) < 600} for u in r["ok"]["steps"]]}
        for msg, classes in fails:
            ctx.failure("oracle", msg, c, classes=classes, impl=small)
        for cc in coq_cases(c, r["ok"]):
            coq_terms.append(cc)
            coq_idx.append(i)
        if i % 37 == 0:
            small = dict(c)
            small.pop("idx", None)
            ctx.sample({"case": small if len(str(small)) < 400 else {"kind": c["kind"], "n": c.get("n")}}, limit=8)
    # 4. correspondence inside Coq (needs Gen.vo/Model.vo; they build even when a proof is broken)
    if os.path.exists(os.path.join(common.COQ, "C16", "Model.vo")):
        hdr = ctx.header(["Common.PyFloat", "Common.Lists", "Gen", "Machine", "Model"])
        bad, log = ctx.eval_cases(hdr, "case", "check_case", coq_terms, shard=60)
        if bad:
            for b in bad[:5]:
                i = coq_idx[b]
                ctx.failure("correspondence", "model and implementation disagree on a %s case (%s)" % (cases[i]["kind"], coq_terms[b].split(" ")[0]),
                            cases[i], impl=None, broken={"kind": "correspondence", "name": "C16.check_case"},
                            found_input=bool(oracle_all(cases[i], results[i]["ok"])))
    else:
        ctx.obligation("correspondence:cases", "correspondence", False, "Model.vo not built")


MANIFEST = {
    "text": "Coq 8.16 theorems over leaf formulas regenerated from /repo by a fail-closed translator (n^d cells; the k-th job IS the "
            "base-n / mixed-radix multi-index of k; job k's cell is the digit-wise 1-D cell; exact tiling of [lo,hi] by contiguous "
            "disjoint cells; reported limits/centres are those of the cell fitted; results keyed by job number for every completion "
            "order incl. re-delivery (latest wins) and paths pairing; sensitivity counts, positional sorting, unit cells for "
            "limit_scale = 1 equal to the grid-search cells and bounded for every limit_scale >= 0; shape under a 1/2-accurate root; "
            "binary64 count on 1..131072 by a kernel-checked sweep; the grid-search / sensitivity OBJECT as a state machine with an "
            "explicit lattice cache: every answer of every history of uses equals a fresh object's answer for the current "
            "(n, d, limits) for the code's policy (no cache) and for any sound cache, refuted for a cache keyed by d alone) plus bit-exact vm_compute correspondence of the model with the "
            "running code and a direct property oracle on every generated case (single uses and histories of one reused object with attributes "
            "changed between uses, each use also compared with a fresh object), where the likelihood of every fit is a function of "
            "its cell so that every per-cell list (samples, log_likelihoods, native, log_evidences, attribute_grid, builder results "
            "and paths, csv columns by header, sensitivity base/perturbed samples, folder labels) is tied to cell k",
    "note": "Trusted: Coq kernel + vm_compute, primitive floats, the translator pyexpr2coq.py, the correspondence harness; libm pow is an "
            "oracle (binary64 shape swept by the harness on d<=6, n^d<=1e6); tiling is proved over exact rationals (binary64 cells are "
            "compared bit-for-bit by correspondence only); UniformPrior.value_for is modelled as lo+u*(hi-lo) without its 14-decimal "
            "rounding; the order of the grid dimensions is the library's sort_priors_alphabetically (taken as given); 'other parameters "
            "keep their priors' is checked by the oracle only (object identity, sharing structure), not modelled in Coq; completion orders "
            "are steered through a permuting job runner, the real process pool runs in two thorough-tier cases only; in histories the "
            "output folders of earlier uses are removed between uses (resumption of finished cells is not C16's subject), limits change "
            "by replacing prior objects (assigning to a prior's limit attributes leaves its message stale and is not generated), and "
            "real Sensitivity.run steps enter the state-machine correspondence only through their stateless cases. Three genuine defects found by this check (sensitivity csv/folder labels in attribute order; grid cells narrower "
            "than 0.005 sharing a folder; Prior.with_limits keeping the old message) were repaired in /repo (c25e54b, cc931f4, d755794) and are "
            "pinned by corpus/C16 regression obligations; no known finding is open.",
    "technique": "machine-checked proof in Coq (translator-regenerated model) + vm_compute correspondence",
}
