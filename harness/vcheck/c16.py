"""C16 -- grid searches tile the space (DESIGN.md section 5, C16)."""
import os
from . import common
from . import pyexpr2coq as T

GS = "autofit/non_linear/grid/grid_search/__init__.py"
RES = "autofit/non_linear/grid/grid_search/result.py"
SENS = "autofit/non_linear/grid/sensitivity/__init__.py"
PRIOR = "autofit/mapper/prior/abstract.py"


def _listcomp_in_return(fn, which):
    """make_lists: the comprehension of the final return; `which` = 'elt' | 'range'."""
    import ast
    ret = T.returns(fn)[-1].value
    if not isinstance(ret, ast.ListComp):
        raise T.TranslationError("make_lists no longer returns a list comprehension")
    if which == "range":
        gen = ret.generators[0]
        if T._dotted(gen.iter.func) != "range" or len(gen.iter.args) != 1:
            raise T.TranslationError("first generator is not range(<count>)")
        if T._dotted(ret.generators[1].iter) != "sub_lists" or len(ret.generators) != 2:
            raise T.TranslationError("second generator is not `for sub_list in sub_lists`")
        return gen.iter.args[0]
    elt = ret.elt  # [expr] + sub_list
    if not (isinstance(elt, ast.BinOp) and isinstance(elt.op, ast.Add) and isinstance(elt.left, ast.List)
            and len(elt.left.elts) == 1 and T._dotted(elt.right) == "sub_list"):
        raise T.TranslationError("element is not `[value] + sub_list`")
    return elt.left.elts[0]


def _shape_elem(fn):
    import ast
    ret = T.returns(fn)[-1].value  # self.no_dimensions * (X,)
    if not (isinstance(ret, ast.BinOp) and isinstance(ret.op, ast.Mult) and T._dotted(ret.left) == "self.no_dimensions"
            and isinstance(ret.right, ast.Tuple) and len(ret.right.elts) == 1):
        raise T.TranslationError("shape is not `no_dimensions * (side,)`")
    return ret.right.elts[0]


def _listcomp_elt(fn, depth=2):
    import ast
    node = T.returns(fn)[-1].value
    for _ in range(depth):
        if not isinstance(node, ast.ListComp):
            raise T.TranslationError("expected nested list comprehension")
        node = node.elt
    return node


SPECS = [
    T.Spec("gs_step_size", GS, "GridSearch.step_size", lambda f: T.returns(f)[-1], [("number_of_steps", "int")], "float"),
    T.Spec("ml_count", GS, "make_lists", lambda f: _listcomp_in_return(f, "range"), [("step_size", "float")], "int",
           doc="number of lattice points per dimension"),
    T.Spec("ml_value", GS, "make_lists", lambda f: _listcomp_in_return(f, "elt"),
           [("step_size", "float"), ("value", "int"), ("centre_steps", "bool")], "float"),
    T.Spec("prior_width", PRIOR, "Prior.width", lambda f: T.returns(f)[-1], [("lower_limit", "float"), ("upper_limit", "float")], "float"),
    T.Spec("ma_lower", GS, "GridSearch.make_arguments", lambda f: T.assigns(f, "lower_limit")[0],
           [("grid_prior_lower_limit", "float"), ("grid_prior_width", "float"), ("value", "float")], "float"),
    T.Spec("ma_upper", GS, "GridSearch.make_arguments", lambda f: T.assigns(f, "upper_limit")[0],
           [("grid_prior_lower_limit", "float"), ("grid_prior_width", "float"), ("value", "float"), ("step_size", "float")], "float"),
    T.Spec("gsr_side_length", RES, "GridSearchResult.__init__", lambda f: T.assigns(f, "self.side_length")[0],
           [("no_steps", "int"), ("no_dimensions", "int")], "int"),
    T.Spec("gsr_shape_elem", RES, "GridSearchResult.shape", _shape_elem,
           [("no_steps", "int"), ("no_dimensions", "int")], "int"),
    T.Spec("gsr_step_size", RES, "GridSearchResult.__init__", lambda f: T.assigns(f, "self.step_size")[0],
           [("side_length", "int")], "float"),
    T.Spec("gsr_upper", RES, "GridSearchResult.upper_limits_lists", lambda f: _listcomp_elt(f),
           [("limit", "float"), ("step_size", "float")], "float"),
    T.Spec("gsr_centre", RES, "GridSearchResult.centres_lists", lambda f: _listcomp_elt(f),
           [("upper", "float"), ("lower", "float")], "float"),
    T.Spec("sens_step_size", SENS, "Sensitivity.step_size", lambda f: T.returns(f)[-1], [("number_of_steps", "int")], "float"),
]


def regenerate(repo=None):
    return T.generate(repo or common.REPO, SPECS, os.path.join(common.COQ, "C16", "Gen.v"),
                      "C16 leaf formulas of grid search / grid result / sensitivity")


# ---------------------------------------------------------------------------
# check
# ---------------------------------------------------------------------------
from .common import cfloat, cZ, cnat, cbool, clist, copt, cpair


def unhex(s):
    return float(s) if s in ("nan", "inf", "-inf") else float.fromhex(s)


def cfl(rows):
    return clist([clist([cfloat(unhex(x)) for x in r]) for r in rows])


def dyadic_or_random(rng):
    r = rng.random()
    if r < 0.3:
        return rng.randint(-40, 40) / 4.0
    if r < 0.6:
        return round(rng.uniform(-100, 100), rng.randint(0, 6))
    return rng.uniform(-1e3, 1e3) * 10 ** rng.randint(-6, 3)


def prior_range(rng):
    lo = dyadic_or_random(rng)
    w = abs(dyadic_or_random(rng)) + 10 ** rng.randint(-3, 2)
    return lo, lo + w


def gen_cases(ctx):
    rng = ctx.rng
    thorough = ctx.tier == "thorough"
    cases = []
    special_n = [1, 2, 3, 5, 7, 10, 49, 93, 99, 100, 105, 117, 123, 186, 198]
    # lattice: full comparison
    for _ in range(60 if not thorough else 300):
        d = rng.choice([1, 1, 2, 2, 3, 4])
        cap = {1: 400, 2: 24, 3: 8, 4: 5}[d]
        n = rng.choice(special_n) if rng.random() < 0.35 else rng.randint(1, cap)
        n = min(n, cap)
        if rng.random() < 0.5:
            cases.append({"kind": "lists", "n": n, "d": d, "centre": rng.random() < 0.5, "via": "make_lists"})
        else:
            cases.append({"kind": "lists", "n": n, "d": d, "centre": False, "via": "gridsearch"})
    # counts for many n
    ns = set(special_n) | {rng.randint(1, 5000) for _ in range(150 if not thorough else 1500)}
    for n in sorted(ns):
        cases.append({"kind": "count", "n": n})
    # cells
    for _ in range(60 if not thorough else 300):
        d = rng.choice([1, 2, 2, 3])
        cap = {1: 200, 2: 16, 3: 6}[d]
        n = min(rng.choice(special_n) if rng.random() < 0.3 else rng.randint(1, cap), cap)
        priors = []
        for _ in range(d):
            lo, hi = prior_range(rng)
            priors.append([lo.hex(), hi.hex()])
        cases.append({"kind": "cells", "n": n, "priors": priors})
    # model mappers and real fits with permuted completion order
    names = ["alpha", "beta", "gamma", "delta", "eps"]
    for k in range(16 if not thorough else 60):
        npri = rng.randint(2, 5)
        pri = []
        for nm in rng.sample(names, npri):
            lo, hi = prior_range(rng)
            pri.append([nm, lo.hex(), hi.hex()])
        d = rng.randint(1, min(3, npri))
        grid = rng.sample([p[0] for p in pri], d)
        cap = {1: 12, 2: 5, 3: 3}[d]
        n = rng.randint(1, cap)
        cases.append({"kind": "mappers", "n": n, "priors": pri, "grid": grid})
        total = n ** d
        order = list(range(total))
        rng.shuffle(order)
        cases.append({"kind": "fit", "n": n, "priors": pri, "grid": grid, "order": order})
    # result accessors
    for _ in range(40 if not thorough else 200):
        d = rng.choice([1, 2, 3, 4])
        cap = {1: 300, 2: 30, 3: 9, 4: 5}[d]
        n = rng.randint(1, cap)
        step = 1 / n
        import itertools
        lower = [[step * v for v in idx] for idx in itertools.product(range(n), repeat=d)]
        cases.append({"kind": "result", "n": n, "d": d, "lower": [[x.hex() for x in r] for r in lower]})
    # builder: shuffled arrival orders incl. partial arrivals and re-delivery
    for _ in range(60 if not thorough else 300):
        total = rng.randint(1, 30)
        arr = list(range(total))
        rng.shuffle(arr)
        if rng.random() < 0.4:
            arr = arr[: rng.randint(0, total)]
        arrivals = [[k, 1000 + k] for k in arr]
        cases.append({"kind": "builder", "total": total, "arrivals": arrivals})
    # sensitivity
    for _ in range(30 if not thorough else 150):
        d = rng.choice([1, 2, 2, 3])
        cap = {1: 150, 2: 14, 3: 6}[d]
        as_tuple = rng.random() < 0.6
        if as_tuple:
            ns_ = [min(rng.choice(special_n), cap) if rng.random() < 0.3 else rng.randint(1, cap) for _ in range(d)]
        else:
            ns_ = [rng.randint(1, cap)] * d
        cases.append({"kind": "sens_lists", "ns": ns_, "as_tuple": as_tuple})
        arr = list(range(rng.randint(1, 25)))
        rng.shuffle(arr)
        cases.append({"kind": "sens_sorted", "arrivals": arr})
    # real Sensitivity.run() with a permuted completion order
    for _ in range(8 if not thorough else 40):
        d = rng.choice([1, 2, 2, 3])
        cap = {1: 8, 2: 4, 3: 3}[d]
        as_tuple = rng.random() < 0.7
        ns_ = [rng.randint(1, cap) for _ in range(d)] if as_tuple else [rng.randint(1, cap)] * d
        total = 1
        for n_ in ns_:
            total *= n_
        order = list(range(total))
        rng.shuffle(order)
        pri = []
        for _ in range(d):
            lo = float(rng.randint(-4, 4))
            pri.append([lo.hex(), (lo + rng.choice([1.0, 2.0, 4.0, 8.0])).hex()])
        cases.append({"kind": "sens_run", "ns": ns_, "as_tuple": as_tuple, "order": order, "priors": pri})
    return cases


def close(a, b):
    return abs(a - b) <= 1e-9 * max(1.0, abs(a), abs(b))


def oracle(c, r):
    """Direct statement of C16 on the implementation's outputs. Returns None or a message."""
    k = c["kind"]
    if k == "lists":
        L = [[unhex(x) for x in row] for row in r["lists"]]
        n, d = c["n"], c["d"]
        if len(L) != n ** d:
            return "lattice has %d points, expected %d^%d" % (len(L), n, d)
        if any(len(row) != d for row in L):
            return "row of wrong dimension"
        cols = [sorted(set(row[i] for row in L)) for i in range(d)]
        if any(len(col) != n for col in cols):
            return "a dimension has %s distinct values, expected %d" % ([len(col) for col in cols], n)
        for idx, row in enumerate(L):
            rem = idx
            for i in range(d - 1, -1, -1):
                if row[i] != cols[i][rem % n]:
                    return "entry %d is not in row-major order" % idx
                rem //= n
        return None
    if k == "count":
        return None if r["count"] == c["n"] else "make_lists yields %d points for %d steps" % (r["count"], c["n"])
    if k == "cells":
        n, d = c["n"], len(c["priors"])
        cells = [[(unhex(a), unhex(b)) for a, b in row] for row in r["cells"]]
        if len(cells) != n ** d:
            return "%d cells, expected %d" % (len(cells), n ** d)
        for i, (lo, hi) in enumerate(c["priors"]):
            lo, hi = unhex(lo), unhex(hi)
            per = sorted(set(row[i] for row in cells))
            if len(per) != n:
                return "dimension %d has %d distinct cells, expected %d" % (i, len(per), n)
            if not close(per[0][0], lo) or not close(per[-1][1], hi):
                return "cells of dimension %d cover [%r,%r] not [%r,%r]" % (i, per[0][0], per[-1][1], lo, hi)
            for a, b in zip(per, per[1:]):
                if not close(a[1], b[0]):
                    return "cells of dimension %d not contiguous: %r then %r" % (i, a, b)
            if any(not (a < b) for a, b in per):
                return "empty cell"
        return None
    if k == "mappers":
        n, d = c["n"], len(c["grid"])
        ms = r["mappers"]
        if len(ms) != n ** d:
            return "%d models, expected %d" % (len(ms), n ** d)
        for row in ms:
            for nm, lo, hi in c["priors"]:
                got = row[nm]
                if nm not in c["grid"]:
                    if not got[3] or unhex(got[0]) != unhex(lo) or unhex(got[1]) != unhex(hi):
                        return "non-grid prior %s changed" % nm
                elif got[2] != "UniformPrior":
                    return "grid prior not uniform"
        if any(pc != len(c["priors"]) for pc in r["prior_count"]):
            return "prior count changed"
        # tiling of each grid dimension
        for nm in c["grid"]:
            lo, hi = [(unhex(a), unhex(b)) for x, a, b in c["priors"] if x == nm][0]
            per = sorted(set((unhex(row[nm][0]), unhex(row[nm][1])) for row in ms))
            if len(per) != n or not close(per[0][0], lo) or not close(per[-1][1], hi):
                return "grid prior %s not tiled" % nm
            if any(not close(a[1], b[0]) for a, b in zip(per, per[1:])):
                return "grid prior %s cells not contiguous" % nm
        return None
    if k == "fit":
        n, d = c["n"], len(c["grid"])
        if r["shape"] != [n] * d:
            return "shape %s expected %s" % (r["shape"], [n] * d)
        if r["no_steps"] != n ** d or len(r["samples"]) != n ** d:
            return "result has %d cells" % r["no_steps"]
        # k-th sample belongs to k-th cell in row-major order over alphabetically sorted grid priors
        names = sorted(c["grid"])
        pr = {x: (unhex(a), unhex(b)) for x, a, b in c["priors"]}
        for idx, smp in enumerate(r["samples"]):
            rem = idx
            for nm in reversed(names):
                digit = rem % n
                rem //= n
                lo, hi = pr[nm]
                w = hi - lo
                exp_lo = lo + digit * (1 / n) * w
                if not close(unhex(smp[nm][0]), exp_lo):
                    return "sample %d is not the fit of cell %d (prior %s lower %r expected %r)" % (idx, idx, nm, unhex(smp[nm][0]), exp_lo)
        # reported physical cell limits are consistent with the cells fitted
        if r["native_shape"] != [n] * d:
            return "log_likelihoods().native has shape %s" % r["native_shape"]
        for idx, smp in enumerate(r["samples"]):
            for j, nm in enumerate(names):
                lo_, hi_ = unhex(smp[nm][0]), unhex(smp[nm][1])
                pl, pu, pc = unhex(r["physical_lower"][idx][j]), unhex(r["physical_upper"][idx][j]), unhex(r["physical_centres"][idx][j])
                if not (close(pl, lo_) and close(pu, hi_) and close(pc, (lo_ + hi_) / 2)):
                    return ("reported physical limits/centre of cell %d (%r, %r, %r) are not those of the cell fitted (%r, %r)"
                            % (idx, pl, pu, pc, lo_, hi_))
        rows = sorted(r["csv"])
        if [x[0] for x in rows] != list(range(n ** d)):
            return "results.csv does not list every cell once"
        for row in rows:
            smp = r["samples"][row[0]]
            if [unhex(x) for x in row[1:]] != [unhex(smp[nm][0]) for nm in names]:
                return "results.csv row %d does not describe cell %d" % (row[0], row[0])
        return None
    if k == "result":
        n, d = c["n"], c["d"]
        if r["shape"] != [n] * d or r["side_length"] != n:
            return "shape %s side %s for n=%d d=%d" % (r["shape"], r["side_length"], n, d)
        return None
    if k == "builder":
        arrived = dict((a, t) for a, t in c["arrivals"])
        exp = [arrived.get(i) for i in range(c["total"])]
        return None if r["summaries"] == exp else "summaries not in job-number order"
    if k == "sens_lists":
        tot = 1
        for n in c["ns"]:
            tot *= n
        if len(r["lists"]) != tot:
            return "sensitivity lattice has %d points for steps %s" % (len(r["lists"]), c["ns"])
        if r["shape"] != c["ns"]:
            return "sensitivity shape %s for steps %s" % (r["shape"], c["ns"])
        L = [[unhex(x) for x in row] for row in r["lists"]]
        for i, n in enumerate(c["ns"]):
            col = sorted(set(row[i] for row in L))
            if len(col) != n:
                return "sensitivity dimension %d has %d distinct centres for %d steps" % (i, len(col), n)
            if any(not close(v, (j + 0.5) / n) for j, v in enumerate(col)):
                return "sensitivity centres of dimension %d are not the cell centres" % i
        for idx, row in enumerate(L):
            rem = idx
            for i in range(len(c["ns"]) - 1, -1, -1):
                n = c["ns"][i]
                if not close(row[i], (rem % n + 0.5) / n):
                    return "sensitivity entry %d is not in row-major order" % idx
                rem //= n
        return None
    if k == "sens_run":
        ns = c["ns"]
        tot = 1
        for n in ns:
            tot *= n
        if r["shape"] != ns or r["n"] != tot or r["n_perturb"] != tot:
            return "sensitivity result has shape %s and %d entries for steps %s" % (r["shape"], r["n"], ns)
        pri = [(unhex(a), unhex(b)) for a, b in c["priors"]]
        for idx, cell in enumerate(r["cells"]):
            rem = idx
            for i in range(len(ns) - 1, -1, -1):
                n = ns[i]
                j = rem % n
                rem //= n
                lo, hi = pri[i]
                exp = (lo + (j / n) * (hi - lo), lo + ((j + 1) / n) * (hi - lo))
                got = (unhex(cell[i][0]), unhex(cell[i][1]))
                if not (close(got[0], exp[0]) and close(got[1], exp[1])):
                    return ("entry %d of the sensitivity result was fitted on %r in dimension %d, but cell %d is %r "
                            "(completion order %s)" % (idx, got, i, idx, exp, c["order"]))
        if sorted(r["csv_index"]) != list(range(tot)):
            return "results.csv does not list every cell once"
        return None
    if k == "sens_sorted":
        return None if r["numbers"] == sorted(c["arrivals"]) else "sensitivity results not sorted by number"
    return "unknown kind"


def coq_case(c, r):
    k = c["kind"]
    if k == "lists":
        if c.get("via") == "gridsearch":
            return "CGridLists %s %s %s" % (cZ(c["n"]), cnat(c["d"]), cfl(r["lists"]))
        return "CLists %s %s %s %s" % (cZ(c["n"]), cnat(c["d"]), cbool(c["centre"]), cfl(r["lists"]))
    if k == "count":
        return "CCount %s %s" % (cZ(c["n"]), cZ(r["count"]))
    if k == "cells":
        pri = clist([cpair(cfloat(unhex(a)), cfloat(unhex(b))) for a, b in c["priors"]])
        exp = clist([clist([cpair(cfloat(unhex(a)), cfloat(unhex(b))) for a, b in row]) for row in r["cells"]])
        return "CCells %s %s %s" % (cZ(c["n"]), pri, exp)
    if k == "fit":
        names = sorted(c["grid"])
        pr = {x: (a, b) for x, a, b in c["priors"]}
        pri = clist([cpair(cfloat(unhex(pr[nm][0])), cfloat(unhex(pr[nm][1]))) for nm in names])
        exp = clist([clist([cpair(cfloat(unhex(s[nm][0])), cfloat(unhex(s[nm][1]))) for nm in names]) for s in r["samples"]])
        return "CCells %s %s %s" % (cZ(c["n"]), pri, exp)
    if k == "result":
        ns, nd = len(c["lower"]), len(c["lower"][0])
        base, ex = float(ns), 1 / nd
        pt = clist(["(%s, %s, %s)" % (cfloat(base), cfloat(ex), cfloat(base ** ex))])
        return "CResult %s %s %s %s %s %s %s" % (
            pt, cfl(c["lower"]), clist([cZ(x) for x in r["shape"]]), cZ(r["side_length"]),
            cfloat(unhex(r["step_size"])), cfl(r["upper"]), cfl(r["centres"]))
    if k == "builder":
        return "CBuilder %s %s %s" % (cnat(c["total"]), clist([cpair(cZ(a), cZ(t)) for a, t in c["arrivals"]]),
                                      clist([copt(x, cZ) for x in r["summaries"]]))
    if k == "sens_lists":
        return "CSensLists %s %s %s" % (clist([cZ(n) for n in c["ns"]]), cfl(r["lists"]), clist([cZ(x) for x in r["shape"]]))
    if k == "sens_sorted":
        return "CSensSorted %s %s" % (clist([cZ(x) for x in c["arrivals"]]), clist([cZ(x) for x in r["numbers"]]))
    if k == "sens_run":
        # identify the cell each result entry was fitted on (by its limits), then compare the
        # order with the model's sorted collection of the arrivals
        ns = c["ns"]
        pri = [(unhex(a), unhex(b)) for a, b in c["priors"]]
        numbers = []
        for cell in r["cells"]:
            num = 0
            for i, n in enumerate(ns):
                lo, hi = pri[i]
                j = int(round((unhex(cell[i][0]) - lo) / (hi - lo) * n))
                num = num * n + j
            numbers.append(num)
        return "CSensSorted %s %s" % (clist([cZ(x) for x in c["order"]]), clist([cZ(x) for x in numbers]))
    return None


def nontrivial(c):
    k = c["kind"]
    if k in ("lists", "cells", "result"):
        return c["n"] >= 2
    if k == "count":
        return c["n"] >= 3
    if k in ("mappers", "fit"):
        return c["n"] >= 2 and (k == "mappers" or c["order"] != sorted(c["order"]))
    if k == "builder":
        return [a for a, _ in c["arrivals"]] != sorted(a for a, _ in c["arrivals"])
    if k == "sens_lists":
        return max(c["ns"]) >= 2
    if k == "sens_sorted":
        return c["arrivals"] != sorted(c["arrivals"])
    if k == "sens_run":
        return c["order"] != sorted(c["order"])
    return False


def run(ctx):
    ctx.rule = ("cases are abstract grid-search inputs (kinds: lattice, count, cells, model mappers, real fits with a permuted "
                "completion order through GridSearch._fit, GridSearchResult accessors, ResultBuilder arrival orders, sensitivity "
                "lattices/sorting); a case is non-trivial when n >= 2 (count: n >= 3) and, for ordered kinds, the completion order "
                "differs from job order; distinct = distinct abstract input")
    ctx.trusted = [
        "Coq 8.16.1 kernel incl. vm_compute; primitive floats (PrimFloat, Uint63) are kernel primitives",
        "harness/vcheck/pyexpr2coq.py (leaf-formula translator, fail-closed) regenerating coq/C16/Gen.v from /repo on every run",
        "correspondence harness c16.py / impl/c16_impl.py; Python float.hex, float.__pow__ (oracle table for **(1/d))",
        "modelled not verified: UniformPrior construction, model.mapper_from_partial_prior_arguments, sort_priors_alphabetically, "
        "MockSearch fits, Process pool scheduling (completion order is steered by a permuting process class)",
    ]
    ctx.assumptions = [
        "C16_count_float is a finite sweep 1<=n<=200000 over the generated binary64 formula (bound stated in the theorem)",
        "C16_shape assumes the d-th root is computed to within 1/2 of n (libm pow is an oracle)",
        "tiling theorems are over exact rationals; binary64 cells are compared bit-for-bit by correspondence and to 1e-9 by the oracle",
    ]
    # 1. translator
    try:
        infos = regenerate()
        ctx.translated = {k: {"source": v["source"], "line": v["line"]} for k, v in infos.items()}
        ctx.obligation("translator:Gen.v", "translator", True, "%d expressions" % len(infos))
        translated = True
    except T.TranslationError as e:
        ctx.obligation("translator:Gen.v", "translator", False, str(e))
        translated = False
    # 2. proofs
    built = ctx.build() if translated else False
    # 3. cases
    cases = gen_cases(ctx)
    if ctx.replay:
        import json
        rp = json.load(open(ctx.replay))
        if rp.get("case"):
            cases = [rp["case"]]
    res = common.run_impl("c16_impl", {"cases": cases}, timeout=1500)
    if "__error__" in res:
        ctx.obligation("impl-driver", "harness", False, res["__error__"][-800:])
        return
    results = res["results"]
    coq_cases, coq_idx = [], []
    for i, (c, r) in enumerate(zip(cases, results)):
        ctx.count_case({k: v for k, v in c.items() if k != "idx"}, nontrivial(c), c["kind"])
        ctx.oracle["cases"] += 1
        if "exc" in r:
            ctx.oracle["failures"] += 1
            ctx.failure("oracle", "implementation raised %s: %s" % (r["exc"], r.get("msg")), c, impl=r)
            continue
        msg = oracle(c, r["ok"])
        if msg:
            ctx.oracle["failures"] += 1
            ctx.failure("oracle", msg, c, impl=r["ok"])
        cc = coq_case(c, r["ok"])
        if cc:
            coq_cases.append(cc)
            coq_idx.append(i)
        if i % 37 == 0:
            small = dict(c)
            small.pop("idx", None)
            ctx.sample({"case": small if len(str(small)) < 400 else {"kind": c["kind"], "n": c.get("n")}}, limit=8)
    # 4. correspondence inside Coq (needs Gen.vo/Model.vo; they build even when a proof is broken)
    if os.path.exists(os.path.join(common.COQ, "C16", "Model.vo")):
        hdr = ctx.header(["Common.PyFloat", "Common.Lists", "Gen", "Model"])
        bad, log = ctx.eval_cases(hdr, "case", "check_case", coq_cases, shard=60)
        if bad:
            for b in bad[:5]:
                i = coq_idx[b]
                ctx.failure("correspondence", "model and implementation disagree on a %s case" % cases[i]["kind"],
                            cases[i], impl=results[i].get("ok"), broken={"kind": "correspondence", "name": "C16.check_case"},
                            found_input=oracle(cases[i], results[i]["ok"]) is not None)
    else:
        ctx.obligation("correspondence:cases", "correspondence", False, "Model.vo not built")


MANIFEST = {
    "text": "Coq 8.16 theorems over leaf formulas regenerated from /repo by a fail-closed translator (n^d cells, row-major order, exact "
            "tiling of [lo,hi] by contiguous disjoint cells, results keyed by job number for every completion order, sensitivity counts "
            "and sorting, shape under a 1/2-accurate root, binary64 count on 1..131072 by a kernel-checked sweep) plus bit-exact vm_compute "
            "correspondence of the model with the running code and a direct property oracle on every generated case",
    "note": "Trusted: Coq kernel + vm_compute, primitive floats, the translator pyexpr2coq.py, the correspondence harness; libm pow is an "
            "oracle; tiling is proved over exact rationals (binary64 cells are compared bit-for-bit by correspondence only); completion "
            "orders are steered through a permuting process class, not through real OS scheduling.",
    "technique": "machine-checked proof in Coq (translator-regenerated model) + vm_compute correspondence",
}
