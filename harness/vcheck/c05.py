"""C05 -- reported samples are faithful to the likelihood (DESIGN.md section 5, C05).

Cases
  conv : conversion level.  A composition program (shared / fixed / nested parameters, priors
         created in a permuted order so that id order differs from walk order), an abstract sampler
         state whose log-probabilities satisfy the sampler contract for the likelihood L of the
         program, and the search class whose real conversion function is run on it.
  e2e  : the real third-party sampler is run through `search.fit`; the sampler's own arrays are
         read back as the abstract sampler state (and must satisfy the sampler contract: `contract_fails`).
  init : AbstractInitializer.samples_from_model on a scripted fitness, n_cores in {1, 2, 3}.
For every case: the property oracle (below, independent of the Coq model: recomputes L from each
returned sample's own kwargs) and the correspondence (Coq model of the conversion, bit exact).
"""
import ast
import json
import math
import os

from . import common
from .common import cfloat, cZ, cnat, cbool, clist, copt, cpair

EMCEE = "autofit/non_linear/search/mcmc/emcee/search.py"
ZEUS = "autofit/non_linear/search/mcmc/zeus/search.py"


def unhex(s):
    return float(s) if s in ("nan", "inf", "-inf") else float.fromhex(s)


# ---------------------------------------------------------------------------
# which log-prob call does the MCMC conversion make?  (tiny fail-closed source reader: the
# model has both variants; the pinned code is `unaligned`, the proposed repair is `aligned`)
# ---------------------------------------------------------------------------

class SourceShapeError(Exception):
    pass


def logprob_variant(repo, rel, cls):
    """Returns 'aligned' when samples_via_internal_from reads the log-probabilities with the same
    discard/thin as the chain, 'unaligned' for the pinned shapes, raises otherwise."""
    src = open(os.path.join(repo, rel)).read()
    tree = ast.parse(src)
    fn = None
    for node in ast.walk(tree):
        if isinstance(node, ast.ClassDef) and node.name == cls:
            for f in node.body:
                if isinstance(f, ast.FunctionDef) and f.name == "samples_via_internal_from":
                    fn = f
    if fn is None:
        raise SourceShapeError("%s.samples_via_internal_from not found" % cls)
    target = None
    for node in ast.walk(fn):
        if isinstance(node, ast.Assign) and len(node.targets) == 1 and isinstance(node.targets[0], ast.Name) \
                and node.targets[0].id == "log_posterior_list":
            target = node.value
    if target is None:
        raise SourceShapeError("%s: no assignment to log_posterior_list" % cls)
    text = ast.unparse(target).replace(" ", "")
    aligned = "search_internal.get_log_prob(discard=discard,thin=thin,flat=True).tolist()"
    aligned2 = "search_internal.get_log_prob(flat=True,discard=discard,thin=thin).tolist()"
    pinned = {
        "Emcee": "search_internal.get_log_prob(flat=True)[-total_samples-1:-1].tolist()",
        "Zeus": "search_internal.get_log_prob(flat=True).tolist()",
    }[cls]
    if text in (aligned, aligned2):
        # in the aligned variant discard/thin must be the names used for get_chain in the same function
        return "aligned"
    if text == pinned:
        return "unaligned"
    raise SourceShapeError("%s: unrecognised log_posterior_list expression: %s" % (cls, text[:160]))


PYSWARMS = "autofit/non_linear/search/mle/pyswarms/search/abstract.py"


def pyswarms_variant(repo):
    """'pinned' (particle 0 of each iteration + best-cost history) or 'pbest' (the particles' personal bests
    with their own costs: proposed_fixes/C05-pyswarms-pbest-samples); anything else fails closed."""
    tree = ast.parse(open(os.path.join(repo, PYSWARMS)).read())
    fn = None
    for node in ast.walk(tree):
        if isinstance(node, ast.ClassDef) and node.name == "AbstractPySwarms":
            for f in node.body:
                if isinstance(f, ast.FunctionDef) and f.name == "samples_via_internal_from":
                    fn = f
    if fn is None:
        raise SourceShapeError("AbstractPySwarms.samples_via_internal_from not found")
    assigns, rows_arg = {}, None
    for node in ast.walk(fn):
        if isinstance(node, ast.Assign) and len(node.targets) == 1 and isinstance(node.targets[0], ast.Name):
            assigns[node.targets[0].id] = ast.unparse(node.value).replace(" ", "")
        if isinstance(node, ast.Call) and ast.unparse(node.func) == "Sample.from_lists":
            for kw in node.keywords:
                if kw.arg == "parameter_lists":
                    rows_arg = ast.unparse(kw.value)
    pinned = (rows_arg == "parameter_lists_2"
              and assigns.get("parameter_lists_2") == "[parameters.tolist()[0]forparametersinpos_history]"
              and assigns.get("parameter_lists") == "[param.tolist()forparametersinpos_historyforparaminparameters]"
              and assigns.get("log_posterior_list") == "search_internal_dict['log_posterior_list']")
    pbest = (rows_arg == "parameter_lists"
             and assigns.get("swarm") == "search_internal.swarm"
             and assigns.get("parameter_lists") == "swarm.pbest_pos.tolist()"
             and assigns.get("log_posterior_list") == "[-0.5*costforcostinswarm.pbest_cost]")
    if pinned:
        return "pinned"
    if pbest:
        return "pbest"
    raise SourceShapeError("PySwarms conversion has an unrecognised shape: rows=%r %r" % (rows_arg, {k: assigns.get(k) for k in
                           ("parameter_lists", "parameter_lists_2", "log_posterior_list", "swarm")}))


# ---------------------------------------------------------------------------
# composition programs
# ---------------------------------------------------------------------------

SIG = {"G2": ["a", "b"], "G3": ["x", "y", "z"], "N1": ["inner", "s"]}


class SpecGen:
    def __init__(self, rng, max_priors):
        self.rng = rng
        self.max_priors = max_priors
        self.priors = []
        self.features = set()

    def new_prior(self):
        rng = self.rng
        lo = rng.choice([-2.0, -1.0, 0.0, 0.5, 1.0])
        w = rng.choice([1.0, 2.0, 4.0])
        if rng.random() < 0.35:
            self.features.add("gaussian")
            p = {"family": "gaussian", "mean": (lo + w / 2).hex(), "sigma": (w / 4).hex(), "lo": lo.hex(), "hi": (lo + w).hex()}
        else:
            p = {"family": "uniform", "lo": lo.hex(), "hi": (lo + w).hex()}
        self.priors.append(p)
        return len(self.priors) - 1

    def leaf(self):
        rng = self.rng
        r = rng.random()
        if self.priors and (r < 0.22 or len(self.priors) >= self.max_priors):
            if r < 0.22 or rng.random() < 0.5:
                self.features.add("shared")
                return {"t": "prior", "ref": rng.randrange(len(self.priors))}
            self.features.add("fixed")
            return {"t": "const", "v": (rng.randint(-8, 8) / 4.0).hex()}
        if r > 0.85 and self.priors:
            self.features.add("fixed")
            return {"t": "const", "v": (rng.randint(-8, 8) / 4.0).hex()}
        return {"t": "prior", "ref": self.new_prior()}

    def model(self, depth):
        rng = self.rng
        cls = rng.choice(["G2", "G2", "G3", "N1"] if depth < 2 else ["G2", "G3"])
        args = []
        for a in SIG[cls]:
            if cls == "N1" and a == "inner":
                self.features.add("nested")
                args.append([a, {"t": "model", "cls": "G2", "args": [[b, self.leaf()] for b in SIG["G2"]]}])
            else:
                args.append([a, self.leaf()])
        return {"t": "model", "cls": cls, "args": args}

    def coll(self, depth, shape=None):
        """shape (root only): "list" = af.Collection([..]) whose item names are "0", "1", ...; "alias" = one Model
        OBJECT appears twice in the container (every prior of it under two paths); "names" = legal but unusual
        attribute names (digits, underscores, a name the Sample class itself uses)."""
        rng = self.rng
        n = rng.randint(1, 3 if depth == 0 else 2)
        if shape == "alias":
            n = max(n, 2)
        names = ["g%d" % i for i in range(n)]
        if shape == "list":
            names = [str(i) for i in range(n)]
        elif shape == "names":
            # (not a trailing underscore: the MLE searches' plots label parameters `z^{\rm <component>}` and matplotlib's
            #  mathtext rejects `x1_}` -- the fit dies in the plotter and returns no result: outside C05's statement)
            names = ["g_0", "weight", "x1_y"][:n]
        items = []
        for i in range(n - 1 if shape == "alias" else n):
            if shape is None and depth < 1 and rng.random() < 0.25:
                self.features.add("nested")
                items.append(["sub%d" % i, self.coll(depth + 1)])
            else:
                items.append([names[i], self.model(depth + 1)])
        node = {"t": "coll", "items": items}
        if shape == "list":
            node["list"] = True
        if shape == "alias":
            items.append([names[n - 1], {"t": "alias", "of": names[rng.randrange(0, n - 1)]}])
        if shape:
            self.features.add("shape:" + shape)
        return node


SHAPES = [None, "root-model", "list", "alias", "names"]


def gen_spec(rng, max_priors=5, shape=None):
    g = SpecGen(rng, max_priors)
    if shape == "root-model":
        # the model handed to the search is a single af.Model: every path has one name
        root = g.model(1)
        while not g.priors:
            root = g.model(1)
        g.features.add("shape:root-model")
    else:
        root = g.coll(0, shape)
        if shape == "alias" and not g.priors:          # the aliased object must carry a prior
            return gen_spec(rng, max_priors, shape)
    creation = list(range(len(g.priors)))
    if rng.random() < 0.65:
        rng.shuffle(creation)
    if creation != sorted(creation):
        g.features.add("permuted-ids")
    return {"priors": g.priors, "creation": creation, "root": root, "features": sorted(g.features)}


def leaves(node, prefix=()):
    """[(path string, ('p', ref) | ('c', value))] in constructor order."""
    t = node["t"]
    if t == "prior":
        return [(".".join(prefix), ("p", node["ref"]))]
    if t == "const":
        return [(".".join(prefix), ("c", unhex(node["v"])))]
    out = []
    seen = {}
    for name, sub in (node["args"] if t == "model" else node["items"]):
        if sub["t"] == "alias":
            sub = seen[sub["of"]]
        seen[name] = sub
        out += leaves(sub, prefix + (name,))
    return out


def terms_of(rng, spec):
    """Separable quadratic likelihood: one term (path, c, t) per leaf.  The optimum of a Gaussian-prior
    parameter is never at the prior mean, so that its log prior is non-zero where the samplers end up."""
    terms = []
    for path, (kind, x) in leaves(spec["root"]):
        c = rng.choice([0.5, 1.0, 1.5, 2.0, 3.0, 5.0])
        if kind == "p":
            p = spec["priors"][x]
            lo, hi = unhex(p["lo"]), unhex(p["hi"])
            fr = [0.25, 0.375, 0.625, 0.75] if p["family"] == "gaussian" else [0.25, 0.375, 0.5, 0.625, 0.75]
            t = lo + (hi - lo) * rng.choice(fr)
        else:
            t = x + rng.choice([-0.5, 0.25, 1.0])
        terms.append([path.split("."), c, t])
    return terms


def col_of(spec):
    return {k: i for i, k in enumerate(spec["creation"])}


def L_of_values(spec, terms, value_of_prior):
    """The likelihood of SpecAnalysis, evaluated from per-prior values (same operation order)."""
    kind = dict(leaves(spec["root"]))
    total = 0.0
    for path, c, t in terms:
        k, x = kind[".".join(path)]
        v = value_of_prior[x] if k == "p" else x
        total += c * (v - t) ** 2
    return -total


def L_of_vector(spec, terms, vec):
    col = col_of(spec)
    return L_of_values(spec, terms, {k: vec[col[k]] for k in col})


def rand_vec(rng, spec):
    out = []
    for k in spec["creation"]:
        p = spec["priors"][k]
        lo, hi = unhex(p["lo"]), unhex(p["hi"])
        out.append(rng.uniform(lo, hi) if rng.random() < 0.8 else lo + (hi - lo) * rng.randint(0, 16) / 16.0)
    return out


def hexvec(v):
    return [("nan" if math.isnan(x) else "inf" if x == float("inf") else "-inf" if x == float("-inf") else float(x).hex()) for x in v]


CONV_SEARCHES = ["emcee", "zeus", "dynesty_static", "dynesty_dynamic", "nautilus", "ultranest", "bfgs", "lbfgs",
                 "drawer", "pyswarms_global", "pyswarms_local", "from_lists"]


def special_rows(spec, terms):
    """Legal but unusual points: the exact optimum of the likelihood (L = -0.0 when no parameter is fixed or shared),
    0.0 / -0.0 wherever the prior allows it, the lower limits."""
    first_t = {}
    for (path, (kind, x)), (_, c, t) in zip(leaves(spec["root"]), terms):
        if kind == "p":
            first_t.setdefault(x, t)
    opt = [first_t[k] for k in spec["creation"]]
    zeros, los = [], []
    for i, k in enumerate(spec["creation"]):
        p = spec["priors"][k]
        lo, hi = unhex(p["lo"]), unhex(p["hi"])
        zeros.append((0.0 if i % 2 == 0 else -0.0) if lo <= 0.0 <= hi else lo)
        los.append(lo)
    return [opt, zeros, los]


def inject(rng, rows, spec, terms, hist):
    """Overwrites up to three entries of a non-empty list of parameter vectors with the special points (one of
    them twice: equal but distinct rows)."""
    if not rows:
        return
    sp = special_rows(spec, terms)
    sp.append(list(sp[0]))
    for v in sp:
        if rng.random() < 0.6:
            rows[rng.randrange(len(rows))] = list(v)
            hist.add("special-row")


def gen_conv(rng, search, spec=None, shape=None, history=False, variant=None):
    spec = spec or gen_spec(rng, shape=shape)
    terms = terms_of(rng, spec)
    L = lambda v: L_of_vector(spec, terms, v)
    st = {}
    special = set()
    if search in ("emcee", "zeus"):
        S = rng.randint(8, 28)
        W = rng.randint(2, 5)
        chain = [[rand_vec(rng, spec) for _ in range(W)] for _ in range(S)]
        for step in chain[-4:]:
            if rng.random() < 0.5:
                inject(rng, step, spec, terms, special)
        r = rng.random()
        if r < 0.06:
            tau = rng.uniform(0.2, 1.99)          # thin = 0 -> the sampler raises
        elif r < 0.16:
            tau = rng.uniform(S / 3.0, S / 3.0 + 2)  # discard >= steps -> no samples
        else:
            tau = rng.uniform(2.0, max(2.1, S / 3.0 - 0.34))
        st = {"chain": [[hexvec(v) for v in step] for step in chain], "L": [[L(v).hex() for v in step] for step in chain],
              "tau": tau.hex(), "check_size": rng.randint(1, 3)}
    elif search in ("dynesty_static", "dynesty_dynamic", "nautilus", "ultranest"):
        n = rng.choice([1, 1, 2]) if rng.random() < 0.1 else rng.randint(3, 40)
        rows = [rand_vec(rng, spec) for _ in range(n)]
        if n > 3 and rng.random() < 0.3:
            rows[rng.randrange(n)] = list(rows[0])     # a repeated point (ties)
        if rng.random() < 0.5:
            inject(rng, rows, spec, terms, special)
        st = {"rows": [hexvec(v) for v in rows], "L": [L(v).hex() for v in rows]}
        logwt = [rng.uniform(-30.0, 0.0) for _ in range(n)]
        st["logwt"] = hexvec(logwt)
        z, logz = -40.0, []
        for _ in range(max(n, 1)):
            z += rng.uniform(0.0, 2.0)
            logz.append(z)
        st["logz"] = hexvec(logz)
        st["weights"] = hexvec([rng.choice([0.0, rng.random()]) if rng.random() < 0.2 else rng.random() for _ in range(n)])
    elif search in ("bfgs", "lbfgs"):
        x = rand_vec(rng, spec)
        vis = rng.random() < 0.5
        st = {"x": hexvec(x), "Lx": L(x).hex(), "visualize": vis}
        if vis:
            hist = [rand_vec(rng, spec) for _ in range(rng.randint(0, 7))]
            if rng.random() < 0.5:
                inject(rng, hist, spec, terms, special)
            hist = hist + [x]
            st["hist"] = [hexvec(v) for v in hist]
            st["hist_L"] = [L(v).hex() for v in hist]
    elif search == "drawer":
        n = rng.randint(1, 25)
        rows = [rand_vec(rng, spec) for _ in range(n)]
        if rng.random() < 0.5:
            inject(rng, rows, spec, terms, special)
        st = {"rows": [hexvec(v) for v in rows], "L": [L(v).hex() for v in rows]}
        if n > 1 and rng.random() < 0.2:
            st["drop"] = rng.randint(1, n - 1)      # fewer log-posteriors than parameter vectors (zip truncation)
    elif search in ("pyswarms_global", "pyswarms_local"):
        T = rng.randint(1, 7)
        P = rng.randint(1, 5)
        pos = [[rand_vec(rng, spec) for _ in range(P)] for _ in range(T)]
        for it in pos:
            if rng.random() < 0.3:
                inject(rng, it, spec, terms, special)
        st = {"pos": [[hexvec(v) for v in it] for it in pos], "L": [[L(v).hex() for v in it] for it in pos]}
    elif search == "from_lists":
        n = rng.randint(0, 12)
        rows = [rand_vec(rng, spec) for _ in range(n)]
        lens = [n, n, n]
        if n and rng.random() < 0.4:
            lens[rng.randrange(3)] = rng.randint(0, n)
        st = {"rows": [hexvec(v) for v in rows],
              "ll": hexvec([rng.uniform(-50, 0) for _ in range(lens[0])]),
              "lp": hexvec([rng.choice([0.0, rng.uniform(0, 3)]) for _ in range(lens[1])]),
              "w": hexvec([rng.random() for _ in range(lens[2])])}
        r = rng.random()
        if st["ll"] and r < 0.12:             # -inf (the resample value of several searches) among the likelihoods
            lls = [unhex(x) for x in st["ll"]]
            lls[rng.randrange(len(lls))] = float("-inf")
            st["ll"] = hexvec(lls)
        elif st["ll"] and r < 0.2:            # NaN: `>` is false both ways (a NaN in front is reported as best)
            lls = [unhex(x) for x in st["ll"]]
            lls[rng.choice([0, rng.randrange(len(lls))])] = float("nan")
            st["ll"] = hexvec(lls)
        if n > 2 and rng.random() < 0.5:      # ties for the maximum: the first one must win
            lls = [unhex(x) for x in st["ll"]]
            if len(lls) > 2:
                m = max(lls)
                lls[rng.randrange(len(lls))] = m
                st["ll"] = hexvec(lls)
        r = rng.random() if variant is None or variant >= 10 else 0.0
        if st["ll"] and r < 0.45:
            # unusual but legal values: a maximum that is exactly 0.0 / -0.0 (falsy), whole numbers, zero weights
            lls = [unhex(x) for x in st["ll"]]
            modes = ["zero-max", "negzero-max", "both-zeros", "whole", "all-equal"]
            mode = rng.choice(modes) if variant is None or variant >= 10 else modes[variant % 5]
            if mode == "whole":
                lls = [x if math.isnan(x) or math.isinf(x) else float(math.floor(x)) for x in lls]
                lls[rng.randrange(len(lls))] = 0.0
            elif mode == "all-equal":
                lls = [rng.choice([0.0, -0.0, -1.0])] * len(lls)
            else:
                lls = [x if math.isnan(x) or x < 0 else -1.0 for x in lls]
                i = rng.randrange(len(lls))
                lls[i] = 0.0 if mode != "negzero-max" else -0.0
                if mode == "both-zeros" and len(lls) > 1:
                    lls[(i + 1 + rng.randrange(len(lls) - 1)) % len(lls)] = -0.0
            st["ll"] = hexvec(lls)
            ws = [unhex(x) for x in st["w"]]
            if ws:
                ws[rng.randrange(len(ws))] = 0.0
                st["w"] = hexvec(ws)
            special.add("ll:" + mode)
        st["scalar"] = rng.choice(["float", "float", "np", "int"]) if variant is None else ["float", "np", "int"][variant % 3]
        if rows and rng.random() < 0.5:
            inject(rng, rows, spec, terms, special)
            st["rows"] = [hexvec(v) for v in rows]
    else:
        raise ValueError(search)
    case = {"kind": "conv", "search": search, "spec": spec, "terms": terms, "state": st, "special": sorted(special),
            "spec_paths": [p for p, _ in leaves(spec["root"])]}
    if history:
        # the same search object and model object have converted another sampler state before (other arrays and
        # lengths; for BFGS the other `visualize` setting), and convert this one twice
        for _ in range(20):
            prev = gen_conv(rng, search, spec)["state"]
            if search not in ("bfgs", "lbfgs") or prev["visualize"] != st["visualize"]:
                break
        case["history"] = "reuse"
        case["prev_state"] = prev
    return case


def gen_init(rng, history=False, falsy=False, shape=None):
    """AbstractInitializer.samples_from_model driven by a scripted fitness."""
    spec = gen_spec(rng, max_priors=3, shape=shape)
    kinds = ["fitexc", "nan", "low", "neginf"]

    def gen_bands(total):
        bands, lo = [], 0.0
        for k in rng.sample(kinds, rng.randint(0, 3)):
            w = rng.choice([0.1, 0.15, 0.25])
            bands.append([lo, lo + w, k])
            lo += w
        if total >= 5 and (falsy or rng.random() < 0.3):
            # a LEGAL figure of merit that is falsy or not a Python float: exactly 0.0, -0.0, an int, a 0-d array
            # (only with >= 5 points: two equal figures of merit alone would raise InitializerException)
            bands.append([lo, lo + 0.1, rng.choice(["zero", "negzero", "int", "np0d"])])
        return bands

    total = rng.choice([5, 8, 13]) if falsy else rng.choice([1, 2, 3, 5, 8, 13])
    st = {"total": total, "cores": rng.choice([1, 2, 2, 3, 3]), "bands": gen_bands(total), "delay": rng.choice([0.0, 0.003])}
    if history:
        # the same initializer object has served another call before (other size, cores, rejection bands); the
        # caller has edited the lists that call returned
        pt = rng.choice([1, 2, 3, 5])
        st["prev"] = {"total": pt, "cores": rng.choice([1, 2, 3]), "bands": gen_bands(0)}
    return {"kind": "init", "search": "initializer", "spec": spec, "seed": rng.randrange(10 ** 6), "state": st}


def init_value(params):
    total = 0.0
    for i, v in enumerate(params):
        total = total + (i + 1.0) * (v * v)
    return -total


def init_kind(bands, params):
    frac = (abs(params[0]) * 7.3) % 1.0
    for lo, hi, kind in bands:
        if lo <= frac < hi:
            return kind
    return "value"


INIT_VALID = {"zero": 0.0, "negzero": -0.0, "int": -3.0}


def init_oracle(c, r):
    """Every returned (parameters, figure of merit) pair: the figure of merit is the fitness of those very
    parameters, none of them is a rejected point, and total_points pairs come back."""
    st = c["state"]
    out = []
    if not (len(r["params"]) == len(r["foms"]) == len(r["units"]) == st["total"]):
        out.append(("count", "asked for %d points, got %d parameter vectors / %d unit vectors / %d figures of merit"
                    % (st["total"], len(r["params"]), len(r["units"]), len(r["foms"]))))
    valid = [(d[0], d[1], d[2]) for d in r["draws"] if d[2] is not None]
    got = list(zip(r["units"], r["params"], r["foms"]))
    if len(got) == st["total"] and valid != got:
        out.append(("filter", "the points returned are not exactly the drawn points with a legal figure of merit, in drawing order: "
                    "%d legal draws (figures of merit %r), %d returned" % (len(valid), [unhex(v[2]) for v in valid][:8], len(got))))
    drawn = {tuple(d[1]): d[0] for d in r["draws"]}
    for i, (u, p, f) in enumerate(zip(r["units"], r["params"], r["foms"])):
        vec = [unhex(x) for x in p]
        k = init_kind(st["bands"], vec)
        want = INIT_VALID[k] if k in INIT_VALID else init_value(vec)
        if k not in INIT_VALID and k not in ("value", "np0d"):
            out.append(("pairing", "returned point %d %r is one the fitness rejects (%s)" % (i, vec, k)))
        elif unhex(f) != want or math.copysign(1.0, unhex(f)) != math.copysign(1.0, want):
            out.append(("pairing", "returned point %d %r carries figure of merit %r, its fitness is %r" % (i, vec, unhex(f), want)))
        if drawn.get(tuple(p)) != u:
            out.append(("pairing", "returned point %d: unit vector and parameter vector are not one draw" % i))
    return out[:4]


def coq_init_case(c, r):
    st = c["state"]
    draws = clist(["(%s, %s, %s)" % (cfl(u), cfl(p), copt(f, lambda x: cfloat(unhex(x)))) for u, p, f in r["draws"]])
    return "CaseInit %s %s %s %s %s %s" % (cnat(st["cores"]), cnat(st["total"]), draws, cfll(r["units"]), cfll(r["params"]), cfl(r["foms"]))


E2E_SEARCHES = ["drawer", "emcee", "dynesty_static", "dynesty_dynamic", "bfgs", "lbfgs", "pyswarms_global", "pyswarms_local"]
MULTICORE = ("emcee", "dynesty_static", "dynesty_dynamic", "bfgs", "lbfgs", "pyswarms_global", "pyswarms_local")


def gen_e2e(rng, search, cores=1, thorough=False, force_reject=False, force_chunks=False, shape=None, prefit=False,
            ret="float", reject_mode="fitexc"):
    spec = gen_spec(rng, max_priors=3, shape=shape)
    if not any(p["family"] == "gaussian" for p in spec["priors"]):
        # a flat prior has log prior 0.0: likelihood and posterior would be indistinguishable
        p = rng.choice(spec["priors"])
        lo, hi = unhex(p["lo"]), unhex(p["hi"])
        p.update({"family": "gaussian", "mean": ((lo + hi) / 2).hex(), "sigma": ((hi - lo) / 4).hex()})
        spec["features"] = sorted(set(spec["features"]) | {"gaussian"})
    terms = terms_of(rng, spec)
    settings = {}
    if search == "emcee":
        settings = {"nwalkers": 2 * len(spec["priors"]) + rng.choice([2, 4]), "nsteps": rng.choice([110, 140]), "check_size": 50}
    elif search in ("dynesty_static", "dynesty_dynamic"):
        settings = {"nlive": rng.choice([15, 20]), "maxcall": rng.choice([200, 300])}
    elif search in ("bfgs", "lbfgs"):
        settings = {"visualize": rng.random() < 0.5}
    elif search in ("pyswarms_global", "pyswarms_local"):
        settings = {"n_particles": rng.randint(5, 8), "iters": rng.randint(2, 6)}
        if rng.random() < 0.8 or force_chunks:
            # several update chunks (iterations_per_update < iters): _fit re-creates the optimiser per chunk, the result
            # is converted from the last one; the last chunk is short so that particles can spend all of it in the
            # FitException region after having had a valid personal best before
            settings["iterations_per_update"] = rng.choice([2, 3])
            settings["iters"] = settings["iterations_per_update"] * rng.randint(2, 3) + rng.randint(1, 2)
    elif search == "drawer":
        settings = {"total_draws": rng.randint(3, 20)}
    case = {"kind": "e2e", "search": search, "spec": spec, "terms": terms, "cores": cores, "seed": rng.randrange(10 ** 6),
            "settings": settings, "spec_paths": [p for p, _ in leaves(spec["root"])]}
    if cores >= 2 and search in ("dynesty_static", "dynesty_dynamic", "emcee"):
        # evaluations in the lower half of one parameter are slower: parallel jobs finish out of order
        path, (kind, k) = [lf for lf in leaves(spec["root"]) if lf[1][0] == "p"][0]
        p = spec["priors"][k]
        case["slow"] = [path.split("."), (unhex(p["lo"]) + unhex(p["hi"])) / 2.0, 0.04]
    # (not pyswarms: fitting a completed PySwarms search again raises RecursionError while dill-loading the
    #  saved optimiser in Result.search_internal -- no result is returned at all, which is C06's subject)
    if search in ("drawer", "bfgs", "lbfgs", "dynesty_static", "dynesty_dynamic") and cores == 1:
        case["refit"] = True
    if (search == "drawer" and (force_reject or rng.random() < 0.5)) or \
            search in ("pyswarms_global", "pyswarms_local") or \
            (search in ("emcee", "dynesty_static", "dynesty_dynamic") and (cores >= 2 or force_reject or rng.random() < 0.5)):
        # a region where the fit raises FitException: the initializer must drop those draws
        # without shifting the likelihoods of the remaining ones
        path, (kind, k) = rng.choice([lf for lf in leaves(spec["root"]) if lf[1][0] == "p"])
        p = spec["priors"][k]
        lo, hi = unhex(p["lo"]), unhex(p["hi"])
        a = lo + (hi - lo) * rng.choice([0.0, 0.25, 0.5])
        width = rng.choice([0.25, 0.4])
        if search.startswith("pyswarms"):
            # wide, and on the other side of this path's optimum, so that the swarm is not drawn into it as a whole
            t = [tt for pth, cc, tt in terms if ".".join(pth) == path][0]
            width = 0.4
            a = lo + (hi - lo) * (0.55 if (t - lo) / (hi - lo) < 0.5 else 0.05)
        case["reject"] = [path.split("."), a, a + (hi - lo) * width, reject_mode]
    # (BFGS / LBFGS keep the figure of merit as the likelihood hands it over: with a 0-d array the fit dies in
    #  save_samples_summary -- "ndarray is not JSON serializable" -- and returns no result at all: outside C05's statement)
    case["ret"] = "np64" if (ret == "np0d" and search in ("bfgs", "lbfgs")) else ret
    if prefit:
        # history: the same search object first fits ANOTHER model with another likelihood
        pspec = gen_spec(rng, max_priors=2)
        case["prefit"] = {"spec": pspec, "terms": terms_of(rng, pspec)}
    return case


# ---------------------------------------------------------------------------
# property oracle (independent of the Coq model)
# ---------------------------------------------------------------------------

def close(a, b, scale=1.0):
    if math.isnan(a) or math.isnan(b):
        return False
    if a == b:
        return True
    if math.isinf(a) or math.isinf(b) or math.isinf(scale):
        return False        # an infinite value is close to nothing but itself (inf <= 1e-8 * inf would hold)
    return abs(a - b) <= 1e-8 * max(1.0, abs(a), abs(b), scale)


def oracle(c, r):
    """Returns a list of (aspect, message); empty when the case satisfies C05."""
    spec = c["spec"]
    obs = r["obs"]
    fails = []
    kind = dict(leaves(spec["root"]))
    prior_of_path = {p: x for p, (k, x) in kind.items() if k == "p"}
    nprior = len(spec["priors"])
    col = col_of(spec)
    ptab = {tuple(k): unhex(v) for k, v in r["prior_table"]}

    def add(aspect, msg):
        if len(fails) < 6:
            fails.append((aspect, msg))

    def values_of(kw, where):
        """per-prior values of a kwargs list; checks the keying."""
        vals = {}
        for key, v in kw:
            if key not in prior_of_path:
                add("keys", "%s: kwargs key %r is not a path to a prior of the model" % (where, key))
                return None
            k = prior_of_path[key]
            if k in vals:
                add("keys", "%s: two kwargs keys for one prior" % where)
                return None
            vals[k] = unhex(v)
        if len(vals) != nprior:
            add("keys", "%s: kwargs has %d of %d parameters" % (where, len(vals), nprior))
            return None
        return vals

    samples = obs["samples"]
    lls = []
    for i, s in enumerate(samples):
        ll, lp, w, post = unhex(s["ll"]), unhex(s["lp"]), unhex(s["w"]), unhex(s["post"])
        lls.append(ll)
        vals = values_of(s["kw"], "sample %d" % i)
        if vals is None:
            continue
        vec = [vals[k] for k in spec["creation"]]
        rejected = False
        if c.get("reject"):
            rp, rlo, rhi = c["reject"][:3]
            rejected = rlo <= vals[prior_of_path[".".join(rp)]] < rhi
        outside = c["kind"] == "e2e" and any(
            p["family"] == "uniform" and not (unhex(p["lo"]) <= vals[k] <= unhex(p["hi"])) for k, p in enumerate(spec["priors"]))
        if outside and c["search"] in ("bfgs", "lbfgs"):
            # the unconstrained optimiser left a uniform prior's limits: building the instance raises
            # PriorLimitException there, the model cannot be evaluated and Fitness returns its resample value
            if not math.isinf(ll):
                add("ll", "sample %d lies outside a uniform prior's limits (not evaluable) and reports %r instead of a resample value" % (i, ll))
        elif rejected and c["search"] == "dynesty_dynamic":
            # DynamicNestedSampler draws its own first live points (no autofit initializer): a point where the
            # likelihood raises FitException is kept with the resample value Fitness returns for it
            if ll != -1.0e99:
                add("ll", "sample %d lies in the FitException region and reports %r instead of the resample value -1e99" % (i, ll))
        elif rejected and c["search"].startswith("pyswarms") and VARIANTS.get("PySwarms") == "pbest":
            # repaired conversion: a particle that never left the FitException region keeps its first position
            # as personal best with cost +inf, i.e. the resample value -inf
            if ll != float("-inf"):
                add("ll", "sample %d lies in the FitException region and reports %r instead of the resample value -inf" % (i, ll))
        elif rejected:
            add("ll", "sample %d lies in the region where the likelihood raises FitException (%s = %r)"
                % (i, ".".join(rp), vals[prior_of_path[".".join(rp)]]))
        elif c["search"] != "from_lists":
            want = L_of_values(spec, c["terms"], vals)
            lp_want = ptab.get(tuple(float(x).hex() for x in vec))
            scale = abs(lp_want) if lp_want is not None else 1.0
            if not close(ll, want, scale):
                add("ll", "sample %d reports log_likelihood %r but the likelihood at its parameters %r is %r" % (i, ll, vec, want))
            if lp_want is None:
                add("lp", "sample %d: parameters %r are not a point the sampler visited" % (i, vec))
            elif not close(lp, lp_want):
                add("lp", "sample %d reports log_prior %r, the priors give %r" % (i, lp, lp_want))
        else:
            st = c["state"]
            same = lambda a, b: a == b or (math.isnan(a) and math.isnan(b))
            if i >= len(st["rows"]) or [unhex(x) for x in st["rows"][i]] != vec or not same(unhex(st["ll"][i]), ll) \
                    or unhex(st["lp"][i]) != lp or unhex(st["w"][i]) != w:
                add("ll", "from_lists sample %d does not carry the %d-th entry of every input list" % (i, i))
        if not close(post, ll + lp) and not (math.isnan(ll) and math.isnan(post)):
            add("post", "sample %d: log_posterior %r != log_likelihood + log_prior %r" % (i, post, ll + lp))
        if not (w >= 0.0):
            add("weight", "sample %d has weight %r" % (i, w))

    # second routes to the same per-sample answers: the list properties of the Samples object
    routes = obs.get("routes") or {}
    hist = obs.get("history") or {}
    for name, key in (("ll_list", "ll"), ("lp_list", "lp"), ("w_list", "w"), ("post_list", "post")):
        if name in routes and routes[name] != [s_[key] for s_ in samples]:
            add("routes", "Samples.%s is not the list of the samples' own values: %r" % (
                {"ll_list": "log_likelihood_list", "lp_list": "log_prior_list", "w_list": "weight_list",
                 "post_list": "log_posterior_list"}[name], str(routes[name])[:200]))
    for name in ("len",):        # (total_samples is the number of likelihood calls for nested samplers: not a route)
        if name in routes and routes[name] != len(samples):
            add("routes", "Samples.%s is %r, there are %d samples" % ({"total": "total_samples", "len": "__len__"}[name], routes[name], len(samples)))
    if c.get("history") and (r.get("notes") or {}).get("again_equal") is False:
        add("history", "the same search object converting the same sampler state a second time gives another answer: %s"
            % str((r.get("notes") or {}).get("again_obs"))[:300])

    # best fit (a NaN log-likelihood is outside the property: Fitness never lets one reach a sampler; the
    # model still predicts what the code does with it and the correspondence compares that)
    if samples and any(math.isnan(x) for x in lls):
        pass
    elif samples:
        finite = [x for x in lls if not math.isnan(x)]
        m = max(finite) if finite else float("nan")
        if obs["best"] is None:
            add("best", "no maximum-likelihood sample although there are %d samples" % len(samples))
        else:
            if lls[obs["best"]] != m:
                add("best", "max_log_likelihood_sample has %r, the maximum over the samples is %r" % (lls[obs["best"]], m))
            # (which of several equal maxima is reported is not part of the property; the model says "the first")
            bvals = values_of(samples[obs["best"]]["kw"], "best sample")
            if bvals is not None:
                want_vec = [bvals[k] for k in spec["creation"]]
                if obs["best_vec"] is None or [unhex(x) for x in obs["best_vec"]] != want_vec:
                    add("best", "max_log_likelihood vector %r is not the best sample's parameters in id order %r" % (obs["best_vec"], want_vec))

                def check_instance(inst, where):
                    for path, v in inst:
                        k, x = kind[path]
                        want = bvals[x] if k == "p" else x
                        if unhex(v) != want:
                            add("best", "%s: attribute %s is %r, the best sample has %r" % (where, path, unhex(v), want))
                            return

                sm = obs["summary"]
                if sm is None:
                    add("best", "no summary for a non-empty sample list")
                else:
                    if unhex(sm["ll"]) != m or unhex(sm["sample_ll"]) != m:
                        add("best", "summary log_likelihood %r, maximum over samples %r" % (unhex(sm["ll"]), m))
                    if sm["kw"] != samples[obs["best"]]["kw"]:
                        add("best", "summary's max_log_likelihood_sample is not the maximising sample")
                    check_instance(sm["instance"], "summary.instance")
                # every other public route to the best fit, asked of the same object
                best_kw = samples[obs["best"]]["kw"]
                if isinstance(routes.get("index"), int) and not (0 <= routes["index"] < len(lls) and lls[routes["index"]] == m):
                    add("routes", "max_log_likelihood_index %r does not point at a maximum-likelihood sample" % routes["index"])
                if "ll_prop" in routes and (str(routes["ll_prop"]).startswith("exc:") or unhex(routes["ll_prop"]) != m):
                    add("routes", "Samples.log_likelihood is %r, the maximum over the samples is %r" % (routes["ll_prop"], m))
                for name, what in (("mll_instance", "max_log_likelihood()"), ("instance_prop", "Samples.instance"),
                                   ("from_index", "from_sample_index(best)"), ("instances_best", "instances[best]")):
                    v = routes.get(name)
                    if isinstance(v, str):
                        add("routes", "%s raised %s" % (what, v))
                    elif v is not None:
                        check_instance(v, what)
                if isinstance(routes.get("from_index_vec"), list) and [unhex(x) for x in routes["from_index_vec"]] != want_vec:
                    add("routes", "from_sample_index(best, as_instance=False) %r is not the best sample's vector %r" % (routes["from_index_vec"], want_vec))
                if isinstance(routes.get("n_instances"), int) and routes["n_instances"] != len(samples):
                    add("routes", "Samples.instances has %d entries for %d samples" % (routes["n_instances"], len(samples)))
                vp = routes.get("values_for_path")
                if isinstance(vp, list) and vp[0] != vp[1]:
                    add("routes", "values_for_path differs from the samples' own kwargs")
                # use - use again on the returned object, and the objects derived from it after its answers were cached
                if hist.get("instance_again") is False or hist.get("best_again") is False:
                    add("history", "asking the same Samples object twice gives two answers (instance / max_log_likelihood_sample)")
                for name, want_n in (("added", 2 * len(samples)), ("minimised", None), ("thresholded", len(samples)), ("copied", len(samples)),
                                     ("added_better", len(samples) + 1), ("thresholded_best_removed", None)):
                    d = hist.get(name)
                    if not isinstance(d, dict):
                        continue
                    dm = m
                    if "want_ll" in d:
                        dm = unhex(d["want_ll"])
                    if "thr" in d:
                        kept = [unhex(s_["ll"]) for s_ in samples if unhex(s_["w"]) > unhex(d["thr"])]
                        if not kept:
                            continue
                        dm, want_n = max(kept), len(kept)
                    if want_n is not None and d["n"] != want_n:
                        add("history", "derived Samples (%s) has %d samples, expected %d" % (name, d["n"], want_n))
                    if unhex(d["best_ll"]) != dm or unhex(d["ll"]) != dm:
                        add("history", "derived Samples (%s): best log-likelihood %r / %r, maximum %r" % (name, d["best_ll"], d["ll"], dm))
                    dvals = values_of(d["best_kw"], "derived " + name)
                    if dvals is not None and unhex(d["best_ll"]) == dm:
                        dvec = [dvals[k] for k in spec["creation"]]
                        if [unhex(x) for x in d["vec"]] != dvec:
                            add("history", "derived Samples (%s): best vector is not its best sample's parameters" % name)
                        for path, v in d["instance"]:
                            k_, x_ = kind[path]
                            if unhex(v) != (dvals[x_] if k_ == "p" else x_):
                                # copy-built objects (copy, minimise: with tied maxima the kept sample can be another one)
                                # inherit the parent's cached instance: the known finding's clause
                                add("derived-instance" if name in ("minimised", "copied") else "history",
                                    "derived Samples (%s): instance attribute %s = %r is not its own best sample's value" % (name, path, unhex(v)))
                                break
                if isinstance(hist.get("with_paths_fresh"), list) and hist.get("with_paths_used") != hist["with_paths_fresh"]:
                    add("derived-instance", "samples.with_paths([first component]).instance has components %r when asked of a fresh Samples "
                        "object and %r once the parent's instance has been read" % (hist["with_paths_fresh"], hist.get("with_paths_used")))
                res = obs.get("result")
                if res is not None:
                    if unhex(res["ll"]) != m:
                        add("best", "result.log_likelihood %r, maximum over result.samples %r" % (unhex(res["ll"]), m))
                    check_instance(res["instance"], "result.instance")
                rf = obs.get("refit")
                if rf is not None:
                    if unhex(rf["ll"]) != m:
                        add("best", "result of the completed fit has log_likelihood %r, maximum over the samples %r" % (unhex(rf["ll"]), m))
                    check_instance(rf["instance"], "instance of the completed fit")
                    if sorted(rf["kw"]) != sorted(samples[obs["best"]]["kw"]):
                        add("best", "completed fit: stored max_log_likelihood_sample is not the maximising sample")
        if isinstance(obs["param_rows"], list):
            for i, (row, s) in enumerate(zip(obs["param_rows"], samples)):
                vals = values_of(s["kw"], "sample %d" % i)
                if vals is not None and [unhex(x) for x in row] != [vals[k] for k in spec["creation"]]:
                    add("keys", "parameter_lists[%d] is not sample %d's parameters in id order" % (i, i))
                    break
        else:
            add("keys", "Samples.parameter_lists raised %s" % obs["param_rows"])
    elif c["kind"] == "e2e":
        add("best", "the search returned no samples")
    return fails


def contract_fails(c, r):
    """e2e only: the sampler contract (the hypothesis of the pairing theorems) checked on the arrays the
    real run produced: every log-probability / log-likelihood / cost the Fitness object handed to the
    sampler is the likelihood (+ prior) of the point it is stored with.  Independent of the conversion
    under test and of every known-finding label."""
    spec, st, s = c["spec"], r["state"], c["search"]
    ptab = {tuple(k): unhex(v) for k, v in r["prior_table"]}
    fails = []
    rej = c.get("reject")
    col = col_of(spec)
    kind = dict(leaves(spec["root"]))

    def outside_limits(vec):
        return any(p["family"] == "uniform" and not (unhex(p["lo"]) <= vec[col[k]] <= unhex(p["hi"]))
                   for k, p in enumerate(spec["priors"]))

    def in_reject(vec):
        """the model cannot be evaluated at vec: FitException region, or outside a uniform prior's limits"""
        if outside_limits(vec):
            return True
        if not rej:
            return False
        k = kind[".".join(rej[0])][1]
        return rej[1] <= vec[col[k]] < rej[2]

    def L(vec):
        return L_of_vector(spec, c["terms"], vec)

    def prior(vec):
        return ptab.get(tuple(float(x).hex() for x in vec))

    def bad(msg):
        if len(fails) < 3:
            fails.append(("contract", msg))

    def check_post(vec, got, where, resample):
        if in_reject(vec):
            if s in ("bfgs", "lbfgs") and math.isinf(got):
                return      # -0.5 * (resample value -inf of a chi-squared fitness) = +inf
            if got != resample and not (math.isnan(got) and math.isnan(resample)):
                bad("%s: point %r lies in the FitException region but carries %r (resample value %r)" % (where, vec, got, resample))
            return
        p = prior(vec)
        want = L(vec) + (p or 0.0)
        if p is None or not close(got, want, abs(p)):
            bad("%s: the sampler stores %r for the point %r, likelihood + prior there is %r" % (where, got, vec, want))

    if s == "emcee":
        for si, (step, lps) in enumerate(zip(st["chain"], st["logp"])):
            for wi, (v, lp) in enumerate(zip(step, lps)):
                check_post([unhex(x) for x in v], unhex(lp), "emcee step %d walker %d" % (si, wi), float("-inf"))
    elif s in ("dynesty_static", "dynesty_dynamic"):
        for i, (v, l) in enumerate(zip(st["rows"], st["logl"])):
            vec = [unhex(x) for x in v]
            if in_reject(vec):
                if unhex(l) != -1.0e99:
                    bad("dynesty sample %d lies in the FitException region with logl %r" % (i, unhex(l)))
            elif not close(unhex(l), L(vec)):
                bad("dynesty sample %d: logl %r, likelihood of the point %r is %r" % (i, unhex(l), vec, L(vec)))
    elif s in ("bfgs", "lbfgs"):
        check_post([unhex(x) for x in st["x"]], unhex(st["post"]), "final point", float("-inf"))
        if st["visualize"]:
            if len(st["hist"]) != len(st["hist_ll"]):
                bad("fitness history: %d parameter vectors, %d log-likelihoods" % (len(st["hist"]), len(st["hist_ll"])))
            for i, (v, l) in enumerate(zip(st["hist"], st["hist_ll"])):
                vec = [unhex(x) for x in v]
                if not in_reject(vec) and not close(unhex(l), L(vec)):
                    bad("fitness history entry %d: log-likelihood %r, likelihood of %r is %r" % (i, unhex(l), vec, L(vec)))
    elif s == "drawer":
        if len(st["rows"]) != len(st["post"]):
            bad("drawer: %d parameter vectors, %d log-posteriors" % (len(st["rows"]), len(st["post"])))
        for i, (v, l) in enumerate(zip(st["rows"], st["post"])):
            check_post([unhex(x) for x in v], unhex(l), "draw %d" % i, float("nan"))
    elif s in ("pyswarms_global", "pyswarms_local"):
        best = float("inf")
        if len(st["pos"]) != len(st["cost"]):
            bad("pyswarms: %d iterations of positions, %d best costs" % (len(st["pos"]), len(st["cost"])))
        for t, (it, cost) in enumerate(zip(st["pos"], st["cost"])):
            for v in it:
                vec = [unhex(x) for x in v]
                if in_reject(vec):
                    continue
                p = prior(vec)
                if p is None:
                    bad("pyswarms: no prior value for a visited point")
                    continue
                best = min(best, -2.0 * (L(vec) + p))
            if not close(unhex(cost), best):
                bad("pyswarms iteration %d: best cost %r, the running minimum of -2*(likelihood + prior) over the visited "
                    "positions is %r" % (t, unhex(cost), best))
        for i, (v, cst) in enumerate(zip(st.get("pbest_pos", []), st.get("pbest_cost", []))):
            vec = [unhex(x) for x in v]
            if in_reject(vec):
                if unhex(cst) != float("inf"):
                    bad("pyswarms personal best %d lies in the FitException region with cost %r" % (i, unhex(cst)))
                continue
            p = prior(vec)
            if p is None or not close(unhex(cst), -2.0 * (L(vec) + p)):
                bad("pyswarms personal best %d: cost %r stored with %r, -2*(likelihood + prior) there is %r"
                    % (i, unhex(cst), vec, None if p is None else -2.0 * (L(vec) + p)))
    return fails


VARIANTS = {}


def classes_of(c, aspect):
    """Labels computed from the case and the violated clause of the property."""
    s = c["search"]
    out = ["%s:%s" % (s, aspect), "search=" + s]
    # (the emcee and pyswarms pairing defects are repaired in /repo -- 97df212, fe260fe -- and carry no label any
    #  more: a failure there is a VIOLATION; their pinned cases are the regression:* obligations)
    # the zeus label applies only while the source has the pinned (unaligned) log-prob call
    if s == "zeus" and aspect == "ll" and VARIANTS.get("Zeus") == "unaligned":
        out.append("zeus-logprob-unthinned")
    if aspect == "derived-instance":
        # only the clause "a copy-built derived Samples object hands out the parent's cached instance"
        out.append("samples-copy-keeps-instance")
    return out


# ---------------------------------------------------------------------------
# Coq terms
# ---------------------------------------------------------------------------

def cfl(v):
    return clist([cfloat(unhex(x)) for x in v])


def cfll(rows):
    return clist([cfl(r) for r in rows])


def cflll(x):
    return clist([cfll(r) for r in x])


class Interner:
    def __init__(self):
        self.ids = {}

    def __call__(self, p):
        if p not in self.ids:
            self.ids[p] = len(self.ids) + 1
        return self.ids[p]


def coq_state(c, r, variants):
    st = r["state"]
    s = c["search"]
    if s == "from_lists":
        return "FFromLists %s %s %s %s" % (cfll(st["rows"]), cfl(st["ll"]), cfl(st["lp"]), cfl(st["w"]))
    if s == "emcee":
        return "FEmcee %s %s %s %s" % (cbool(variants["Emcee"] == "aligned"), cflll(st["chain"]), cfll(st["logp"]), cfloat(unhex(st["tau"])))
    if s == "zeus":
        return "FZeus %s %s %s %s" % (cbool(variants["Zeus"] == "aligned"), cflll(st["chain"]), cfll(st["logp"]), cfloat(unhex(st["tau"])))
    if s in ("dynesty_static", "dynesty_dynamic"):
        return "FDynesty %s %s %s %s" % (cfll(st["rows"]), cfl(st["logl"]), cfl(st["logwt"]), cfl(st["logz"]))
    if s == "nautilus":
        return "FNautilus %s %s %s" % (cfll(st["rows"]), cfl(st["logl"]), cfl(st["logwt"]))
    if s == "ultranest":
        return "FUltranest %s %s %s" % (cfll(st["rows"]), cfl(st["logl"]), cfl(st["weights"]))
    if s in ("bfgs", "lbfgs"):
        if st["visualize"]:
            return "FBfgsVis %s %s" % (cfll(st["hist"]), cfl(st["hist_ll"]))
        return "FBfgs %s %s" % (cfl(st["x"]), cfloat(unhex(st["post"])))
    if s == "drawer":
        return "FDrawer %s %s" % (cfll(st["rows"]), cfl(st["post"]))
    if s in ("pyswarms_global", "pyswarms_local"):
        if variants.get("PySwarms") == "pbest":
            return "FPyswarmsPbest %s %s" % (cfll(st["pbest_pos"]), cfl(st["pbest_cost"]))
        return "FPyswarms %s %s" % (cflll(st["pos"]), cfl(st["cost"]))
    raise ValueError(s)


def coq_case(c, r, variants):
    """Case term from the driver's output (abstract sampler state + observables)."""
    intern = Interner()
    col = col_of(c["spec"])
    pp = clist([cpair(cZ(intern(p)), cnat(col[k]) if k in col else "999%nat") for p, k in r["pp"]])
    cols = clist([cnat(col[k]) if k in col else "999%nat" for k in r["ordered"]])
    ptab = clist([cpair(cfl(k), cfloat(unhex(v))) for k, v in r["prior_table"]])
    etab = clist([cpair(cfloat(unhex(a)), cfloat(unhex(e))) for a, e in r["state"].get("exp", [])])
    if "raised" in r:
        exp = "ORaised"
    else:
        obs = r["obs"]
        smp = clist(["(mkS %s %s %s %s)" % (cfloat(unhex(s["ll"])), cfloat(unhex(s["lp"])), cfloat(unhex(s["w"])),
                                            clist([cpair(cZ(intern(k)), cfloat(unhex(v))) for k, v in s["kw"]]))
                     for s in obs["samples"]])
        posts = cfl([s["post"] for s in obs["samples"]])
        best = copt(obs["best"], cnat)
        vec = copt(obs["best_vec"], cfl)
        rows = copt(obs["param_rows"] if isinstance(obs["param_rows"], list) else None, cfll)
        sm = obs["summary"]
        ll = copt(None if sm is None else sm["ll"], lambda x: cfloat(unhex(x)))
        exp = "OOk (mkObs %s %s %s %s %s %s)" % (smp, posts, best, vec, rows, ll)
    return "Case %s %s %s %s (%s) (%s)" % (pp, cols, ptab, etab, coq_state(c, r, variants), exp)


# ---------------------------------------------------------------------------
# run
# ---------------------------------------------------------------------------

def nontrivial(c):
    if c["kind"] == "e2e":
        return True
    if c["kind"] == "init":
        return c["state"]["total"] >= 2
    st = c["state"]
    if c["search"] in ("emcee", "zeus"):
        return len(st["chain"]) * len(st["chain"][0]) >= 2
    if "rows" in st:
        return len(st["rows"]) >= 2
    if "pos" in st:
        return len(st["pos"]) >= 2 or len(st["pos"][0]) >= 2
    if "hist" in st:
        return len(st["hist"]) >= 2
    return len(c["spec"]["priors"]) >= 2


def gen_cases(ctx):
    rng = ctx.rng
    thorough = ctx.tier == "thorough"
    cases = []
    per = 14 if not thorough else 110
    for s in CONV_SEARCHES:
        for j in range(per + (6 if s in ("emcee", "from_lists") else 0)):
            # by construction, every search and every seed: each model shape at least twice, every second case a
            # use - use again history of one search object and one model object
            cases.append(gen_conv(rng, s, shape=SHAPES[j % len(SHAPES)] if j < 2 * len(SHAPES) else None, history=(j % 2 == 1), variant=j))
    for j in range(24 if not thorough else 160):
        cases.append(gen_init(rng, history=(j % 2 == 0), falsy=(j % 3 == 0), shape=SHAPES[j % len(SHAPES)] if j % 4 == 1 else None))
    e2e = []
    if not thorough:
        plan = [(s, 1) for s in E2E_SEARCHES] + [("dynesty_static", 2), ("emcee", 2), ("lbfgs", 2), ("pyswarms_global", 2)]
    else:
        plan = []
        for s in E2E_SEARCHES:
            plan += [(s, 1)] * 6
            if s in MULTICORE:
                plan += [(s, 2)] * 3
    combos = [("np0d", "nan"), ("np64", "fitexc"), ("float", "nan"), ("np0d", "fitexc"), ("np64", "nan"), ("float", "fitexc")]
    for j, (s, cores) in enumerate(plan):
        ret, mode = combos[(j + 5) % 6]       # quick: emcee at one core gets (0-d array, NaN region), by construction
        # by construction: shapes, the type of the returned likelihood and FitException / NaN regions rotate over the
        # plan; a search object that has fitted another model before: drawer, lbfgs, dynesty_static at one core (quick)
        prefit = (cores == 1 and s in ("drawer", "lbfgs", "dynesty_static")) if not thorough else (j % 3 == 0)
        e2e.append(gen_e2e(rng, s, cores, thorough, force_chunks=(cores == 1), shape=SHAPES[(j + 1) % len(SHAPES)],
                           prefit=prefit, ret=ret, reject_mode=mode, force_reject=(s in ("emcee", "dynesty_static") and cores == 1)))
    for j in range(1 if not thorough else 4):
        e2e.append(gen_e2e(rng, "drawer", 1, thorough, force_reject=True, shape=SHAPES[(j + 3) % len(SHAPES)],
                           reject_mode="nan", ret="np0d"))
    return cases, e2e


def run(ctx):
    ctx.rule = ("a case = (composition program with shared / fixed / nested parameters and a permuted prior-creation order, "
                "search class, abstract sampler state); conv cases feed generated arrays satisfying the sampler contract to the "
                "real conversion function (real emcee backend; fakes for dynesty/nautilus/ultranest/zeus/bfgs/drawer/pyswarms "
                "internals), e2e cases run the real sampler through search.fit and read its arrays back; non-trivial = at least "
                "two sampler points (conv) or any real run (e2e); init cases run AbstractInitializer.samples_from_model on a scripted "
                "fitness (value / FitException / NaN / below -1e98) with n_cores in {1,2,3} (non-trivial: >= 2 points); every e2e spec has "
                "a Gaussian prior whose optimum is off the prior mean; e2e runs with emcee / dynesty / pyswarms (always at 2 cores) and "
                "Drawer include a region where the likelihood raises FitException or returns NaN (alternating); distinct = distinct abstract input. "
                "Sweep classes, by construction in every seed: (1) histories -- every second conv case reuses ONE search object and ONE "
                "model object (another sampler state converted first, the case's state converted twice), every second init case reuses one "
                "initializer whose earlier lists the caller edited, e2e drawer / lbfgs / dynesty_static fit another model first with the same "
                "search object, and every returned Samples object is asked twice and through its derived objects (+, threshold, copy, "
                "minimise, with_paths) after its instance was cached; (2) unusual legal values -- best likelihood exactly 0.0 / -0.0, whole "
                "numbers as int, numpy scalars / arrays, zero weights, rows at the exact optimum / at 0.0 / -0.0 / duplicated, figures of "
                "merit 0.0 / -0.0 / int / 0-d array in the initializer, likelihoods returned as numpy.float64 / 0-d array; (3) every public "
                "route to the per-sample lists and to the best fit is compared on the same object; (4) model shapes root-Model, list "
                "collection (item names '0','1'), one Model object twice in a container, unusual attribute names; (5) NaN next to FitException")
    ctx.trusted = [
        "Coq 8.16.1 kernel incl. vm_compute; primitive floats (PrimFloat, Uint63) are kernel primitives",
        "correspondence harness c05.py / impl/c05_impl.py / impl/c05_classes.py; Python float.hex; numpy.exp and the prior objects' "
        "log_prior_from_value supply oracle tables",
        "corpus/C05/*.json are the pinned cases of the repaired defects (emcee 97df212, SneakyPool c80ac95, pyswarms fe260fe): "
        "obligations regression:<signature> fail if one of them regresses",
        "third-party samplers (emcee, dynesty, scipy.optimize, pyswarms) are covered only by the sampler-contract hypotheses of the "
        "theorems and by the end-to-end runs; zeus, nautilus, ultranest are not installed: their conversions run on fake internals",
        "the instance handed back is covered up to the parameter vector given to instance_from_vector (C01 covers vector -> instance); "
        "the oracle additionally reads every attribute of result.instance",
    ]
    ctx.assumptions = [
        "theorems are over exact arithmetic: (a + b) - b = a, `<` a strict weak order; binary64 rounding is covered by the bit-exact "
        "correspondence and by the oracle's 1e-8 tolerance only",
        "sampler contracts (hypotheses): emcee/zeus/drawer/bfgs log-probability = likelihood + prior at the same point; dynesty / "
        "nautilus / ultranest logl = likelihood at the same row; ultranest weights >= 0; exp >= 0 -- in every e2e run the contract is "
        "checked on the arrays the real sampler produced (aspect `contract`, no known-finding label)",
        "dynesty is seeded from the case (autofit passes no rstate); a sample of DynestyDynamic inside a FitException region must carry "
        "the resample value -1e99; NaN log-likelihoods (from_lists only) are compared by correspondence, not judged by the oracle",
    ]
    # 1. which MCMC conversion variant does the source have (fail closed)
    variants = {}
    ok = True
    for rel, cls in ((EMCEE, "Emcee"), (ZEUS, "Zeus")):
        try:
            variants[cls] = logprob_variant(common.REPO, rel, cls)
        except (SourceShapeError, OSError, SyntaxError) as e:
            ok = False
            variants[cls] = "unaligned"
            ctx.obligation("translator:%s.log_posterior_list" % cls, "translator", False, str(e))
    try:
        variants["PySwarms"] = pyswarms_variant(common.REPO)
    except (SourceShapeError, OSError, SyntaxError) as e:
        ok = False
        variants["PySwarms"] = "pinned"
        ctx.obligation("translator:PySwarms.samples_via_internal_from", "translator", False, str(e))
    if ok:
        ctx.obligation("translator:mcmc-logprob-variant", "translator", True, json.dumps(variants))
    ctx.notes["mcmc_logprob_variant"] = variants
    VARIANTS.clear()
    VARIANTS.update(variants)
    # 2. proofs
    import time
    t0 = time.time()
    ctx.build()
    ctx.notes["t_build_s"] = round(time.time() - t0, 1)
    # 3. cases
    conv, e2e = gen_cases(ctx)
    if ctx.replay:
        rp = json.load(open(ctx.replay))
        if rp.get("case"):
            conv, e2e = ([rp["case"]], []) if rp["case"]["kind"] in ("conv", "init") else ([], [rp["case"]])
    # pinned cases of repaired defects (corpus/C05/*.json): always run, each is a regression:* obligation
    pinned = []
    if not ctx.replay:
        cdir = os.path.join(common.VERIF, "corpus", "C05")
        for fn in sorted(os.listdir(cdir)) if os.path.isdir(cdir) else []:
            if fn.endswith(".json"):
                d = json.load(open(os.path.join(cdir, fn)))
                c = d["case"]
                c["pinned"] = d["pinned"]
                pinned.append(c)
                (e2e if c["kind"] == "e2e" else conv).append(c)
    regress = {c["pinned"]: [] for c in pinned}
    ran_pinned = set()
    for i, c in enumerate(conv + e2e):
        c["idx"] = i
    # few, fat driver processes: importing autofit costs ~3 s of CPU per process
    payloads = []
    nproc = 8 if ctx.tier != "thorough" else 12
    chunk = max(1, (len(conv) + nproc - 1) // nproc)
    for i in range(0, len(conv), chunk):
        payloads.append({"cases": conv[i:i + chunk]})
    group = 3 if ctx.tier != "thorough" else 6
    for i in range(0, len(e2e), group):
        payloads.append({"cases": e2e[i:i + group]})
    t0 = time.time()
    outs = common.run_impl_parallel("c05_impl", payloads, timeout=1200)
    ctx.notes["t_impl_s"] = round(time.time() - t0, 1)
    results = []
    for p, o in zip(payloads, outs):
        if "__error__" in o:
            ctx.obligation("impl-driver", "harness", False, o["__error__"][-800:])
            results += [{"exc": "DriverError", "msg": o["__error__"][-300:]}] * len(p["cases"])
        else:
            results += o["results"]
    cases = conv + e2e
    coq_cases, coq_idx = [], []
    emcee_runs = {"total": 0, "with_samples": 0, "degenerate": 0, "result_unobservable": 0}
    pyswarms_runs = {"observed": 0, "multi_chunk_observed": 0, "crashed": 0}
    for i, (c, r) in enumerate(zip(cases, results)):
        key = {k: v for k, v in c.items() if k != "idx"}
        ctx.count_case(key, nontrivial(c), "%s:%s" % (c["kind"], c["search"]))
        for f in c["spec"]["features"]:
            ctx.hist("feature", f)
        ctx.hist("priors", len(c["spec"]["priors"]))
        if c["kind"] == "e2e":
            ctx.hist("cores", c["cores"])
        ctx.oracle["cases"] += 1
        if c["kind"] == "init":
            ctx.hist("init_cores", c["state"]["cores"])
            ctx.hist("init_history", "reused-initializer" if c["state"].get("prev") else "fresh")
            for b in c["state"]["bands"]:
                ctx.hist("init_band", b[2])
            if "exc" in r:
                ctx.oracle["failures"] += 1
                ctx.failure("oracle", "initializer raised %s: %s" % (r["exc"], r.get("msg")), key, classes=["initializer:raised"], impl=r)
                continue
            ok_r = r["ok"]
            ctx.hist("init_rejected_draws", min(5, sum(1 for d in ok_r["draws"] if d[2] is None)))
            for aspect, msg in init_oracle(c, ok_r)[:1]:
                ctx.oracle["failures"] += 1
                ctx.failure("oracle", msg, key, classes=["initializer:" + aspect], impl=_small(ok_r))
            coq_cases.append(coq_init_case(c, ok_r))
            coq_idx.append(i)
            continue
        if "exc" in r:
            # only the samplers' own documented failures are legitimate, and only at conversion level
            legit = c["kind"] == "conv" and c["search"] in ("emcee", "zeus") and r["exc"] == "ValueError" \
                and math.floor(unhex(c["state"]["tau"]) / 2.0) == 0
            degenerate = c["kind"] == "e2e" and c["search"] == "emcee" and any(
                t in (r.get("msg") or "") for t in ("slice step cannot be zero", "cannot convert float NaN to integer"))
            if c["kind"] == "e2e" and c["search"].startswith("pyswarms") and r["exc"] == "ValueError" \
                    and "could not be broadcast together with shapes (0,)" in (r.get("msg") or ""):
                # pyswarms itself: a fresh optimiser whose whole swarm is unevaluable in its first iteration has no
                # best position yet and dies in compute_velocity; no result is returned at all
                ctx.hist("outcome", "e2e-pyswarms-no-evaluable-particle")
                pyswarms_runs["crashed"] += 1
                continue
            if degenerate:
                # the real chain's autocorrelation time came out < 2 (thin = 0) or NaN: no result is returned at all
                ctx.hist("outcome", "e2e-emcee-degenerate-autocorr")
                emcee_runs["degenerate"] += 1
                continue
            if not legit:
                ctx.oracle["failures"] += 1
                if c.get("pinned"):
                    regress[c["pinned"]].append("raised %s" % r["exc"])
                ctx.failure("oracle", "implementation raised %s: %s" % (r["exc"], r.get("msg")), key,
                            classes=classes_of(c, "raised"), impl=r)
                continue
            ctx.hist("outcome", "raised")
            # the model must raise as well (it does so before reading the log-probabilities)
            st = c["state"]
            flag = cbool(variants["Emcee" if c["search"] == "emcee" else "Zeus"] == "aligned")
            coq_cases.append("Case [] [] [] [] (%s %s %s [] %s) ORaised" % (
                "FEmcee" if c["search"] == "emcee" else "FZeus", flag, cflll(st["chain"]), cfloat(unhex(st["tau"]))))
            coq_idx.append(i)
            continue
        ok_r = r["ok"]
        if c["kind"] == "conv":
            ctx.hist("conv_history", "%s:%s" % (c["search"], "reused-search(prev %s)" % (ok_r.get("notes") or {}).get("prev")
                                                if c.get("history") else "fresh"))
            for sp in c.get("special", []):
                ctx.hist("special", sp)
            if c["search"] == "from_lists":
                ctx.hist("scalar_type", c["state"].get("scalar"))
        else:
            ctx.hist("e2e_likelihood_type", c.get("ret"))
            ctx.hist("e2e_reject", "none" if not c.get("reject") else (c["reject"][3] if len(c["reject"]) > 3 else "fitexc"))
            ctx.hist("e2e_search_history", "%s:%s" % (c["search"], "prefit-" + str((ok_r.get("notes") or {}).get("prefit"))
                                                      if c.get("prefit") else "fresh"))
        for name, d in (ok_r["obs"].get("history") or {}).items():
            if isinstance(d, str) and d.startswith("exc:"):
                ctx.hist("derived_not_observed", "%s:%s" % (name, d))
        ctx.hist("outcome", "samples=%s" % ("0" if not ok_r["obs"]["samples"] else "1" if len(ok_r["obs"]["samples"]) == 1 else "2+"))
        if ok_r["obs"].get("summary_fallback") or (ok_r.get("notes") or {}).get("fit_failed"):
            ctx.hist("numpy_median_pdf_workaround", c["search"])
        fails = oracle(c, ok_r)
        if c["kind"] == "e2e":
            fails = contract_fails(c, ok_r) + fails
            if c["search"].startswith("pyswarms"):
                pyswarms_runs["observed"] += 1
                if c["settings"].get("iterations_per_update"):
                    pyswarms_runs["multi_chunk_observed"] += 1
            if c["search"] == "emcee":
                emcee_runs["total"] += 1
                if ok_r["obs"]["samples"]:
                    emcee_runs["with_samples"] += 1
                elif int(3.0 * unhex(ok_r["state"]["tau"])) >= len(ok_r["state"]["chain"]):
                    # burn-in longer than the chain: the conversion legitimately returns nothing
                    ctx.hist("outcome", "e2e-emcee-burn-in-exceeds-chain")
                    fails = [f for f in fails if f[1] != "the search returned no samples"]
                if (ok_r.get("notes") or {}).get("fit_failed") == "numpy-median_pdf":
                    emcee_runs["result_unobservable"] += 1
        if c.get("pinned"):
            regress[c["pinned"]] += ["%s: %s" % f for f in fails] or []
            ran_pinned.add(c["pinned"])
        if fails:
            ctx.oracle["failures"] += 1
            seen = set()
            for aspect, msg in fails:
                if aspect in seen:
                    continue
                seen.add(aspect)
                ctx.failure("oracle", msg, key, classes=classes_of(c, aspect),
                            impl={"obs": _small(ok_r["obs"]), "state": _small(ok_r["state"])})
        try:
            coq_cases.append(coq_case(c, ok_r, variants))
            coq_idx.append(i)
        except (KeyError, AssertionError) as e:
            ctx.failure("correspondence", "observables cannot be expressed as a case: %r" % (e,), key,
                        classes=classes_of(c, "shape"), impl=_small(ok_r["obs"]))
        if i % 29 == 0:
            ctx.sample({"search": c["search"], "kind": c["kind"], "features": c["spec"]["features"],
                        "priors": len(c["spec"]["priors"]), "samples": len(ok_r["obs"]["samples"])}, limit=10)
    # the degenerate-autocorrelation / empty-burn-in buckets must not swallow every emcee run
    n_emcee = sum(1 for c in e2e if c["search"] == "emcee")
    if n_emcee and not ctx.replay:
        ctx.obligation("e2e:emcee-observed", "harness", emcee_runs["with_samples"] >= 1,
                       "%d emcee runs, %d returned samples, %d degenerate" % (n_emcee, emcee_runs["with_samples"], emcee_runs["degenerate"]))
    n_ps = sum(1 for c in e2e if c["search"].startswith("pyswarms") and c["settings"].get("iterations_per_update"))
    if n_ps and not ctx.replay:
        ctx.obligation("e2e:pyswarms-multi-update-observed", "harness", pyswarms_runs["multi_chunk_observed"] >= 1,
                       "%d PySwarms runs spanning several updates with a FitException region, %d returned a result, %d died inside pyswarms"
                       % (n_ps, pyswarms_runs["multi_chunk_observed"], pyswarms_runs["crashed"]))
    ctx.notes["pyswarms_runs"] = pyswarms_runs
    ctx.notes["emcee_runs"] = emcee_runs
    if emcee_runs["result_unobservable"]:
        ctx.notes["emcee_result_not_observable"] = (
            "Emcee.fit raised TypeError in SamplesMCMC.median_pdf (float(np.percentile(x, [50])) under numpy >= 2) in %d of %d runs: "
            "no Result object exists for the only runnable MCMC search; result.log_likelihood / result.instance / samples_summary of "
            "Emcee are NOT covered end to end here (only search.samples_from on the real backend and the base-class summary)"
            % (emcee_runs["result_unobservable"], emcee_runs["total"]))
    # 4. correspondence inside Coq
    if os.path.exists(os.path.join(common.COQ, "C05", "Model.vo")):
        hdr = ctx.header(["Common.PyFloat", "Common.Lists", "Model"])
        t0 = time.time()
        bad, log = ctx.eval_cases(hdr, "case", "check_case", coq_cases, shard=24)
        ctx.notes["t_coq_cases_s"] = round(time.time() - t0, 1)
        for b in (bad or []):
            if cases[coq_idx[b]].get("pinned"):
                regress[cases[coq_idx[b]]["pinned"]].append("model and implementation disagree")
        for b in (bad or [])[:5]:
            i = coq_idx[b]
            c, r = cases[i], results[i].get("ok")
            if c["kind"] == "init":
                ctx.failure("correspondence", "samples_from_model differs from the model (batches of n_cores zipped by position, "
                            "rejected draws dropped)", {k: v for k, v in c.items() if k != "idx"}, classes=["initializer:correspondence"],
                            impl=_small(r, 20000), broken={"kind": "correspondence", "name": "C05.check_case"},
                            found_input=bool(r is not None and init_oracle(c, r)))
                continue
            shown = ctx.show(hdr, "match (%s) with Case pp cols pt et st e => (column_ids pp, model_outcome pp pt et st) end"
                             % coq_cases[b], tag="model%d" % b)
            diff = ctx.show(hdr, "match (%s) with Case pp cols pt et st e => match model_outcome pp pt et st, e with "
                            "OOk a, OOk b => Some (list_eqb sample_eqb (o_samples a) (o_samples b), flist_eqb (o_posts a) (o_posts b), "
                            "opt_eqb Nat.eqb (o_best a) (o_best b), opt_eqb flist_eqb (o_vec a) (o_vec b), "
                            "opt_eqb (list_eqb flist_eqb) (o_rows a) (o_rows b), opt_eqb fbits_eqb (o_ll a) (o_ll b), "
                            "map2 sample_eqb (o_samples a) (o_samples b)) | _, _ => None end end" % coq_cases[b], tag="diff%d" % b)
            ctx.failure("correspondence", "model and implementation disagree on a %s %s case" % (c["kind"], c["search"]),
                        {k: v for k, v in c.items() if k != "idx"}, classes=classes_of(c, "correspondence"),
                        impl=None if r is None else {"obs": _small(r["obs"], 20000), "state": _small(r["state"], 20000)},
                        model={"components_equal(samples,posts,best,vec,rows,ll,per-sample)": diff, "outcome": shown[:20000]},
                        broken={"kind": "correspondence", "name": "C05.check_case"},
                        found_input=bool(r is not None and oracle(c, r)))
    else:
        ctx.obligation("correspondence:cases", "correspondence", False, "Model.vo not built")
    # 5. the pinned cases of repaired defects must satisfy the oracle and agree with the (current) model
    for sig in sorted(regress):
        ok_sig = sig in ran_pinned and not regress[sig]
        ctx.obligation("regression:" + sig, "regression", ok_sig,
                       "pinned case corpus/C05/%s.json passes" % sig if ok_sig else
                       ("did not run" if sig not in ran_pinned else "; ".join(regress[sig])[:600]))


def _small(x, limit=4000):
    s = json.dumps(x, default=str)
    return x if len(s) <= limit else s[:limit] + "..."


MANIFEST = {
    "text": "Coq 8.16 theorems over a model of every search's conversion from sampler-internal arrays to Sample lists "
            "(pairing of log-likelihood / prior / weight with the parameter row, the initializer's batch pairing of figures of merit with "
            "draws, columns keyed by unique prior path in id order, "
            "first-maximum best fit and the vector handed to instance_from_vector), proved for all sampler states under the "
            "stated sampler contracts, with refutation witnesses for the conversions that violate the property; bit-exact vm_compute "
            "correspondence of the model with the real conversion functions (generated sampler states and the arrays of real "
            "sampler runs) and a direct oracle that recomputes the likelihood of every returned sample, compares every public route "
            "to the best fit on the same object and replays use - change - use again histories of the search, initializer and Samples "
            "objects; the Samples object with its `_instance` cache and its derived objects is a Coq state machine (Machine.v): every "
            "answer of every history equals the fresh answer for every sound cache policy (since 5bdf198 `Samples.__copy__` drops the "
            "cached instance, which is such a policy); the `_code_partial` / `copy_keeps_instance_refuted` theorems describe the tree "
            "before that repair (former finding samples-copy-keeps-instance, fixed; a recurrence is reported by the `derived-instance` "
            "oracle clause as a VIOLATION)",
    "note": "Trusted: Coq kernel + vm_compute, primitive floats, the correspondence harness, numpy.exp / prior objects as oracle "
            "tables. The third-party samplers are hypotheses (sampler contracts) plus end-to-end runs; zeus / nautilus / ultranest "
            "are not installed and are exercised through fake internals only. Theorems are over exact arithmetic.",
    "technique": "machine-checked proof in Coq + vm_compute correspondence + end-to-end oracle",
}
