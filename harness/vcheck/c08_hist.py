"""C08 -- write/read HISTORIES on one store object ("the read returns the model LAST written").

A single round trip on a fresh Fit / fresh session / fresh file cannot see state that a store object carries
from one use to the next (a cache in db.Fit keyed by a column that only changes at flush, a setter that only
writes the first time, a file that is appended to, ...).  This stream drives ONE store through a generated
history of operations and states the property for every read:

  store = "db"     a db.Fit per slot (1-3 fits in one session): new [with model] / write k / amend k (the caller's model object k revised in place, written again) / read / writeback
                   (fit.model = fit.model) / revise (read, add a fixed value, write) / add to session / flush /
                   commit / expire / reopen (commit, close, new engine + session, fits re-queried by id);
                   detached fits (never added) are kept as Python objects throughout
  store = "file"   a JSON file per slot rewritten at the same path (model.dict()+from_json, autoconf to_dict/from_dict)
  store = "pickle" a pickle / dill file per slot rewritten at the same path

Oracle: every read is compared (c08.compare_states, all clauses of the single-trip oracle) with the model the
HISTORY says was written last to that slot by an explicit write (never with what an earlier read returned).
Correspondence: every read is one trip of the Coq codec model from the directly preceding written state
(c08.coq_case / Model.check_case); History.v proves that the store machine returns exactly that for any history."""
import copy
import json

RULE = (" PLUS write/read histories on ONE store object: 2-3 composition programs (independent, or a revision of the first: other "
        "limits / parameters, assertions dropped or added) x a store (db.Fit objects of one session: detached, added, before and after "
        "flush / commit / expire, re-queried in a new session, 1-3 fits side by side; a JSON file or a pickle file rewritten at the same "
        "path) x a history of 8-20 operations (write k, read, write-back of what was read, revise what was read and write it, amend the caller's own model object in place and write it again, touch it in place WITHOUT writing, scribble on a model that was read without writing it back, "
        "add / flush / commit / expire / reopen); every read is an evaluation, non-trivial when its slot was written at least twice before.")

MANIFEST_TEXT = (" Histories: a store machine (History.v: slots with an attached image and a stored image; write / write-back / flush / "
                 "commit / reopen / read) is proved to return, for ANY history, the codec image of the last write to that slot "
                 "(C08_history_last_write_wins) and hence a model equivalent to the last explicitly written one under any trip-closed "
                 "equivalence (C08_history_equiv); generated histories on one db.Fit / one JSON file / one pickle file are checked read "
                 "by read by the oracle against the last explicitly written model and by vm_compute against the codec model.")

FORM_OF = {"db": "db", "file": "dict", "pickle": "pickle"}


def _c8():
    from . import c08
    return c08


def _gen_model(ctx):
    C8 = _c8()
    for _ in range(200):
        c = C8.gen_case(ctx)
        if 1 <= len(c["program"]["pool"]) <= 12 and C8.refs_in(c["program"]["root"]):
            c.pop("steps", None)
            c.pop("frozen", None)
            return c
    raise RuntimeError("no model generated")


def _revision(rng, mc):
    """A revised version of a model: same shape, other limits / prior parameters, assertions dropped."""
    C8 = _c8()
    m = copy.deepcopy(mc)
    pool = m["program"]["pool"]
    used = sorted(set(C8.refs_in(m["program"]["root"])))
    direct = [r for r in used if "family" in pool[r]]
    changed = False
    rng.shuffle(direct)
    for r in direct[:rng.choice([1, 1, 2, len(direct)])]:
        s = pool[r]
        if s["family"] in ("gaussian", "loggaussian") and rng.random() < 0.6:
            s["mean"] = (C8.unhex(s["mean"]) + 0.5).hex()
            changed = True
        elif s["hi"] not in ("inf",):
            s["hi"] = (C8.unhex(s["hi"]) + rng.choice([0.5, 1.0, 2.0])).hex()
            changed = True
        elif s["family"] in ("gaussian", "loggaussian"):
            s["sigma"] = (C8.unhex(s["sigma"]) * 2.0).hex()
            changed = True
    if m.get("asserts") and (not changed or rng.random() < 0.5):
        m["asserts"] = m["asserts"][:-1]
        changed = True
    if not changed and direct:
        s = pool[direct[0]]
        s["lo"] = (C8.unhex(s["lo"]) - 0.5).hex() if s["lo"] != "-inf" else (-4.0).hex()
    m["values"] = [(rng.randint(-16, 16) / 8.0).hex() for _ in pool]
    feats = set(m["program"].get("features", [])) | {"revision"}
    m["program"]["features"] = sorted(feats)
    return m


def gen_history_case(ctx):
    rng = ctx.rng
    a = _gen_model(ctx)
    models = [a]
    r = rng.random()
    models.append(_revision(rng, a) if r < 0.45 else _gen_model(ctx))
    if rng.random() < 0.35:
        models.append(_revision(rng, rng.choice(models)) if rng.random() < 0.5 else _gen_model(ctx))
    store = rng.choices(["db", "file", "pickle"], [64, 18, 18])[0]
    nslots = rng.choice([1, 1, 2, 3]) if store == "db" else rng.choice([1, 2])
    variant = {"db": "fit", "file": rng.choice(["dict", "dict", "autoconf"]), "pickle": rng.choice(["pickle", "dill"])}[store]
    nm = len(models)
    ops = []
    created, written, added = set(), {}, set()          # written: slot -> number of writes

    def new(slot):
        mk = rng.randrange(nm) if rng.random() < 0.5 else None
        ops.append(["new", slot, mk])
        created.add(slot)
        if mk is not None:
            written[slot] = 1
        if store == "db" and rng.random() < 0.4:            # in the session from the start (with or without a model yet)
            ops.append(["add", slot])
            added.add(slot)

    new(0)
    length = rng.randint(8, 20)
    guard = 0
    while len(ops) < length and guard < 400:
        guard += 1
        x = rng.random()
        slot = rng.choice(sorted(created))
        if x < 0.30:
            last = [o for o in ops if o[0] in ("write", "new") and o[1] == slot and o[2] is not None]
            k = rng.randrange(nm)
            if last and last[-1][2] == k and nm > 1 and rng.random() < 0.85:       # mostly a DIFFERENT model than the last one
                k = (k + 1 + rng.randrange(nm - 1)) % nm
            ops.append(["write", slot, k])
            written[slot] = written.get(slot, 0) + 1
        elif x < 0.62:
            if slot in written:
                ops.append(["read", slot])
        elif x < 0.67:
            if slot in written:
                ops.append(["writeback", slot])
        elif x < 0.72:
            if slot in written:
                ops.append(["revise", slot])
                written[slot] += 1
        elif x < 0.76:
            ops.append(["amend", slot, rng.randrange(nm)])
            written[slot] = written.get(slot, 0) + 1
        elif x < 0.79:
            ops.append(["touch", 0, rng.randrange(nm)])
        elif x < 0.83:
            if slot in written:
                ops.append(["scribble", slot])
        elif x < 0.88:
            if store == "db" and slot not in added:
                ops.append(["add", slot])
                added.add(slot)
        elif x < 0.95:
            if store == "db":
                ops.append([rng.choice(["flush", "commit", "commit", "expire", "reopen"])])
        else:
            free = [s for s in range(nslots) if s not in created]
            if free:
                new(free[0])
    for s in sorted(written):
        ops.append(["read", s])
    if store == "db":
        ops.append(["reopen"])
        for s in sorted(written):
            ops.append(["read", s])
    return {"kind": "history", "store": store, "variant": variant, "slots": nslots, "models": models, "ops": ops}


def gen_cases(ctx):
    n = 44 if ctx.tier == "quick" else 220
    return [gen_history_case(ctx) for _ in range(n)]


def expected_indices(c):
    """From the history alone: for every op index of a read (or the read inside a revise) the index, in the
    driver's `written` list, of (explicit, direct): the model last written EXPLICITLY to the slot (write / new /
    revise) and the state written directly before (write-backs included); plus the number of writes so far."""
    nm = len(c["models"])
    nxt = nm
    explicit, direct, base, count, model_idx = {}, {}, {}, {}, {}
    out = {}
    for k, op in enumerate(c["ops"]):
        name = op[0]
        if name == "new":
            if op[2] is not None:
                explicit[op[1]] = direct[op[1]] = model_idx.get(op[2], op[2])
                base[op[1]] = op[2]
                count[op[1]] = 1
        elif name == "write":
            explicit[op[1]] = direct[op[1]] = model_idx.get(op[2], op[2])
            base[op[1]] = op[2]
            count[op[1]] = count.get(op[1], 0) + 1
        elif name == "amend":
            model_idx[op[2]] = nxt
            nxt += 1
            explicit[op[1]] = direct[op[1]] = model_idx[op[2]]
            base[op[1]] = op[2]
            count[op[1]] = count.get(op[1], 0) + 1
        elif name == "writeback":
            out[k] = (explicit[op[1]], direct[op[1]], base[op[1]], count[op[1]])
            direct[op[1]] = nxt
            nxt += 1
        elif name == "revise":
            out[k] = (explicit[op[1]], direct[op[1]], base[op[1]], count[op[1]])
            explicit[op[1]] = direct[op[1]] = nxt
            nxt += 1
            count[op[1]] += 1
        elif name == "touch":
            model_idx[op[2]] = nxt
            nxt += 1
        elif name in ("read", "scribble"):
            out[k] = (explicit[op[1]], direct[op[1]], base[op[1]], count[op[1]])
    return out


def describe(c, upto):
    return " ; ".join(" ".join(str(x) for x in op) for op in c["ops"][:upto + 1])


def oracle(ctx, c, r, cfg, coq_cases, coq_idx, index):
    """Oracle for one history; appends the printable reads to the correspondence lists."""
    C8 = _c8()
    store = c["store"]
    form = FORM_OF[store]
    ctx.hist("history-store", store + ":" + str(c.get("variant")))
    ctx.hist("history-slots", c["slots"])
    for op in c["ops"]:
        ctx.hist("history-op", op[0])
    if "exc" in r:
        ctx.count_case(c, True, kind="history:" + store)
        ctx.failure("oracle", "history driver raised %s: %s" % (r["exc"], r.get("msg", "")[-400:]), c)
        return
    r = r["ok"]
    exp = expected_indices(c)
    written = r["written"]
    failed = False
    for rd in r["reads"]:
        k = rd["op"]
        sub = dict(c, ops=c["ops"][:k + 1])
        if "exc" in rd:
            ctx.count_case(sub, True, kind="history:" + store)
            ctx.oracle["cases"] += 1
            ctx.oracle["failures"] += 1
            failed = True
            ctx.failure("oracle", "history on one %s store: operation %d (%s) raised %s: %s   [history: %s]"
                        % (store, k, " ".join(map(str, c["ops"][k])), rd["exc"], rd.get("msg"), describe(c, k)), sub, impl=rd)
            break
        e, d, b, nwrites = exp[k]
        ctx.count_case(sub, nwrites >= 2, kind="history:" + store)
        ctx.oracle["cases"] += 1
        ctx.hist("history-read-after-writes", min(nwrites, 4))
        pseudo = dict(c["models"][b], steps=[{"form": form}])
        if rd.get("none"):
            ctx.oracle["failures"] += 1
            failed = True
            ctx.failure("oracle", "history on one %s store: the read at operation %d returned nothing   [history: %s]"
                        % (store, k, describe(c, k)), sub, impl=rd)
            continue
        if e >= len(written) or d >= len(written):
            continue
        for clause, msg, where in C8.compare_states(written[e], rd["obs"], form, None):
            ctx.oracle["failures"] += 1
            failed = True
            ctx.failure("oracle", "history on one %s store: the read at operation %d (slot %d, after %d writes) is not the model last written "
                        "[%s]: %s   [history: %s]" % (store, k, rd["slot"], nwrites, clause, msg, describe(c, k)), sub,
                        classes=C8.classes_for(pseudo, 0, clause, where),
                        impl={"written": written[e]["state"], "read": rd["obs"]["state"]})
        cc = C8.coq_case(pseudo, {"states": [written[d], rd["obs"]], "steps": [{"ok": True}]}, cfg)
        if cc is None:
            ctx.hist("correspondence", "history-read-not-printable")
        else:
            coq_cases.append(cc)
            coq_idx.append((index, failed))
    if index % 10 == 0:
        ctx.sample({"history": describe(c, len(c["ops"])), "store": store, "models": len(c["models"]),
                    "reads": len(r["reads"])})
