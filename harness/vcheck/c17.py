"""C17 -- messages form a consistent exponential-family algebra (DESIGN.md section 5, C17)."""
import json
import math
import os

from . import common
from .common import cfloat, cZ, cbool, clist, copt, cpair

INF = float("inf")
ID0 = 10 ** 6      # explicit ids of generated messages: far above anything AbstractMessage.ids can reach in a run
FAMS = ["normal", "natural", "gamma", "beta", "fixed"]
CFAM = {"normal": "FNormal", "natural": "FNatural", "gamma": "FGamma", "beta": "FBeta", "fixed": "FFixed"}


def unhex(s):
    if isinstance(s, (int, float)):
        return float(s)
    return float(s) if s in ("nan", "inf", "-inf") else float.fromhex(s)


def hx(x):
    x = float(x)
    if math.isnan(x):
        return "nan"
    if math.isinf(x):
        return "inf" if x > 0 else "-inf"
    return x.hex()


# classes of former findings that have been repaired in /repo: they suppress nothing; their pinned corpus cases are
# regression obligations
FIXED_CLASSES = {"transformed-drops-limits", "transformed-normal-zeros-like", "beta-project-raises", "fixed-sdiv",
                 "product-drops-lognorm", "transformed-project-raw-samples", "transformed-project-drops-kwargs",
                 "mixed-shape-broadcast", "mixed-parameter-shapes"}

# ---------------------------------------------------------------------------
# generator
# ---------------------------------------------------------------------------
def dy(rng, lo, hi, q=4):
    return rng.randint(int(lo * q), int(hi * q)) / q


def pos(rng):
    r = rng.random()
    if r < 0.4:
        return rng.choice([0.25, 0.5, 1.0, 1.5, 2.0, 3.0, 4.0])
    if r < 0.7:
        return dy(rng, 0.125, 6, 8)
    return rng.uniform(0.05, 8.0)


def anyreal(rng):
    r = rng.random()
    if r < 0.5:
        return dy(rng, -4, 4)
    if r < 0.8:
        return round(rng.uniform(-10, 10), rng.randint(0, 3))
    return rng.uniform(-1e2, 1e2)


def gen_params(rng, fam, n):
    """n elements -> list of parameter lists (one list per PARAMETER, n values each)"""
    if fam == "normal":
        return [[anyreal(rng) for _ in range(n)], [pos(rng) for _ in range(n)]]
    if fam == "natural":
        return [[anyreal(rng) for _ in range(n)], [-pos(rng) for _ in range(n)]]
    if fam in ("gamma", "beta"):
        return [[pos(rng) for _ in range(n)], [pos(rng) for _ in range(n)]]
    return [[anyreal(rng) for _ in range(n)]]


def gen_lognorm(rng):
    return 0.0 if rng.random() < 0.45 else dy(rng, -2, 2)


def gen_limits(rng):
    if rng.random() < 0.45:
        return -INF, INF
    lo = dy(rng, -6, 2)
    return lo, lo + dy(rng, 0.25, 8)


def gen_exponent(rng):
    r = rng.random()
    if r < 0.15:
        return rng.choice([0.0, 1.0, 2.0, -1.0, 0.5])
    if r < 0.7:
        return dy(rng, -3, 3)
    return rng.uniform(-3, 3)


STACKS = ["uniform", "loguniform", "lognormal", "log10normal", "shifted", "logexp", "uniform0"]


def gen_stack(rng, kind):
    if kind == "uniform":
        lo = dy(rng, -4, 4)
        return [["phi"], ["shift", hx(lo), hx(dy(rng, 0.25, 6))]]
    if kind == "uniform0":
        return [["phi"]]
    if kind == "loguniform":
        return [["phi"], ["shift", hx(dy(rng, -2, 1)), hx(dy(rng, 0.5, 3))], ["log10"]]
    if kind == "lognormal":
        return [["log"]]
    if kind == "log10normal":
        return [["log10"]]
    if kind == "shifted":
        return [["shift", hx(dy(rng, -4, 4)), hx(dy(rng, 0.25, 6))]]
    return [["log"], ["exp"]]


def gen_message(rng, fam, scalar, n, ident, tkind=None, stack=None):
    params = gen_params(rng, fam, n)
    lo, hi = gen_limits(rng)
    spec = {"fam": fam, "scalar": scalar, "params": [[hx(v) for v in p] for p in params],
            "log_norm": hx(gen_lognorm(rng)), "id": ident, "lo": hx(lo), "hi": hx(hi), "t": None}
    if tkind is not None:
        tlo, thi = gen_limits(rng)
        spec["t"] = {"stack": stack, "id": None if rng.random() < 0.5 else ident + 500,
                     "lo": hx(tlo), "hi": hx(thi), "kind": tkind}
    return spec


def gen_prior_message(rng):
    k = rng.choice(["uniform_prior", "log_uniform_prior", "log_gaussian_prior", "gaussian_prior"])
    if k == "uniform_prior":
        a = dy(rng, -4, 4)
        return {"ctor": k, "a": hx(a), "b": hx(a + dy(rng, 0.25, 6))}
    if k == "log_uniform_prior":
        a = rng.choice([0.125, 0.5, 1.0, 2.0])
        return {"ctor": k, "a": hx(a), "b": hx(a * rng.choice([4.0, 10.0, 100.0]))}
    if k == "log_gaussian_prior":
        return {"ctor": k, "a": hx(dy(rng, -2, 2)), "b": hx(pos(rng))}
    lo, hi = gen_limits(rng)
    return {"ctor": k, "a": hx(anyreal(rng)), "b": hx(pos(rng)), "lo": hx(lo), "hi": hx(hi)}


V = lambda i: ["var", i]  # noqa


def rand_expr(rng, depth, nvars=3):
    if depth == 0 or rng.random() < 0.2:
        return V(rng.randrange(nvars))
    op = rng.choice(["mul", "mul", "div", "pow", "smul", "rmul", "sdiv", "sum3", "sum3n", "zeros", "fromnat"])
    sub = lambda: rand_expr(rng, depth - 1, nvars)  # noqa
    if op in ("mul", "div"):
        return [op, sub(), sub()]
    if op == "pow":
        return [op, sub(), hx(gen_exponent(rng))]
    if op in ("smul", "rmul", "sdiv"):
        return [op, sub(), hx(pos(rng))]
    if op in ("sum3", "sum3n"):
        return [op, sub(), sub(), sub()]
    return [op, sub()]


LAWS = ["divmul", "muldiv", "powadd", "powmul", "pow1", "zeros", "assoc", "scalar", "roundtrip", "rand"]


def law_exprs(rng, law, fam):
    a, b, c = V(0), V(1), V(2)
    if law == "divmul":
        return [("ab", ["mul", a, b]), ("r", ["div", ["mul", a, b], b])], {}
    if law == "muldiv":
        return [("q", ["div", a, b]), ("r", ["mul", ["div", a, b], b])], {}
    if law == "powadd":
        j, k = dy(rng, -2, 3), dy(rng, -2, 3)
        if rng.random() < 0.6:
            j, k = abs(j) + 0.25, abs(k) + 0.25
        return [("pj", ["pow", a, hx(j)]), ("pk", ["pow", a, hx(k)]), ("p", ["pow", a, hx(j + k)]),
                ("r", ["mul", ["pow", a, hx(j)], ["pow", a, hx(k)]])], {"j": hx(j), "k": hx(k)}
    if law == "powmul":
        j, k = dy(rng, -2, 3), dy(rng, -2, 3)
        if rng.random() < 0.6:
            j, k = abs(j) + 0.25, abs(k) + 0.25
        return [("pj", ["pow", a, hx(j)]), ("p", ["pow", ["pow", a, hx(j)], hx(k)]), ("q", ["pow", a, hx(j * k)])], \
               {"j": hx(j), "k": hx(k)}
    if law == "pow1":
        k = gen_exponent(rng)
        return [("p1", ["pow", a, hx(1.0)]), ("pk", ["pow", a, hx(k)])], {"k": hx(k)}
    if law == "zeros":
        return [("z", ["zeros", a]), ("r", ["mul", a, ["zeros", a]]), ("p0", ["pow", a, hx(0.0)])], {}
    if law == "assoc":
        return [("l", ["mul", ["mul", a, b], c]), ("r", ["mul", a, ["mul", b, c]]), ("s", ["sum3", a, b, c]),
                ("sn", ["sum3n", a, b, c]), ("ab", ["mul", a, b]), ("ba", ["mul", b, a])], {}
    if law == "scalar":
        cc = pos(rng)
        return [("s", ["smul", a, hx(cc)]), ("rs", ["rmul", a, hx(cc)]), ("d", ["sdiv", a, hx(cc)]),
                ("r", ["sdiv", ["smul", a, hx(cc)], hx(cc)])], {"c": hx(cc)}
    if law == "roundtrip":
        return [("f", ["fromnat", a])], {}
    depth = rng.choice([1, 2, 2, 3])
    return [("e%d" % i, rand_expr(rng, depth)) for i in range(3)], {}


def gen_alg(ctx, count):
    rng = ctx.rng
    cases = []
    for i in range(count):
        r = rng.random()
        transformed = r < 0.4
        fam = rng.choice(["normal"] * 4 + ["natural", "gamma", "beta"]) if transformed else \
            rng.choice(["normal"] * 3 + ["natural"] * 2 + ["gamma"] * 2 + ["beta"] * 2 + ["fixed"])
        scalar = rng.random() < 0.6
        n = 1 if scalar else rng.randint(1, 4)
        law = rng.choice(LAWS)
        if fam == "fixed" and law == "roundtrip":
            law = "divmul"
        env = []
        if transformed:
            tkind = rng.choice(STACKS)
            stack = gen_stack(rng, tkind)
            for k in range(3):
                if k == 0 and scalar and fam == "normal" and rng.random() < 0.3:
                    env.append(gen_prior_message(rng))
                elif k > 0 and rng.random() < 0.25:
                    env.append(gen_message(rng, fam, scalar, n, ID0 + 1000 + k))        # transformed (op) base
                else:
                    env.append(gen_message(rng, fam, scalar, n, ID0 + 1000 + k, tkind, stack))
            if "ctor" in env[0]:
                for k in (1, 2):  # operands of a prior message must be scalar normals
                    if env[k].get("t"):
                        env[k]["t"]["stack"] = [["phi"], ["shift", hx(0.0), hx(1.0)]] if env[0]["ctor"] == "uniform_prior" else env[k]["t"]["stack"]
        else:
            for k in range(3):
                env.append(gen_message(rng, fam, scalar, n, ID0 + 1000 + k))
        if not scalar and n == 4 and rng.random() < 0.5:
            for e in env:                       # a 2-D message: the algebra is elementwise whatever the shape
                if "ctor" not in e:
                    e["shape"] = [2, 2]
        if transformed and rng.random() < 0.2:
            for k in (1, 2):                    # operand wrapped in a DIFFERENT stack: only its base takes part
                if env[k].get("t") and "ctor" not in env[0]:
                    other = rng.choice(STACKS)
                    env[k]["t"]["stack"] = gen_stack(rng, other)
                    env[k]["t"]["kind"] = other
        exprs, info = law_exprs(rng, law, fam)
        if fam == "fixed":
            exprs = [(nm, e) for nm, e in exprs if "fromnat" not in json.dumps(e)]
        cases.append({"kind": "alg", "fam": fam, "scalar": scalar, "n": n, "transformed": transformed,
                      "law": law, "env": env, "exprs": [[nm, e] for nm, e in exprs], "info": info})
    return cases


def gen_samples(rng, fam, n, d, exact):
    rows = []
    for _ in range(n):
        row = []
        for _ in range(d):
            if fam in ("normal", "natural"):
                row.append(dy(rng, -8, 8, 8) if exact else rng.gauss(1.0, 2.0))
            elif fam == "gamma":
                row.append(dy(rng, 0.125, 8, 8) if exact else rng.gammavariate(3.0, 0.7))
            else:
                row.append(dy(rng, 0.125, 0.875, 16) if exact else rng.betavariate(2.5, 3.5))
        rows.append(row)
    # degenerate samples have no projection
    for j in range(d):
        if len(set(r[j] for r in rows)) < 2:
            rows[0][j] += 0.5 if fam != "beta" else (0.0625 if rows[0][j] < 0.8 else -0.0625)
    return rows


def inverse_stack(stack, z):
    """TransformedMessage._inverse_transform for the stacks used by the projection generator"""
    for t in stack:
        if t[0] == "phi":
            z = 0.5 * (1.0 + math.erf(z / math.sqrt(2.0)))
        elif t[0] == "shift":
            z = z * unhex(t[2]) + unhex(t[1])
        elif t[0] == "log":
            z = math.exp(z)
        elif t[0] == "log10":
            z = 10.0 ** z
        elif t[0] == "exp":
            z = math.log(z) if z > 0 else (-INF if z == 0 else float("nan"))
    return z


def gen_proj(ctx, count):
    rng = ctx.rng
    cases = []
    for i in range(count):
        fam = rng.choice(["normal", "normal", "natural", "gamma", "beta"])
        scalar = rng.random() < 0.6
        d = 1 if scalar else rng.randint(2, 3)
        n = rng.randint(2, 7) if scalar else rng.randint(2, 12)
        exact = rng.random() < 0.4
        X = gen_samples(rng, fam, n, d, exact)
        r = rng.random()
        if r < 0.35:
            LW = None
        elif r < 0.5:
            LW = [[0.0] * d for _ in range(n)]
        else:
            LW = [[(dy(rng, -3, 0) if exact else rng.uniform(-4, 0)) for _ in range(d)] for _ in range(n)]
        lo, hi = gen_limits(rng)
        c = {"kind": "proj", "fam": fam, "scalar": scalar, "d": d, "n": n, "exact": exact,
             "samples": [[hx(v) for v in row] for row in X],
             "log_weights": None if LW is None else [[hx(v) for v in row] for row in LW],
             "id": ID0 + 2000 + i % 7, "lo": hx(lo), "hi": hx(hi), "t": None}
        if rng.random() < 0.25 and fam in ("normal", "gamma"):
            # samples are drawn in the base space and mapped to the space of the transformed message
            tkind = rng.choice(["shifted", "lognormal", "uniform"]) if fam == "normal" else "shifted"
            stack = gen_stack(rng, tkind)
            Z = gen_samples(rng, fam, n, d, False)
            if tkind == "uniform":
                Z = [[0.4 * z for z in row] for row in Z]
            X = [[inverse_stack(stack, z) for z in row] for row in Z]
            c["samples"] = [[hx(v) for v in row] for row in X]
            c["exact"] = False
            c["base"] = gen_message(rng, fam, scalar, d, ID0 + 3000)
            tlo, thi = gen_limits(rng)
            c["t"] = {"stack": stack, "id": None if rng.random() < 0.5 else ID0 + 3500, "lo": hx(tlo), "hi": hx(thi), "kind": tkind}
        cases.append(c)
    return cases


def gen_dens(ctx, count):
    rng = ctx.rng
    cases = []
    for i in range(count):
        r = rng.random()
        if r < 0.5:
            fam = rng.choice(["normal", "natural", "gamma", "beta"])
            spec = gen_message(rng, fam, True, 1, ID0 + 4000)
            if fam in ("gamma", "beta"):   # keep the density bounded at the ends of the support
                spec["params"] = [[hx(1.0 + pos(rng))], [hx((1.0 if fam == "beta" else 0.0) + pos(rng))]]
        elif r < 0.7:
            spec = gen_prior_message(rng)
            if spec["ctor"] == "log_gaussian_prior":   # keep the tails integrable by quadrature
                spec["b"] = hx(rng.choice([0.25, 0.5, 0.75, 1.0, 1.5]))
        else:
            tkind = rng.choice(STACKS)
            spec = gen_message(rng, "normal", True, 1, ID0 + 4000, tkind, gen_stack(rng, tkind))
            # moderate location/spread so that quadrature in the transformed space is reliable
            # (under phi the density is unbounded at the ends of the support when sigma > 1)
            spec["params"] = [[hx(dy(rng, -1, 1))], [hx(rng.choice([0.25, 0.5, 0.75, 1.0]))]]
        cases.append({"kind": "dens", "msg": spec, "q": [rng.uniform(0.08, 0.92) for _ in range(3)]})
    return cases


def gen_hist(ctx, count):
    """query -> m[i] = value -> query [-> m[j] = value -> query] on an array message"""
    rng = ctx.rng
    cases = []
    for k in range(count):
        fam = rng.choice(["normal", "natural", "gamma", "beta"])
        n = rng.randint(2, 4)
        msg = gen_message(rng, fam, False, n, ID0 + 6000)
        steps = []
        for _ in range(rng.choice([1, 2, 2, 3])):
            i = rng.randrange(n)
            if steps and rng.random() < 0.3:
                i = steps[-1][0]                     # overwrite the same entry again
            elif rng.random() < 0.25:
                lo_ = rng.randrange(n)
                i = ["slice", lo_, rng.randint(lo_ + 1, n)]
            elif rng.random() < 0.15:
                i = ["index"] + sorted(rng.sample(range(n), rng.randint(1, n)))
            steps.append([i, gen_message(rng, fam, True, 1, ID0 + 6100 + len(steps))])
        if fam in ("normal", "natural"):
            x = [anyreal(rng) for _ in range(n)]
        elif fam == "gamma":
            x = [pos(rng) for _ in range(n)]
        else:
            x = [rng.uniform(0.05, 0.95) for _ in range(n)]
        cases.append({"kind": "hist", "fam": fam, "n": n, "msg": msg, "steps": steps, "x": [hx(v) for v in x]})
    return cases


def expected_elems(c, upto):
    params = [list(p) for p in c["msg"]["params"]]
    for i, v in c["steps"][:upto]:
        for ii in step_indices(i):
            for k in range(len(params)):
                params[k][ii] = v["params"][k][0]
    return params


def step_indices(i):
    if isinstance(i, list):
        return list(range(i[1], i[2])) if i[0] == "slice" else list(i[1:])
    return [i]


def same_hex(a, b):
    if isinstance(a, str) or isinstance(b, str):
        return a == b
    if len(a) != len(b):
        return False
    for x, y in zip(a, b):
        if isinstance(x, list) or isinstance(y, list):
            if not (isinstance(x, list) and isinstance(y, list) and same_hex(x, y)):
                return False
        elif isinstance(x, bool) or isinstance(y, bool):
            if x != y:
                return False
        else:
            fx, fy = unhex(x), unhex(y)
            if not ((math.isnan(fx) and math.isnan(fy)) or (fx == fy and math.copysign(1, fx) == math.copysign(1, fy))):
                return False
    return True


def oracle_hist(c, res):
    """after every step every query on the mutated message equals the query on a fresh message built from the
    current parameters, the parameters are the pointwise replacement, and meta data never change"""
    out = []
    st = res["stages"]
    if len(st) != len(c["steps"]) + 1:
        return [("hist-shape", "driver returned %d stages" % len(st))]
    for k, s in enumerate(st):
        exp = expected_elems(c, k)
        if not all(same_hex(p, e) for p, e in zip(s["live"]["parameters"], exp)) or len(s["live"]["parameters"]) != len(exp):
            out.append(("setitem-params", "after %d assignments the parameters are %r, expected %r" % (k, s["live"]["parameters"], exp)))
        for q in sorted(s["fresh"]):
            if q not in s["live"] or not same_hex(s["live"][q], s["fresh"][q]):
                out.append(("stale-" + q, "after %d in-place assignments %s of the message is %r but a fresh message with the same "
                            "parameters gives %r" % (k, q, s["live"].get(q), s["fresh"][q])))
            if q in s["again"] and not same_hex(s["again"][q], s["live"].get(q)):
                out.append(("unstable-" + q, "two reads of %s on the same state differ" % q))
        if s["meta"] != st[0]["meta"]:
            out.append(("setitem-meta", "id/limits/log_norm/shape changed by item assignment: %r -> %r" % (st[0]["meta"], s["meta"])))
    return out


def coq_hist(c, res):
    n = c["n"]
    def rows(params):   # list per parameter -> list per element
        return clist([clist([cf(params[k][i]) for k in range(len(params))]) for i in range(n)])
    obs = []
    for s in res["stages"]:
        L = s["live"]
        nat = L.get("natural_parameters")
        if not isinstance(nat, list) or len(nat) != 2 * n:
            return None
        natp = [nat[:n], nat[n:]]
        mean, var = L.get("mean"), L.get("variance")
        if c["fam"] == "natural" or not isinstance(mean, list) or not isinstance(var, list) or len(mean) != n or len(var) != n:
            mv = clist([cpair(cf("nan"), cf("nan")) for _ in range(n)])
        else:
            mv = clist([cpair(cf(a), cf(b)) for a, b in zip(mean, var)])
        obs.append("(%s, %s, %s)" % (rows(L["parameters"]), rows(natp), mv))
    e0 = rows(c["msg"]["params"])
    steps = clist(["(%s, %s)" % (clist(["%d%%nat" % ii for ii in step_indices(i)]), clist([cf(v["params"][k][0]) for k in range(len(v["params"]))])) for i, v in c["steps"]])
    return "CHist %s %s %s %s" % (CFAM[c["fam"]], e0, steps, clist(obs))


def gen_mixed(ctx, count):
    """array message (op) scalar message of the same family (quantifier: scalars and arrays)"""
    rng = ctx.rng
    cases = []
    a, b = V(0), V(1)
    for k in range(count):
        fam = rng.choice(["normal", "natural", "gamma", "beta"])
        n = rng.choice([2, 2, 3, 4])
        env = [gen_message(rng, fam, False, n, ID0 + 7000), gen_message(rng, fam, True, 1, ID0 + 7001),
               gen_message(rng, fam, True, 1, ID0 + 7002)]
        exprs = [["ab", ["mul", a, b]], ["ba", ["mul", b, a]], ["adb", ["div", a, b]], ["bda", ["div", b, a]]]
        cases.append({"kind": "alg", "mixed": True, "fam": fam, "scalar": False, "n": n, "transformed": False,
                      "law": "mixed", "env": env, "exprs": exprs, "info": {}})
    return cases


def gen_mixedparam(ctx, count):
    """one message whose parameters have different shapes"""
    rng = ctx.rng
    cases = []
    for k in range(count):
        fam = rng.choice(["normal", "natural", "gamma", "beta"])
        n = rng.randint(2, 4)
        full = gen_params(rng, fam, n)
        which = rng.choice([0, 1])          # the parameter that stays scalar
        params = [[hx(v) for v in p] for p in full]
        params[which] = params[which][:1]
        # np.array([a, b]) of a length-n array and a scalar is ragged unless numpy can broadcast the arithmetic first
        inhomogeneous = not (fam == "normal" and which == 0)
        if fam in ("normal", "natural"):
            x = [anyreal(rng) for _ in range(n)]
        elif fam == "gamma":
            x = [pos(rng) for _ in range(n)]
        else:
            x = [rng.uniform(0.05, 0.95) for _ in range(n)]
        cases.append({"kind": "mixedparam", "fam": fam, "n": n, "params": params, "scalar_param": which,
                      "inhomogeneous": inhomogeneous, "x": [hx(v) for v in x]})
    return cases


def gen_lpdf(ctx, count):
    """logpdf / pdf (and factor of transformed messages) at scalar, array and batched points"""
    rng = ctx.rng
    cases = []
    for k in range(count):
        fam = rng.choice(["normal", "natural", "gamma", "beta"])
        scalar = rng.random() < 0.4
        n = 1 if scalar else rng.randint(1, 4)
        transformed = rng.random() < 0.25
        if transformed:
            fam = "normal"
            tkind = rng.choice(STACKS)
            msg = gen_message(rng, fam, scalar, n, ID0 + 8000, tkind, gen_stack(rng, tkind))
            msg["params"] = [[hx(dy(rng, -1, 1)) for _ in range(n)], [hx(rng.choice([0.25, 0.5, 0.75, 1.0])) for _ in range(n)]]
        else:
            msg = gen_message(rng, fam, scalar, n, ID0 + 8000)
            if fam == "beta" and rng.random() < 0.2:
                msg["params"] = [[hx(0.5)] * n, [hx(0.5)] * n]        # the class default
        batch = rng.random() < 0.5
        rows = rng.randint(1, 3) if batch else 1
        x_scalar = scalar and not batch and rng.random() < 0.6
        X = []
        for _ in range(rows):
            row = []
            for j in range(n):
                if transformed:
                    z = unhex(msg["params"][0][j]) + unhex(msg["params"][1][j]) * rng.uniform(-1.5, 1.5)
                    row.append(inverse_stack(msg["t"]["stack"], z))
                elif fam in ("normal", "natural"):
                    row.append(anyreal(rng))
                elif fam == "gamma":
                    row.append(pos(rng))
                else:
                    row.append(rng.uniform(0.02, 0.98))
            X.append([hx(v) for v in row])
        cases.append({"kind": "lpdf", "fam": fam, "scalar": scalar, "n": n, "msg": msg, "batch": batch,
                      "x_scalar": x_scalar, "x": X})
    return cases


def lp_elem_scale(fam, elem, x):
    """size of the terms that cancel inside natural_logpdf (bounds its rounding error)"""
    try:
        e = nat_from_elems(fam, [elem])[0]
        if fam in ("normal", "natural"):
            t = [x, x * x]
        elif fam == "gamma":
            t = [math.log(x), x]
        else:
            t = [math.log(x), math.log1p(-x)]
        return max(1.0, abs(e[0] * t[0]), abs(e[1] * t[1]))
    except (ValueError, OverflowError, ZeroDivisionError):
        return 1.0


def oracle_lpdf(c, res):
    out = []
    d = res["desc"]
    transformed = d.get("t") is not None
    elems = base_of(d)["elems"]
    fam = base_of(d)["fam"]
    rows = [[unhex(h) for h in r] for r in c["x"]]
    lib_lp, lib_ld = res["lib_lp"], res["lib_logd"]
    for q in (["logpdf", "pdf"] + (["factor", "tdet_y"] if transformed else [])):
        if isinstance(res.get(q), str):
            out.append(("exception", "%s: %s" % (q, res[q])))
    if isinstance(res.get("logpdf"), str):
        return out
    if len(res["logpdf"]) != len(rows) or any(len(r) != len(elems) for r in res["logpdf"]):
        return out + [("logpdf-shape", "logpdf has shape %r for x of shape %r" % ([len(res["logpdf"]), len(res["logpdf"][0])], [len(rows), len(elems)]))]
    for i, r in enumerate(rows):
        for j, x in enumerate(r):
            lb, ld, got = unhex(lib_lp[i][j]), unhex(lib_ld[i][j]), unhex(res["logpdf"][i][j])
            tol = 1e-10 * max(lp_elem_scale(fam, elems[j], x) if not transformed else 1.0, abs(lb), abs(ld), 1.0)
            if not close(got, lb + ld, tol):
                if transformed and close(got, lb, tol):
                    out.append(("logpdf@no-jacobian", "logpdf[%d][%d] = %r is the base density at T x without log T'(x) = %r" % (i, j, got, ld)))
                else:
                    out.append(("logpdf-pointwise", "logpdf[%d][%d] at x = %r is %r, library density %r (+ log-det %r)" % (i, j, x, got, lb, ld)))
            if not isinstance(res.get("pdf"), str):
                pv = unhex(res["pdf"][i][j])
                if not close(pv, math.exp(got) if got < 700 else INF, 1e-12 * max(1e-300, abs(pv))):
                    out.append(("pdf-exp", "pdf[%d][%d] = %r is not exp(logpdf) = %r" % (i, j, pv, math.exp(got))))
            if transformed and not isinstance(res.get("factor"), str):
                fv = unhex(res["factor"][i][j])
                if not close(fv, lb + ld, 1e-9 * max(1.0, abs(lb), abs(ld))):
                    out.append(("factor-pointwise", "factor[%d][%d] at x = %r is %r, library density + log-det = %r" % (i, j, x, fv, lb + ld)))
            if transformed and not isinstance(res.get("tdet_y"), str):
                if not close(unhex(res["tdet_logd"][i][j]), ld, 1e-9 * max(1.0, abs(ld))):
                    out.append(("logdet", "_transform_det logd[%d][%d] = %r, library value %r" % (i, j, unhex(res["tdet_logd"][i][j]), ld)))
    seen, uniq = set(), []
    for a_, m_ in out:
        if a_ not in seen:
            seen.add(a_)
            uniq.append((a_, m_))
    return uniq


def coq_lpdf(c, res):
    d = res["desc"]
    if d.get("t") is not None or isinstance(res.get("logpdf"), str):
        return None
    es = clist([clist([cf(x) for x in e]) for e in d["elems"]])
    xs = clist([clist([cf(h) for h in r]) for r in c["x"]])
    obs = clist([clist([cf(h) for h in r]) for r in res["logpdf"]])
    return "CLogpdf %s %s %s %s %s %s %s" % (c_tabs(res["tabs"]), CFAM[c["fam"]], cbool(c["scalar"]), cbool(c["x_scalar"]), es, xs, obs)


def gen_det(ctx, count):
    rng = ctx.rng
    cases = []
    for i in range(count):
        if rng.random() < 0.3:
            spec = gen_prior_message(rng)
            while spec["ctor"] == "gaussian_prior":
                spec = gen_prior_message(rng)
            if spec["ctor"] == "log_gaussian_prior":
                spec["b"] = hx(rng.choice([0.25, 0.5, 0.75, 1.0, 1.5]))
        else:
            tkind = rng.choice(STACKS)
            spec = gen_message(rng, "normal", True, 1, ID0 + 5000, tkind, gen_stack(rng, tkind))
            spec["params"] = [[hx(dy(rng, -1, 1))], [hx(rng.choice([0.25, 0.5, 0.75, 1.0]))]]
        cases.append({"kind": "det", "msg": spec, "q": [rng.uniform(0.1, 0.9) for _ in range(3)]})
    return cases


# ---------------------------------------------------------------------------
# independent arithmetic used by the oracle (never calls the model or the code)
# ---------------------------------------------------------------------------
def nat_from_elems(fam, elems):
    out = []
    for e in elems:
        p = [unhex(x) for x in e]
        try:
            if fam == "normal":
                out.append([p[0] / (p[1] * p[1]), -0.5 / (p[1] * p[1])])
            elif fam == "natural":
                out.append([p[0], p[1]])
            elif fam == "gamma":
                out.append([p[0] - 1.0, -p[1]])
            elif fam == "beta":
                out.append([p[0] - 1.0, p[1] - 1.0])
            else:
                out.append(list(p))
        except (ZeroDivisionError, OverflowError):
            out.append([float("nan")] * len(p))
    return out


def strictly_valid(fam, elems):
    for e in elems:
        p = [unhex(x) for x in e]
        if not all(math.isfinite(v) for v in p):
            return False
        if fam == "normal" and not p[1] > 0:
            return False
        if fam == "natural" and not p[1] < 0:
            return False
        if fam in ("gamma", "beta") and not (p[0] > 0 and p[1] > 0):
            return False
    return True


def base_of(d):
    return d["base"] if "t" in d and d.get("t") is not None and "base" in d else d


def close(a, b, tol):
    if math.isnan(a) or math.isnan(b):
        return False
    if math.isinf(a) or math.isinf(b):
        return a == b
    return abs(a - b) <= tol


def nat_close(na, nb, scale, rel=1e-9):
    if len(na) != len(nb):
        return False
    for ra, rb in zip(na, nb):
        if len(ra) != len(rb):
            return False
        for x, y in zip(ra, rb):
            if not close(x, y, rel * scale):
                return False
    return True


def nat_scale(*nats):
    s = 1.0
    for n in nats:
        for r in n:
            for v in r:
                if math.isfinite(v):
                    s = max(s, abs(v))
    return s


def compare_full(x, y, scale):
    """aspects in which message description x differs from y (x, y: driver descriptions)"""
    diffs = []
    xt, yt = x.get("t"), y.get("t")
    if (xt is None) != (yt is None):
        return ["wrapper"]
    if xt is not None:
        if xt["stack"] != yt["stack"]:
            diffs.append("t-stack")
        if xt["id"] != yt["id"]:
            diffs.append("t-id")
        if (unhex(xt["lo"]), unhex(xt["hi"])) != (unhex(yt["lo"]), unhex(yt["hi"])):
            diffs.append("t-limits")
    bx, by = base_of(x), base_of(y)
    if bx["cls"] != by["cls"]:
        diffs.append("class")
    if bx["shape"] != by["shape"]:
        diffs.append("shape")
    fam = bx["fam"]
    if fam == by["fam"]:
        if not nat_close(nat_from_elems(fam, bx["elems"]), nat_from_elems(fam, by["elems"]), scale):
            diffs.append("nat")
    lx, ly = bx["log_norm"], by["log_norm"]
    if isinstance(lx, list) or isinstance(ly, list) or not close(unhex(lx), unhex(ly), 1e-9 * max(1.0, abs(unhex(ly)))):
        diffs.append("log_norm")
    if bx["id"] != by["id"]:
        diffs.append("id")
    if (unhex(bx["lo"]), unhex(bx["hi"])) != (unhex(by["lo"]), unhex(by["hi"])):
        diffs.append("limits")
    return diffs


def combine(na, nb, f):
    return [[f(x, y) for x, y in zip(ra, rb)] for ra, rb in zip(na, nb)]


# ---------------------------------------------------------------------------
# property oracle
# ---------------------------------------------------------------------------
def case_classes(c, res, aspect):
    """finding classes of a failing sub-check.  A class is given only when (1) the CASE is of the kind the finding
    describes and (2) the oracle found EXACTLY the value the finding predicts (aspects written `<aspect>@<pin>`);
    any other wrong value is a VIOLATION."""
    cl = []
    if c["kind"] == "alg":
        pass
        # (log_norm@product-drops / exception@transformed-no-lognorm: former finding fixed by e239f62, no class any more)
        # (log_norm@fixed-sdiv is the former finding fixed by 7b98f8b: no class any more, a recurrence is a VIOLATION)
        # (mixed@broadcast-axis / mixed@raises, mixedparam@raises, stats@raw-samples, t-limits of project: former findings
        #  fixed by b6020a2, 6cf8670, ffa313c -- a recurrence is a VIOLATION)
    elif c["kind"] == "proj":
        if aspect == "stats@newton-leaves-domain" and c["fam"] == "beta" and c.get("t") is None:
            cl.append("beta-newton-leaves-domain")
    elif c["kind"] in ("dens", "lpdf"):
        d = res["desc"]
        if d.get("t") is not None:
            st = d["t"]["stack"]
            nontrivial = any(t[0] != "shift" or unhex(t[2]) != 1.0 for t in st)
            nonlinear = any(t[0] != "shift" for t in st)
            if aspect in ("pdf-norm@no-jacobian", "logpdf@no-jacobian") and nontrivial:
                cl.append("transformed-logpdf-omits-jacobian")
            if aspect in ("mean@first-order", "variance@first-order") and nonlinear:
                cl.append("transformed-moments-first-order")
    return cl


def oracle_alg(c, res):
    """returns list of (aspect, message)"""
    out = []
    env, R = res["env"], res["results"]
    law = c["law"]
    fam = c["fam"]

    def ok(name):
        return name in R and "ok" in R[name]

    def desc(name):
        return R[name]["ok"]

    def nat(d):
        b = base_of(d)
        return nat_from_elems(b["fam"], b["elems"])

    def valid(d):
        b = base_of(d)
        return strictly_valid(b["fam"], b["elems"])

    a, b, cc = env[0], env[1], env[2]
    exprs = dict((nm, e) for nm, e in c["exprs"])
    if c.get("mixed"):
        return oracle_mixed(c, res)
    # one exception belongs to the log_norm finding: <base message> / <transformed message> reads other.log_norm, which a
    # TransformedMessage does not have (AttributeError); it is predicted from the expression and pinned to that exception
    # type, every other exception is a plain failure (when the division works the laws are simply checked)
    raised = False
    for name in R:
        expected = base_div_transformed(exprs[name], env)
        if "exc" in R[name]:
            raised = True
            if expected and R[name]["exc"] == "AttributeError":
                out.append(("exception@transformed-no-lognorm", "%s: <base> / <transformed> raises AttributeError (TransformedMessage has no log_norm)" % name))
            else:
                out.append(("exception", "%s raised %s: %s" % (name, R[name]["exc"], R[name].get("msg"))))
    for name in R:
        if "ok" in R[name]:
            d0 = base_of(R[name]["ok"])
            if d0.get("nat") is not None and d0["fam"] is not None and d0["valid"] != closed_valid(d0):
                out.append(("is-valid", "%s: is_valid = %r but parameters %r / natural parameters %r say %r" % (
                    name, d0["valid"], d0["elems"], d0["nat"], closed_valid(d0))))
    if raised or law == "rand":
        return out
    all_nats = [nat(e) for e in env] + [nat(R[n]["ok"]) for n in R if "ok" in R[n]]
    scale = nat_scale(*all_nats)
    if fam == "fixed":
        # arithmetic on a fixed message is the identity: every law holds with "equals a"
        for name in R:
            if not ok(name):
                continue
            target = env[leftmost(exprs[name])]
            pinned_ln = unhex(base_of(target)["log_norm"])
            for cc_ in spine_sdivs(exprs[name]):          # the code subtracts log(c) for every `/ real` on the spine
                pinned_ln = pinned_ln - math.log(cc_)
            for asp in compare_full(desc(name), target, scale):
                if asp == "log_norm" and spine_sdivs(exprs[name]) and \
                        close(unhex(base_of(desc(name))["log_norm"]), pinned_ln, 1e-12 * max(1.0, abs(pinned_ln))):
                    asp = "log_norm@fixed-sdiv"
                out.append((asp, "%s: fixed message changed in %s" % (name, asp)))
        return out

    def same(name_x, target, what, pinned_ln=None):
        dx = desc(name_x) if isinstance(name_x, str) else name_x
        for asp in compare_full(dx, target, scale):
            if asp == "log_norm" and pinned_ln is not None and \
                    close(unhex(base_of(dx)["log_norm"]), pinned_ln, 1e-12 * max(1.0, abs(pinned_ln))):
                asp = "log_norm@product-drops"       # exactly the value C17_*_partial predicts for the defect
            out.append((asp, "%s: differs in %s" % (what, asp)))

    def additive(name, expect, what):
        if not nat_close(nat(desc(name)), expect, scale):
            out.append(("additivity", "%s: natural parameters %r expected %r" % (what, nat(desc(name)), expect)))

    def ln(d):
        return unhex(base_of(d)["log_norm"])

    def div_lognorm(q, x, y, what):
        # division subtracts log_norm (independent of the product defect)
        if not close(ln(q), ln(x) - ln(y), 1e-9 * max(1.0, abs(ln(x)), abs(ln(y)))):
            out.append(("div-lognorm", "%s: log_norm %r is not %r - %r" % (what, ln(q), ln(x), ln(y))))

    if law == "divmul":
        div_lognorm(desc("r"), desc("ab"), b, "(a*b)/b")
        if valid(desc("ab")):
            additive("ab", combine(nat(a), nat(b), lambda x, y: x + y), "a*b")
            same("r", a, "(a*b)/b vs a", pinned_ln=0.0 - unhex(base_of(b)["log_norm"]))
    elif law == "muldiv":
        div_lognorm(desc("q"), a, b, "a/b")
        if valid(desc("q")):
            additive("q", combine(nat(a), nat(b), lambda x, y: x - y), "a/b")
            same("r", a, "(a/b)*b vs a", pinned_ln=0.0)
    elif law == "powadd":
        j, k = unhex(c["info"]["j"]), unhex(c["info"]["k"])
        if valid(desc("pj")) and valid(desc("pk")) and valid(desc("p")):
            additive("pj", [[j * v for v in r] for r in nat(a)], "a**j")
            additive("p", [[(j + k) * v for v in r] for r in nat(a)], "a**(j+k)")
            same("r", desc("p"), "a**j * a**k vs a**(j+k)", pinned_ln=0.0)
    elif law == "powmul":
        if valid(desc("pj")) and valid(desc("q")):
            same("p", desc("q"), "(a**j)**k vs a**(j*k)")
    elif law == "pow1":
        same("p1", a, "a**1 vs a")
        k = unhex(c["info"]["k"])
        lk = unhex(base_of(desc("pk"))["log_norm"])
        if not close(lk, k * unhex(base_of(a)["log_norm"]), 1e-9 * max(1.0, abs(lk))):
            out.append(("pow-lognorm", "log_norm of a**k is %r, not k*log_norm = %r" % (lk, k * unhex(base_of(a)["log_norm"]))))
        if valid(desc("pk")):
            additive("pk", [[k * v for v in r] for r in nat(a)], "a**k")
    elif law == "zeros":
        z = nat(desc("z"))
        if not all(v == 0.0 for r in z for v in r):
            out.append(("zeros-nat", "zeros_like(a) has natural parameters %r" % z))
        else:
            same("r", a, "a * zeros_like(a) vs a", pinned_ln=0.0)
        if base_of(a)["fam"] != "normal":
            p0 = nat(desc("p0"))
            if not all(v == 0.0 for r in p0 for v in r):
                out.append(("pow0-nat", "a**0 has natural parameters %r" % p0))
    elif law == "assoc":
        if valid(desc("ab")) and valid(desc("l")):
            expect = combine(combine(nat(a), nat(b), lambda x, y: x + y), nat(cc), lambda x, y: x + y)
            for nm in ("l", "r", "s", "sn"):
                additive(nm, expect, "product of three (%s)" % nm)
            additive("ba", nat(desc("ab")), "b*a vs a*b")
            if a.get("t") is None:
                same("s", desc("l"), "a.sum_natural_parameters(b,c) vs (a*b)*c")
                same("sn", desc("l"), "a.sum_natural_parameters([b,[c]]) vs (a*b)*c")
            same("l", dict_with_nat_of(desc("l"), a), "meta of (a*b)*c vs a")
    elif law == "scalar":
        lc = math.log(unhex(c["info"]["c"]))
        la = unhex(base_of(a)["log_norm"])
        for nm, exp_ln in (("s", la + lc), ("rs", la + lc), ("d", la - lc), ("r", la)):
            d = desc(nm)
            tgt = json.loads(json.dumps(a))
            base_of(tgt)["log_norm"] = hx(exp_ln)
            if base_of(d)["elems"] != base_of(a)["elems"]:
                out.append(("scalar-params", "%s: parameters changed by a scalar factor" % nm))
            same(d, tgt, "a (*|/) c [%s]" % nm)
    elif law == "roundtrip":
        if valid(a):
            same("f", a, "from_natural_parameters(natural_parameters(a)) vs a")
    return out


def leftmost(e):
    while e[0] != "var":
        e = e[1]
    return e[1]


def spine_sdivs(e):
    """the real divisors met on the leftmost spine of an expression"""
    out = []
    while e[0] != "var":
        if e[0] == "sdiv":
            out.append(unhex(e[2]))
        e = e[1]
    return out[::-1]


def wrap_kind(e, env):
    return "T" if env[leftmost(e)].get("t") is not None else "B"


def base_div_transformed(e, env):
    if e[0] == "var":
        return False
    if e[0] == "div" and wrap_kind(e[1], env) == "B" and wrap_kind(e[2], env) == "T" and base_of(env[leftmost(e[1])])["fam"] != "fixed":
        return True
    return any(base_div_transformed(x, env) for x in e[1:] if isinstance(x, list))


def closed_valid(d):
    """MessageInterface.is_valid: finite natural parameters and parameters inside the CLOSED parameter support"""
    for row in d["nat"]:
        if not all(math.isfinite(unhex(v)) for v in row):
            return False
    fam = d["fam"]
    for e in d["elems"]:
        p = [unhex(x) for x in e]
        if fam == "fixed":
            continue
        if any(math.isnan(v) for v in p):
            return False
        if fam == "normal" and not p[1] >= 0:
            return False
        if fam == "natural" and not p[1] <= 0:
            return False
        if fam in ("gamma", "beta") and not (p[0] >= 0 and p[1] >= 0):
            return False
    return True


def params_from_nat(fam, e):
    """invert_natural_parameters in plain Python (nan/inf propagate as in IEEE arithmetic)"""
    def div(a, b):
        try:
            return a / b
        except ZeroDivisionError:
            return float("nan") if a == 0 or math.isnan(a) else math.copysign(INF, a) * math.copysign(1.0, b)
    if fam == "normal":
        v = div(-0.5, e[1])
        return [div(-0.5 * e[0], e[1]), math.sqrt(v) if v >= 0 else float("nan")]
    if fam == "natural":
        return list(e)
    if fam == "gamma":
        return [e[0] + 1.0, -e[1]]
    return [e[0] + 1.0, e[1] + 1.0]


def same_or_nan(a, b, tol):
    if math.isnan(a) or math.isnan(b):
        return math.isnan(a) and math.isnan(b)
    return close(a, b, tol)


def oracle_mixed(c, res):
    """array message (op) scalar message: the natural parameters of the scalar must be added to EVERY element.
    Known defect, pinned: the (2,n) and (2,) arrays are broadcast along the wrong axis -- a ValueError for n != 2,
    and for n = 2 element j gets the j-th natural parameter of the scalar added to both of its parameters."""
    out = []
    env, R = res["env"], res["results"]
    fam = c["fam"]
    A = nat_from_elems(fam, env[0]["elems"])
    sc = nat_from_elems(fam, env[1]["elems"])[0]
    n = len(A)
    sign = {"ab": (1, 1), "ba": (1, 1), "adb": (1, -1), "bda": (-1, 1)}
    for name, (sa, sb) in sign.items():
        r = R[name]
        right = [[sa * A[j][k] + sb * sc[k] for k in range(2)] for j in range(n)]
        wrong = [[sa * A[j][k] + sb * sc[j] for k in range(2)] for j in range(n)] if n == 2 else None
        if "exc" in r:
            if n != 2 and r["exc"] == "ValueError":
                out.append(("mixed@raises", "%s raised ValueError (operands could not be broadcast)" % name))
            else:
                out.append(("exception", "%s raised %s: %s" % (name, r["exc"], r.get("msg"))))
            continue
        d = r["ok"]
        got = [[unhex(x) for x in e] for e in d["elems"]]
        scale = nat_scale(A, [sc])
        def matches(nat):
            exp = [params_from_nat(fam, e) for e in nat]
            return len(got) == len(exp) and all(same_or_nan(g, x, 1e-9 * max(1.0, scale, abs(x) if math.isfinite(x) else 1.0))
                                                for gr, er in zip(got, exp) for g, x in zip(gr, er))
        if matches(right):
            continue
        if wrong is not None and matches(wrong):
            out.append(("mixed@broadcast-axis", "%s: parameters %r are those of a broadcast along the parameter axis, expected %r"
                        % (name, got, [params_from_nat(fam, e) for e in right])))
        else:
            out.append(("mixed", "%s: parameters %r, expected %r" % (name, got, [params_from_nat(fam, e) for e in right])))
    return out


def oracle_mixedparam(c, res):
    out = []
    if "ctor_exc" in res:
        return [("exception", "constructor raised " + res["ctor_exc"])]
    ref = res["ref"]
    for q in ("nat", "logpdf", "pow"):
        got, exp = res.get(q), ref.get(q)
        if isinstance(got, str):
            if got == "exc:ValueError" and c["inhomogeneous"]:
                out.append(("mixedparam@raises", "%s raises ValueError for parameters of shapes %r (np.array of a ragged list)"
                            % (q, [len(p) for p in c["params"]])))
            else:
                out.append(("exception", "%s gave %s" % (q, got)))
        elif isinstance(exp, list) and not same_hex(got, exp):
            out.append(("mixedparam", "%s = %r differs from the message with broadcast parameters %r" % (q, got, exp)))
    if res.get("shape") != ref["shape"]:
        out.append(("mixedparam-shape", "shape %r, expected %r" % (res.get("shape"), ref["shape"])))
    return out


def dict_with_nat_of(x, a):
    """description equal to `a` in every meta field but with the parameters of x (compares meta only)"""
    t = json.loads(json.dumps(a))
    base_of(t)["elems"] = base_of(x)["elems"]
    base_of(t)["log_norm"] = base_of(x)["log_norm"]
    return t


def weighted_stats(fam, X, LW):
    n, d = len(X), len(X[0])
    out = [[], []]
    for j in range(d):
        lws = [0.0] * n if LW is None else [LW[i][j] for i in range(n)]
        m = max(lws)
        w = [math.exp(l - m) for l in lws]
        sw = math.fsum(w)
        xs = [X[i][j] for i in range(n)]
        if fam in ("normal", "natural"):
            t = [xs, [x * x for x in xs]]
        elif fam == "gamma":
            t = [[math.log(x) for x in xs], xs]
        else:
            t = [[math.log(x) for x in xs], [math.log1p(-x) for x in xs]]
        for k in range(2):
            out[k].append(math.fsum(a * b for a, b in zip(t[k], w)) / sw)
    return out, None


def newton_leaves_domain(res, b, j):
    pred = res.get("newton5")
    if not pred or j >= len(pred) or pred[j] is None:
        return False
    pa, pb = unhex(pred[j][0]), unhex(pred[j][1])
    if pa > 0 and pb > 0:
        return False
    try:
        ga, gb = unhex(b["elems"][j][0]), unhex(b["elems"][j][1])
    except (IndexError, KeyError, TypeError):
        return False
    return close(ga, pa, 1e-9 * max(1.0, abs(pa))) and close(gb, pb, 1e-9 * max(1.0, abs(pb)))


def oracle_proj(c, res):
    out = []
    if "exc" in res:
        return [("exception", "project raised %s: %s" % (res["exc"], res.get("msg")))]
    d = res["ok"]
    fam = c["fam"]
    X = [[unhex(h) for h in row] for row in c["samples"]]
    LW = None if c["log_weights"] is None else [[unhex(h) for h in row] for row in c["log_weights"]]
    if c.get("t") is not None:
        Xb = [[unhex(h) for h in row] for row in res["base_samples"]]
        if len(Xb[0]) != len(X[0]):
            Xb = [[v] for row in Xb for v in row]
        X = Xb
    b = base_of(d)
    try:
        target, _ = weighted_stats(fam, X, LW)
    except ValueError:
        target = None
    got = [[unhex(h) for h in row] for row in res["member_stats"]]
    # normal / natural are closed forms, gamma's Newton inverse converges to machine precision (checked separately against a
    # root finder); inv_beta_suffstats does five Newton steps from a rough start and is only accurate to ~1e-7 on some inputs
    rel = 1e-6 if fam == "beta" else 1e-9
    # pinned defect of TransformedMessage.project: the member matches the statistics of the RAW samples
    raw_target = None
    if c.get("t") is not None:
        try:
            raw_target, _ = weighted_stats(fam, [[unhex(h) for h in row] for row in c["samples"]], LW)
        except ValueError:
            raw_target = None

    def agrees(tg):
        if tg is None:
            return False
        for k in range(2):
            for j, (g, t) in enumerate(zip(got[k], tg[k])):
                sc = max(1.0, abs(t), abs(tg[0][j]) ** 2 if fam in ("normal", "natural") else 1.0)
                if not close(g, t, rel * sc):
                    return (k, j, g, t)
        return True

    verdict = agrees(target) if target is not None else False
    if verdict is not True:
        pinned = agrees(raw_target) is True
        asp = "stats@raw-samples" if pinned else "stats"
        if target is None:
            out.append((asp, "transformed samples are outside the support of the base family"))
        else:
            k, j, g, t = verdict
            # known finding beta-newton-leaves-domain: the five Newton steps inv_beta_suffstats documents leave the parameter
            # domain for these moments (an independent re-run of that iteration predicts a non-positive parameter) and the
            # library returned exactly that point -- any other wrong value stays a plain `stats` failure
            if asp == "stats" and fam == "beta" and c.get("t") is None and newton_leaves_domain(res, b, j):
                asp = "stats@newton-leaves-domain"
            out.append((asp, "sufficient statistic %d of element %d is %r, sample moment is %r" % (k, j, g, t)))
    # the Newton inverse used for gamma moment matching against an independent root finder
    exact = dict((k, (e, t)) for k, e, t in res.get("tabs", {}).get("ipl_exact", []))
    for k, v in res.get("tabs", {}).get("ipl", []):
        if k not in exact:
            continue
        ev, tol = unhex(exact[k][0]), unhex(exact[k][1])
        if not math.isnan(ev) and not close(unhex(v), ev, tol * max(1.0, abs(ev))):
            out.append(("invpsilog-accuracy", "invpsilog(%r) = %r, root of digamma(x) - log(x) = c is %r (tolerance %.1e)" % (unhex(k), unhex(v), ev, tol)))
            break
    # log_norm = log of the mean weight
    if LW is None:
        lns = b["log_norm"] if isinstance(b["log_norm"], list) else [b["log_norm"]]
        if any(unhex(v) != 0.0 for v in lns):
            out.append(("log_norm", "log_norm of an unweighted projection is %r" % lns))
    if c.get("t") is None:
        if b["id"] != c["id"]:
            out.append(("id", "id_ not passed on"))
        if (unhex(b["lo"]), unhex(b["hi"])) != (unhex(c["lo"]), unhex(c["hi"])):
            out.append(("limits", "limits not passed on"))
    else:
        t = d["t"]
        if t["stack"] != c["t"]["stack"]:
            out.append(("t-stack", "transforms changed"))
        if t["id"] != c["t"]["id"]:
            out.append(("t-id", "id of the transformed message changed"))
        if (unhex(t["lo"]), unhex(t["hi"])) != (unhex(c["lo"]), unhex(c["hi"])):
            out.append(("t-limits", "limits passed to project are not on the projected message"))
    return out


def oracle_dens(c, res):
    out = []
    d = res["desc"]
    transformed = d.get("t") is not None
    main = "factor" if transformed else "pdf"
    for kind in (["pdf", "factor"] if transformed else ["pdf"]):
        r = res.get(kind, {})
        if "exc" in r:
            out.append(("exception", "%s raised %s %s" % (kind, r["exc"], r.get("msg"))))
            continue
        z = unhex(r["norm"])
        if not close(z, 1.0, 1e-6):
            asp = kind + "-norm"
            if kind == "pdf" and transformed and nojac_everywhere(res):
                asp = "pdf-norm@no-jacobian"
            out.append((asp, "%s integrates to %r over the support" % (kind, z)))
    out += pointwise_logpdf(res, transformed)
    r = res.get(main, {})
    if "exc" in r or "norm" not in r:
        return out
    m1, var = unhex(r["mean"]), unhex(r["var"])
    if "mean" in res:
        for nm, rep_, true, fo in (("mean", unhex(res["mean"]), m1, res.get("first_order_mean")),
                                   ("variance", unhex(res["variance"]), var, res.get("first_order_var"))):
            if not close(rep_, true, 1e-6 * max(1.0, abs(true))):
                asp = nm
                if transformed and fo is not None and close(rep_, unhex(fo), 1e-9 * max(1.0, abs(unhex(fo)))):
                    asp = nm + "@first-order"      # exactly the delta-method value, computed independently
                out.append((asp, "reported %s %r, density has %s %r" % (nm, rep_, nm, true)))
    elif "mean_exc" in res:
        out.append(("exception", "mean/variance raised " + res["mean_exc"]))
    if "cdf_exc" in res:
        out.append(("exception", "cdf/value_for raised " + res["cdf_exc"]))
    if "cdf_integral" in res and "value_for_cdf" in res:     # (a cdf / value_for that raised is reported above as `exception`)
        # (the finite-difference slope of the cdf is reported but not checked: the integral identity below is exact)
        for ci, cx, x in zip(res["cdf_integral"], res["cdf"], res["points"]):
            if not close(unhex(ci), unhex(cx) - unhex(res["cdf_lo"]), 1e-6):
                out.append(("cdf-integral", "cdf(x) = %r but the density integrates to %r up to x = %r" % (unhex(cx), unhex(ci), unhex(x))))
        for v, x in zip(res["value_for_cdf"], res["points"]):
            if not close(unhex(v), unhex(x), 1e-6 * max(1.0, abs(unhex(x)))):
                out.append(("value-for", "value_for(cdf(x)) = %r for x = %r" % (unhex(v), unhex(x))))
    return out


def lp_tol(lp, ld=0.0):
    return 1e-9 * max(1.0, abs(lp), abs(ld))


def nojac_everywhere(res):
    """the reported logpdf is, at every test point, the base density at T x WITHOUT the log-determinant"""
    if "lp_points" not in res:
        return False
    return all(close(unhex(a), unhex(b), lp_tol(unhex(b))) for a, b in zip(res["lp_points"], res["lp_base_at_Tx"]))


def pointwise_logpdf(res, transformed):
    """logpdf(x) against the library density (scipy.stats) of the base at an independently computed T x"""
    out = []
    if "lp_exc" in res:
        return [("exception", "logpdf raised " + res["lp_exc"])]
    if "lp_points" not in res:
        return out
    for x, got, lb, ld in zip(res["points"], res["lp_points"], res["lp_base_at_Tx"], res["lp_logdet"]):
        got, lb, ld = unhex(got), unhex(lb), unhex(ld)
        if close(got, lb + ld, lp_tol(lb, ld)):
            continue
        if transformed and close(got, lb, lp_tol(lb)):
            out.append(("logpdf@no-jacobian", "logpdf(%r) = %r is the base density at T x without log T'(x) = %r" % (unhex(x), got, ld)))
        else:
            out.append(("logpdf-pointwise", "logpdf(%r) = %r, library density %r (+ log-determinant %r)" % (unhex(x), got, lb, ld)))
        break
    return out


def oracle_det(c, res):
    out = []
    for x, lp, ld, llp, lld in zip(res["points"], res["base_lp"], res["logd"], res.get("lib_lp", []), res.get("lib_logd", [])):
        if not close(unhex(lp), unhex(llp), lp_tol(unhex(llp))):
            out.append(("det-base-logpdf", "base.logpdf(T x) = %r at x = %r, library density %r" % (unhex(lp), unhex(x), unhex(llp))))
        if not close(unhex(ld), unhex(lld), 1e-9 * max(1.0, abs(unhex(lld)))):
            out.append(("logdet", "log-determinant %r at x = %r, library value %r" % (unhex(ld), unhex(x), unhex(lld))))
    for x, ld, fd, fac, lp in zip(res["points"], res["logd"], res["fd_logd"], res["factor"], res["base_lp"]):
        ld, fd, fac, lp = unhex(ld), unhex(fd), unhex(fac), unhex(lp)
        if not close(ld, fd, 1e-5 * max(1.0, abs(fd))):
            out.append(("logdet", "log-determinant %r at x = %r, but log of the slope of the transform is %r" % (ld, unhex(x), fd)))
        if not close(fac, lp + ld, 1e-12 * max(1.0, abs(lp), abs(ld))):
            out.append(("factor", "factor(x) = %r is not base.logpdf(T x) + logd = %r" % (fac, lp + ld)))
    return out


def coq_det(c, res):
    st = clist([c_transform(t) for t in res["desc"]["t"]["stack"]])
    tabs = c_tabs(res["tabs"])
    return ["CDet %s %s %s %s %s %s %s" % (tabs, st, cf(x), cf(lp), cf(y), cf(ld), cf(fac))
            for x, lp, y, ld, fac in zip(res["points"], res["base_lp"], res["y"], res["logd"], res["factor"])]


# ---------------------------------------------------------------------------
# Coq printing
# ---------------------------------------------------------------------------
def cf(h):
    return cfloat(unhex(h))


def c_transform(t):
    if t[0] == "shift":
        return "(TShift %s %s)" % (cf(t[1]), cf(t[2]))
    return {"phi": "TPhi", "log": "TLog", "log10": "TLog10", "exp": "TExp"}[t[0]]


def c_msg(b, idmap):
    ln = b["log_norm"]
    assert not isinstance(ln, list)
    return "(mkmsg %s %s %s %s %s %s %s)" % (
        CFAM[b["fam"]], cbool(b["scalar"]), clist([clist([cf(x) for x in e]) for e in b["elems"]]),
        cf(ln), cZ(idmap(b["id"])), cf(b["lo"]), cf(b["hi"]))


def c_mval(d, idmap):
    if d.get("t") is None:
        return "(MB %s)" % c_msg(d, idmap)
    t = d["t"]
    return "(MT %s %s %s %s %s)" % (clist([c_transform(x) for x in t["stack"]]), copt(t["id"], cZ),
                                   cf(t["lo"]), cf(t["hi"]), c_msg(d["base"], idmap))


def c_expr(e):
    op = e[0]
    if op == "var":
        return "(EVar %d)" % e[1]
    if op in ("mul", "div"):
        return "(%s %s %s)" % ({"mul": "EMul", "div": "EDiv"}[op], c_expr(e[1]), c_expr(e[2]))
    if op == "pow":
        return "(EPow %s %s)" % (c_expr(e[1]), cf(e[2]))
    if op in ("smul", "rmul"):
        return "(ESMul %s %s)" % (c_expr(e[1]), cf(e[2]))
    if op == "sdiv":
        return "(ESDiv %s %s)" % (c_expr(e[1]), cf(e[2]))
    if op in ("sum3", "sum3n"):
        return "(ESum3 %s %s %s)" % (c_expr(e[1]), c_expr(e[2]), c_expr(e[3]))
    if op == "zeros":
        return "(EZeros %s)" % c_expr(e[1])
    if op == "fromnat":
        return "(EFromNat %s)" % c_expr(e[1])
    raise ValueError(op)


def c_tabs(t):
    t1 = lambda rows: clist([cpair(cf(k), cf(v)) for k, v in rows])  # noqa
    ib = clist(["(%s, %s, (%s, %s))" % (cf(a), cf(b), cf(x), cf(y)) for a, b, x, y in t["ib"]])
    bl = clist(["(%s, %s, %s)" % (cf(a), cf(b), cf(v)) for a, b, v in t.get("betaln", [])])
    return "(mktabs %s %s %s %s %s %s %s %s %s %s %s)" % (
        t1(t["sq"]), t1(t["log"]), t1(t["exp"]), t1(t["log1p"]), t1(t["ipl"]), ib,
        t1(t.get("log10", [])), t1(t.get("ndtri", [])), t1(t.get("normpdf", [])), t1(t.get("gammaln", [])), bl)


def env_ids(env):
    s = set()
    for e in env:
        if e.get("t") is not None:
            if e["t"]["id"] is not None:
                s.add(e["t"]["id"])
            s.add(e["base"]["id"])
        else:
            s.add(e["id"])
    return s


def coq_alg(c, res):
    """one Coq case per named expression"""
    if c.get("mixed"):
        return []      # numpy broadcasting between messages of different shapes is judged by the oracle only
    ids = env_ids(res["env"])
    idmap = lambda i: i if i in ids else -1  # noqa
    envs = clist([c_mval(e, idmap) for e in res["env"]])
    tabs = c_tabs(res["tabs"])
    terms = []
    for name, e in c["exprs"]:
        r = res["results"][name]
        if "ok" in r:
            d = r["ok"]
            b = base_of(d)
            if b["fam"] is None or isinstance(b["log_norm"], list):
                obs = "None"
            else:
                obs = "(Some %s)" % c_mval(d, idmap)
        else:
            obs = "None"
        terms.append("CAlg %s %s %s %s %s" % (tabs, cbool(c["scalar"]), envs, c_expr(e), obs))
    return terms


def coq_proj(c, res):
    X = c["samples"]
    n, dd = len(X), len(X[0])
    LW = c["log_weights"] or [[hx(0.0)] * dd for _ in range(n)]
    colsx0 = clist([cpair(clist([cf(X[i][j]) for i in range(n)]), clist([cf(LW[i][j]) for i in range(n)])) for j in range(dd)])
    if "ok" not in res:
        if c.get("t") is None:
            return "CProjExc %s" % CFAM[c["fam"]]
        return "CTProjExc %s %s %s %s %s" % (c_tabs(res["tabs"]), CFAM[c["fam"]], cbool(c["scalar"]),
                                             clist([c_transform(x) for x in c["t"]["stack"]]), colsx0)
    d = res["ok"]
    b = base_of(d)
    colsx = clist([cpair(clist([cf(X[i][j]) for i in range(n)]), clist([cf(LW[i][j]) for i in range(n)])) for j in range(dd)])
    lns = b["log_norm"] if isinstance(b["log_norm"], list) else [b["log_norm"]]
    obs = "%s %s %s %s %s" % (clist([clist([cf(x) for x in e]) for e in b["elems"]]), clist([cf(x) for x in lns]),
                              cZ(b["id"] if b["id"] in (c["id"],) else -1), cf(b["lo"]), cf(b["hi"]))
    if c.get("t") is None:
        return "CProj %s %s %s %s %s %s %s %s" % (c_tabs(res["tabs"]), CFAM[c["fam"]], cbool(c["scalar"]), colsx,
                                                 cZ(c["id"]), cf(c["lo"]), cf(c["hi"]), obs)
    t = d["t"]
    return "CTProj %s %s %s %s %s %s %s %s %s %s %s %s %s" % (
        c_tabs(res["tabs"]), CFAM[c["fam"]], cbool(c["scalar"]), colsx,
        clist([c_transform(x) for x in c["t"]["stack"]]), copt(c["t"]["id"], cZ), cf(c["lo"]), cf(c["hi"]),
        clist([c_transform(x) for x in t["stack"]]), copt(t["id"], cZ), cf(t["lo"]), cf(t["hi"]), obs)


# ---------------------------------------------------------------------------
# run
# ---------------------------------------------------------------------------
def check_env(c, res):
    """two-sided abstraction: the messages the driver built are the ones the generator asked for"""
    for spec, d in zip(c["env"], res["env"]):
        if "ctor" in spec:
            k = spec["ctor"]
            if k == "gaussian_prior":
                if d.get("t") is not None or d["elems"] != [[spec["a"], spec["b"]]] or (d["lo"], d["hi"]) != (spec["lo"], spec["hi"]):
                    return "GaussianPrior.message is %r" % d
                continue
            if d.get("t") is None:
                return "prior message is not transformed"
            a, b = unhex(spec["a"]), unhex(spec["b"])
            st = d["t"]["stack"]
            if k == "uniform_prior":
                exp = [["phi"], ["shift", hx(a), hx(b - a)]]
                if st != exp or [unhex(x) for x in d["base"]["elems"][0]] != [0.0, 1.0]:
                    return "UniformPrior(%r,%r).message has transforms %r base %r" % (a, b, st, d["base"]["elems"])
                if (unhex(d["t"]["lo"]), unhex(d["t"]["hi"])) != (a, b):
                    return "UniformPrior(%r,%r).message has limits %r" % (a, b, (d["t"]["lo"], d["t"]["hi"]))
            if k == "log_uniform_prior":
                if [t[0] for t in st] != ["phi", "shift", "log10"] or [unhex(x) for x in d["base"]["elems"][0]] != [0.0, 1.0]:
                    return "LogUniformPrior message has transforms %r" % st
                if not close(unhex(st[1][1]), math.log10(a), 1e-12) or not close(unhex(st[1][2]), math.log10(b / a), 1e-12):
                    return "LogUniformPrior(%r,%r) shift/scale %r" % (a, b, st[1])
            if k == "log_gaussian_prior":
                if st != [["log"]] or [unhex(x) for x in d["base"]["elems"][0]] != [a, b]:
                    return "LogGaussianPrior message %r" % d
            continue
        b = base_of(d)
        n = len(spec["params"][0])
        elems = [[spec["params"][k][i] for k in range(len(spec["params"]))] for i in range(n)]
        if [[unhex(x) for x in e] for e in b["elems"]] != [[unhex(x) for x in e] for e in elems] or b["fam"] != spec["fam"] \
                or b["id"] != spec["id"] or unhex(b["log_norm"]) != unhex(spec["log_norm"]) \
                or (unhex(b["lo"]), unhex(b["hi"])) != (unhex(spec["lo"]), unhex(spec["hi"])) or b["scalar"] != spec["scalar"]:
            return "constructed message %r differs from specification %r" % (b, spec)
        if spec.get("shape") and b["shape"] != spec["shape"]:
            return "constructed message has shape %r, specification %r" % (b["shape"], spec["shape"])
        if (spec["t"] is None) != (d.get("t") is None):
            return "wrapper differs from specification"
        if spec["t"] is not None:
            t = d["t"]
            if t["stack"] != spec["t"]["stack"] or t["id"] != spec["t"]["id"] or \
                    (unhex(t["lo"]), unhex(t["hi"])) != (unhex(spec["t"]["lo"]), unhex(spec["t"]["hi"])):
                return "transformed message %r differs from specification %r" % (t, spec["t"])
    return None


ROUTE_MSGS = ["normal", "natural", "gamma", "beta", "prior"] + ["t:" + k for k in STACKS]


def gen_route(ctx, count):
    """class (2)/(3) of the hardening sweep: ONE answer by several routes.  value_for (the quantile function), cdf, ppf,
    logpdf and pdf of a message called with a python float, np.float64, np.float32, an int, a 0-d array, a 1-element array,
    a k-element array (vectorised call), a (k, n) batch and -- on array messages -- one value per element or one float
    broadcast over the elements.  Every message shape of ROUTE_MSGS appears in every run (round robin, not by luck)."""
    rng = ctx.rng
    cases = []
    for i in range(count):
        shape = ROUTE_MSGS[i % len(ROUTE_MSGS)]
        scalar = (i // len(ROUTE_MSGS)) % 2 == 0
        n = 1 if scalar else rng.randint(1, 4)
        if shape == "prior":
            msg, scalar, n, fam = gen_prior_message(rng), True, 1, "normal"
        elif shape.startswith("t:"):
            fam = "normal"
            msg = gen_message(rng, fam, scalar, n, ID0 + 9000, shape[2:], gen_stack(rng, shape[2:]))
            msg["params"] = [[hx(dy(rng, -1, 1)) for _ in range(n)], [hx(rng.choice([0.25, 0.5, 0.75, 1.0])) for _ in range(n)]]
        else:
            fam = shape
            msg = gen_message(rng, fam, scalar, n, ID0 + 9000)
        k = rng.randint(2, 4)
        U, X = [], []
        for r in range(k):
            # unit values: dyadic (exact in binary32 too), both halves of (0, 1); the first case rows carry the end points
            urow = [rng.randint(3, 61) / 64.0 for _ in range(n)]
            if r == 0 and rng.random() < 0.25:
                urow = [float(rng.choice([0, 1])) for _ in range(n)]
            if r == 1:
                urow = [u if u != 0.5 else 0.25 for u in urow]
            U.append([hx(u) for u in urow])
            xrow = []
            for j in range(n):
                if msg.get("ctor") or msg.get("t"):
                    xrow.append(None)          # filled below from the unit value (a point inside the support)
                elif fam in ("normal", "natural"):
                    xrow.append(float(rng.randint(-6, 6)) if rng.random() < 0.4 else dy(rng, -6, 6))
                elif fam == "gamma":
                    xrow.append(float(rng.randint(1, 6)) if rng.random() < 0.4 else dy(rng, 0.125, 6))
                else:
                    xrow.append(rng.randint(1, 15) / 16.0)
            X.append(xrow)
        kexp = rng.choice([0.0, 1.0, 2.0, 3.0, -1.0, 0.5, 0.25, 1.5, -0.5])
        sfac = rng.choice([1.0, 2.0, 4.0, 0.5, 3.0, 0.75])
        pfam = ["normal", "natural", "gamma", "beta"][i % 4]
        pn = 1 if (i // 4) % 2 == 0 else rng.randint(1, 3)
        if pfam == "normal":
            pint = [[float(rng.randint(-4, 4)) for _ in range(pn)], [float(rng.randint(1, 3)) for _ in range(pn)]]
        elif pfam == "natural":
            pint = [[float(rng.randint(-4, 4)) for _ in range(pn)], [-float(rng.randint(1, 3)) for _ in range(pn)]]
        else:
            pint = [[float(rng.randint(1, 5)) for _ in range(pn)], [float(rng.randint(1, 5)) for _ in range(pn)]]
        px = rng.randint(1, 15) / 16.0
        cases.append({"kind": "route", "shape": shape, "fam": fam, "scalar": scalar, "n": n, "msg": msg, "k": hx(kexp), "s": hx(sfac),
                      "pfam": pfam, "pint": [[hx(v) for v in col] for col in pint], "px": hx(px),
                      "u": U, "x": X, "xq": [[rng.randint(3, 61) / 64.0 for _ in range(n)] for _ in range(k)]})
    return cases


def route_points(c):
    """evaluation points of a transformed / prior-built message: quantiles of the same message at dyadic levels computed HERE
    (standard library only), rounded to binary32 so that every route receives exactly the same number"""
    import struct
    from statistics import NormalDist
    msg = c["msg"]
    X = []
    for i, row in enumerate(c["x"]):
        out = []
        for j, x in enumerate(row):
            if x is None:
                z = NormalDist().inv_cdf(c["xq"][i][j])
                if msg.get("ctor") == "uniform_prior":
                    a, b = unhex(msg["a"]), unhex(msg["b"])
                    x = a + (b - a) * c["xq"][i][j]
                elif msg.get("ctor") == "log_uniform_prior":
                    a, b = unhex(msg["a"]), unhex(msg["b"])
                    x = a * (b / a) ** c["xq"][i][j]
                elif msg.get("ctor") == "log_gaussian_prior":
                    x = math.exp(unhex(msg["a"]) + unhex(msg["b"]) * z)
                elif msg.get("ctor") == "gaussian_prior":
                    x = unhex(msg["a"]) + unhex(msg["b"]) * z
                else:
                    x = inverse_stack(msg["t"]["stack"], unhex(msg["params"][0][j]) + unhex(msg["params"][1][j]) * z)
                x = struct.unpack("f", struct.pack("f", x))[0]
            out.append(hx(x))
        X.append(out)
    return X


def same_num(a, b, tol):
    if math.isnan(a) or math.isnan(b):
        return math.isnan(a) and math.isnan(b)
    if math.isinf(a) or math.isinf(b):
        return a == b
    return abs(a - b) <= tol


def oracle_route(c, res):
    out = []
    d = res["desc"]
    transformed = d.get("t") is not None
    bd = base_of(d)
    fam, elems = bd["fam"], bd["elems"]
    stack = d["t"]["stack"] if transformed else []
    ref = res["ref"]
    U = [[unhex(h) for h in r] for r in c["u"]]
    X = [[unhex(h) for h in r] for r in c["x"]]
    k, n = len(U), len(elems)

    def scale(f, i, j, r, bc=False):
        if f in ("logpdf", "pdf") and not transformed:
            s = lp_elem_scale(fam, elems[j], X[i][0 if bc else j])
            return max(1.0, abs(r), s) if f == "logpdf" else max(1.0, abs(r)) * max(1.0, s)
        return max(1.0, abs(r)) if math.isfinite(r) else 1.0

    for f in res["funcs"]:
        if isinstance(ref[f], str):
            out.append(("route-ref-exception:" + f, "scalar route: %s(float) on a scalar message raised %s" % (f, ref[f])))
    # (a) the scalar route against the libraries: quantile and cdf of the base family through the stack
    if "lib_q" in res and not isinstance(ref.get("value_for"), str):
        for i in range(k):
            for j in range(n):
                want = inverse_stack(stack, unhex(res["lib_q"][i][j]))
                got = unhex(ref["value_for"][i][j])
                if not same_num(got, want, 1e-9 * max(1.0, abs(want))):
                    out.append(("quantile-library", "value_for(%r) = %r on the scalar route, library quantile %r" % (U[i][j], got, want)))
                if not isinstance(ref.get("cdf"), str):
                    gc, wc = unhex(ref["cdf"][i][j]), unhex(res["lib_cdf"][i][j])
                    if not same_num(gc, wc, 1e-9):
                        out.append(("cdf-library", "cdf(%r) = %r on the scalar route, library cdf %r" % (X[i][j], gc, wc)))
    # (b) every route agrees elementwise with the scalar route, and is the inverse of the cdf ON THAT ROUTE
    for name, rr in sorted(res["routes"].items()):
        f32 = name.endswith("32")
        rtol = 2e-5 if f32 else 1e-12
        reference = res.get("ref_bcast", ref) if name == "bcast" else ref
        for f in res["funcs"]:
            got = rr.get(f)
            want = reference.get(f)
            if isinstance(want, str) or got is None:
                continue
            if isinstance(got, str):
                out.append(("route-%s:%s@%s" % ("shape" if got.startswith("shape") else "exception", f, name),
                            "%s through route %s: %s (scalar route answers)" % (f, name, got)))
                continue
            bad = None
            for i in range(k):
                for j in range(n):
                    if got[i][j] is None:
                        continue
                    g, w = unhex(got[i][j]), unhex(want[i][j])
                    if not same_num(g, w, rtol * scale(f, i, j, w, name == "bcast")):
                        bad = bad or (i, j, g, w)
                    if f == "cdf_vf":
                        u = U[i][0 if name == "bcast" else j]
                        if not same_num(g, u, 2e-5 if f32 else 1e-9):
                            out.append(("inverse-pair@" + name, "cdf(value_for(u)) = %r for u = %r on route %s (message element %d)" % (g, u, name, j)))
            if bad:
                pt = (U if f in ("value_for", "cdf_vf", "ppf") else X)[bad[0]][0 if name == "bcast" else bad[1]]
                out.append(("route:%s@%s" % (f, name), "%s at %r is %r through route %s but %r on the scalar route (row %d, element %d)"
                            % (f, pt, bad[2], name, bad[3], bad[0], bad[1])))
        # a quantile function is increasing: vectorised values ordered like the unit values
        vf = rr.get("value_for")
        if isinstance(vf, list) and name != "bcast":
            for j in range(n):
                col = sorted((U[i][j], unhex(vf[i][j])) for i in range(k) if vf[i][j] is not None)
                for (u0, v0), (u1, v1) in zip(col, col[1:]):
                    if u0 < u1 and not v0 < v1 and not (math.isnan(v0) or math.isnan(v1)):
                        out.append(("quantile-monotone@" + name, "value_for(%r) = %r >= value_for(%r) = %r through route %s" % (u0, v0, u1, v1, name)))
    # ppf (NormalMessage only) is the same function as value_for
    if "ppf" in res["funcs"] and not isinstance(ref.get("ppf"), str) and not isinstance(ref.get("value_for"), str):
        for i in range(k):
            for j in range(n):
                a, b = unhex(ref["ppf"][i][j]), unhex(ref["value_for"][i][j])
                if not same_num(a, b, 1e-9 * max(1.0, abs(b))):
                    out.append(("ppf-value_for", "ppf(%r) = %r but value_for = %r" % (U[i][j], a, b)))
    # (c) ** real, * real, real * , / real: one real number in every representation gives one message
    for op, reps in sorted(res.get("scal", {}).items()):
        want = reps.get("float")
        for rn, got in sorted(reps.items()):
            if rn == "float" or got == want:
                continue
            if isinstance(want, str) or isinstance(got, str):
                out.append(("scalar-rep-exception:%s@%s" % (op, rn), "%s with the real as %s: %s; as python float: %s" % (op, rn, str(got)[:160], str(want)[:160])))
                continue
            tol = 1e-6 if rn == "f32" else 0.0
            okv = all(got[q] == want[q] for q in ("wrap", "cls", "id", "lo", "hi", "shape")) \
                and len(got["elems"]) == len(want["elems"]) and len(got["log_norm"]) == len(want["log_norm"]) \
                and all(same_num(unhex(a), unhex(b), tol * max(1.0, abs(unhex(b)))) for ea, eb in zip(got["elems"], want["elems"]) for a, b in zip(ea, eb)) \
                and all(same_num(unhex(a), unhex(b), tol * max(1.0, abs(unhex(b)))) for a, b in zip(got["log_norm"], want["log_norm"]))
            if not okv:
                out.append(("scalar-rep:%s@%s" % (op, rn), "%s with the real %r as %s gives %s, as python float %s" % (
                    op, unhex(c.get("k", hx(2.0)) if op == "pow" else c.get("s", hx(2.0))), rn, json.dumps(got)[:300], json.dumps(want)[:300])))
    # (d) the parameters of a base message as int / np.int64 / np.float32 / 0-d array / integer arrays: same message
    pr = res.get("prep", {})
    want = pr.get("float")
    for rn, got in sorted(pr.items()):
        if rn == "float":
            continue
        if isinstance(want, str) or isinstance(got, str):
            if got != want:
                out.append(("param-rep-exception@" + rn, "%s(%s parameters) raised %s; python floats: %s" % (c["pfam"], rn, str(got)[:150], str(want)[:100])))
            continue
        tol = 1e-5 if rn == "f32" else 1e-13
        for q in sorted(want):
            a, b = got.get(q), want[q]
            if isinstance(a, str) or isinstance(b, str):
                if a != b:
                    out.append(("param-rep-exception:%s@%s" % (q, rn), "%s of %s built from %s parameters: %s; from floats: %s" % (q, c["pfam"], rn, str(a)[:150], str(b)[:100])))
            elif len(a) != len(b) or not all(same_num(unhex(u_), unhex(v_), tol * max(1.0, abs(unhex(v_)))) for u_, v_ in zip(a, b)):
                out.append(("param-rep:%s@%s" % (q, rn), "%s of %s%r built from %s parameters is %r, from python floats %r" % (
                    q, c["pfam"], [[unhex(h) for h in col] for col in c["pint"]], rn, [unhex(h) for h in a], [unhex(h) for h in b])))
    if isinstance(want, dict) and want.get("fromnat_i64") != want.get("fromnat"):
        out.append(("fromnat-rep@i64", "from_natural_parameters(integer array) gives %s, from the same values as floats %s" % (
            str(want.get("fromnat_i64"))[:200], str(want.get("fromnat"))[:200])))
    if isinstance(want, dict) and want.get("fromnat_direct_i64") != want.get("fromnat_direct"):
        out.append(("fromnat-direct-rep@i64", "from_natural_parameters(integer array) gives %s, from the same values as floats %s" % (
            str(want.get("fromnat_direct_i64"))[:200], str(want.get("fromnat_direct"))[:200])))
    # (e) sample(n): n as int / np.int64 / 0-d array gives n draws of the message's shape, None one draw; all inside the support
    for rn, got in sorted(res.get("sample", {}).items()):
        nn = {"none": None, "int1": 1, "int3": 3, "i64": 3, "0d": 3}[rn]
        if isinstance(got, str):
            out.append(("sample-exception@" + rn, "sample(%s) raised %s" % (rn, got)))
            continue
        exp_shape = got["msg_shape"] if nn is None else [nn] + got["msg_shape"]
        if got["shape"] != exp_shape:
            out.append(("sample-shape@" + rn, "sample(%s) has shape %r, expected %r" % (rn, got["shape"], exp_shape)))
        if not got["inside"]:
            out.append(("sample-support@" + rn, "sample(%s) leaves the support" % rn))
    seen, uniq = set(), []
    for a_, m_ in out:           # one report per kind of disagreement (the first route that shows it is named in the aspect)
        if a_.split("@")[0] not in seen:
            seen.add(a_.split("@")[0])
            uniq.append((a_, m_))
    return uniq


QUANT_ROUTES = ["float", "f64", "0d", "1el", "vec", "col", "float-again", "row", "batch", "row-again"]


def coq_route(c, res):
    """CQuant: the quantiles of a base NormalMessage observed through every binary64 route, against the model's value_for"""
    if "erfinv_tab" not in res or res["desc"].get("t") is not None:
        return None
    obs = []
    for name in QUANT_ROUTES:
        v = res["routes"].get(name, {}).get("value_for")
        if isinstance(v, list) and all(x is not None for r in v for x in r):
            obs.append(clist([clist([cf(h) for h in r]) for r in v]))
    if not obs:
        return None
    tab = clist([cpair(cf(k), cf(v)) for k, v in res["erfinv_tab"]])
    es = clist([clist([cf(x) for x in e]) for e in res["desc"]["elems"]])
    us = clist([clist([cf(h) for h in r]) for r in c["u"]])
    return "CQuant %s %s %s %s" % (tab, es, us, clist(obs))


def nontrivial(c):
    if c["kind"] == "alg":
        return c["law"] != "pow1" or c["fam"] != "fixed"
    if c["kind"] == "proj":
        return c["n"] >= 3
    return True


def strip(c):
    return c


def run(ctx):
    thorough = ctx.tier == "thorough"
    ctx.rule = (
        "cases are (alg) an environment of three messages of one family (normal, natural-normal, gamma, beta, fixed; scalar or 1-D "
        "array; base or wrapped in a uniform / log-uniform / log / log10 / shifted / log-exp transform stack, or built by a real "
        "prior) with ids, limits and log_norm, plus the abstract expressions of one algebraic law or a random expression tree; "
        "(proj) samples and log-weights projected by cls.project / TransformedMessage.project; (dens) a message whose reported "
        "density is integrated numerically; (det) points at which _transform_det / factor of a transformed message are compared "
        "bit for bit with the model; (lpdf) logpdf / pdf of scalar and array messages at scalar, array and batched points against scipy.stats and, "
        "bit for bit, against the model's natural_logpdf, factor/_transform_det of transformed messages at array points; (mixed) array (op) "
        "scalar messages and messages with parameters of different shapes; (hist) query -> m[i] = value -> query [-> ...] histories on array messages, every query compared "
        "bit for bit with a fresh message built from the current parameters and with the model; (route) ONE ANSWER BY EVERY ROUTE: value_for (quantile), cdf, cdf(value_for(u)), ppf, "
        "logpdf, pdf of every message shape (normal, natural, gamma, beta, real priors, each of the 7 transform stacks; scalar and array; round robin, so every shape in every run) "
        "called with a python float, np.float64, np.float32, int, 0-d array, 1-element array, k-element array (vectorised), (k,1) column, (k,n) batch, one value per element of an "
        "array message, one float broadcast over an array message, and again with a float after the array calls -- each compared elementwise with the scalar route (scalar message "
        "per element, python float per call), with cdf(value_for(u)) == u ON THAT ROUTE, with monotonicity of the vectorised quantiles and with scipy.stats quantiles / cdf of the "
        "base family pushed through an independent inverse of the stack; and m ** k, m * s, s * m, m / s with the real as float, np.float64, np.float32, 0-d array, int, np.int64; the PARAMETERS of a base message as int, np.int64, "
        "np.float32, 0-d (int) arrays, int64/int32/float32 arrays or mixed against the float-built message on 14 queries, from_natural_parameters of an integer array against the "
        "float array, sample(n) for n None / int / np.int64 / 0-d (shape and support only); the (hist) queries include cdf, value_for (array and float units), ppf and cdf(value_for); "
        "the quantiles of base NormalMessages observed through every binary64 route are also compared bit for bit with the model's value_for (CQuant, erfinv as oracle table). A case is non-trivial unless it is the a**1 law on a fixed message or a projection "
        "of fewer than 3 samples; distinct = distinct abstract input")
    ctx.trusted = [
        "Coq 8.16.1 kernel incl. vm_compute; primitive floats are kernel primitives; Reals axioms of the standard library",
        "correspondence harness c17.py / impl/c17_impl.py: message construction, description of results, printing of Coq terms",
        "oracle tables (C pow for x**2 on scalars, np.log, np.exp, np.log1p, invpsilog, inv_beta_suffstats) computed by the driver "
        "directly from the libraries on keys derived by an independent sequential re-computation",
        "numpy elementwise +,-,*,/,sqrt are IEEE-754 correctly rounded; np.mean over <8 contiguous items or over a non-contiguous "
        "axis adds sequentially (measured on this platform while building the check)",
        "modelled not verified: numpy broadcasting between messages of different shapes (judged by the oracle only: the "
        "elementwise expectation; formerly two findings, repaired), scipy quadrature / scipy.stats densities and quantiles / scipy.optimize.brentq used by the numerical oracles",
    ]
    ctx.assumptions = [
        "algebraic theorems are over exact rationals (gamma, beta, natural-normal, fixed; any number of array elements) and over "
        "the reals (normal: mean/sigma <-> natural parameters with sqrt); binary64 results are tied to the same definitions by "
        "bit-exact correspondence only",
        "the quantile/cdf inverse pair is proved over the reals for every branch of value_for whose erfinv argument is 2u-1 and for every transform stack, under the "
        "hypotheses erf(erfinv y) = y on (-1,1) and ndtri(Phi y) = y on the library functions; which branch runs for which argument type, and that both branches of the code "
        "carry that argument, is tied to the code by the route cases (oracle), not by a translator",
        "normalisation of the densities, CDF/mean/variance consistency and the Newton inverses of gamma/beta moment matching are "
        "checked numerically only (quadrature at 1e-6; logpdf pointwise against scipy.stats at 1e-10 of the cancelling terms; "
        "invpsilog against a bracketing root finder at a condition-aware 1e-11); they are not proved. C17_gamma_project assumes "
        "that invpsilog inverts psi(x) - ln x",
        "a known-finding class is matched only when the oracle observes exactly the value the finding predicts (pinned defect); "
        "any other wrong value is a VIOLATION",
        "laws are checked by the oracle only when every intermediate message is a valid member of its family (finite natural "
        "parameters strictly inside the support): NormalMessage is not closed under division and non-positive powers",
    ]
    try:
        src = open(os.path.join(common.COQ, "C17", "Model.v")).read()
        ctx.notes["code_variant"] = [l.strip() for l in src.splitlines() if l.startswith("Definition cur ")][0]
    except (OSError, IndexError):
        pass
    built = ctx.build()
    n_alg, n_proj, n_dens, n_det, n_hist, n_lpdf, n_mix = (400, 150, 50, 70, 110, 160, 40) if not thorough else (2600, 900, 320, 500, 800, 1200, 200)
    n_route = 72 if not thorough else 480
    cases = gen_alg(ctx, n_alg) + gen_proj(ctx, n_proj) + gen_dens(ctx, n_dens) + gen_det(ctx, n_det) + gen_hist(ctx, n_hist) \
        + gen_lpdf(ctx, n_lpdf) + gen_mixed(ctx, n_mix) + gen_mixedparam(ctx, n_mix)
    route_cases = gen_route(ctx, n_route)
    for rc in route_cases:
        rc["x"] = route_points(rc)
    cases += route_cases
    corpus_dir = os.path.join(common.VERIF, "corpus", "C17")
    regression = {}            # id(case) -> file name, for the pinned cases of findings that have been repaired
    if os.path.isdir(corpus_dir):
        for f in sorted(os.listdir(corpus_dir)):
            if f.endswith(".json"):
                entry = json.load(open(os.path.join(corpus_dir, f)))
                cases.insert(0, entry["case"])
                if entry.get("class") in FIXED_CLASSES:
                    sig = [k["signature"] for k in common.load_known("C17") if k.get("match", {}).get("class") == entry["class"]]
                    regression[id(entry["case"])] = (sig[0] if sig else f[:-5])
    reg_bad = {}
    if ctx.replay:
        rp = json.load(open(ctx.replay))
        if rp.get("case"):
            cases = [rp["case"]]
    chunks = [cases[i::common.NCPU] for i in range(common.NCPU)]
    chunks = [ch for ch in chunks if ch]
    outs = common.run_impl_parallel("c17_impl", [{"cases": ch} for ch in chunks], timeout=1500)
    results = [None] * len(cases)
    for k, (ch, o) in enumerate(zip(chunks, outs)):
        if "__error__" in o:
            ctx.obligation("impl-driver", "harness", False, o["__error__"][-800:])
            return
        for j, r in enumerate(o["results"]):
            results[k + j * common.NCPU] = r
    coq_terms, coq_idx = [], []
    for i, (c, r) in enumerate(zip(cases, results)):
        kind = c["kind"]
        label = kind + ":" + (c.get("law", "") if kind == "alg" else c.get("fam", "") if kind == "proj" else "")
        ctx.count_case(c, nontrivial(c), label)
        ctx.oracle["cases"] += 1
        if kind == "alg":
            ctx.hist("family", c["fam"] + ("/transformed" if c["transformed"] else ""))
            ctx.hist("shape", "scalar" if c["scalar"] else "array%d" % c["n"])
        if "exc" in r:
            ctx.oracle["failures"] += 1
            ctx.failure("oracle", "driver failed on the case: %s %s" % (r["exc"], r.get("msg")), c, impl=r)
            continue
        res = r["ok"]
        fails = []
        if kind == "alg":
            msg = check_env(c, res) if not c.get("mixed") or True else None
            if msg:
                fails.append(("construction", msg))
            fails += oracle_alg(c, res)
            coq = coq_alg(c, res)
            for t in coq:
                coq_terms.append(t)
                coq_idx.append(i)
        elif kind == "proj":
            fails += oracle_proj(c, res)
            t = coq_proj(c, res)
            if t:
                coq_terms.append(t)
                coq_idx.append(i)
        elif kind == "lpdf":
            fails += oracle_lpdf(c, res)
            t = coq_lpdf(c, res)
            if t:
                coq_terms.append(t)
                coq_idx.append(i)
        elif kind == "mixedparam":
            fails += oracle_mixedparam(c, res)
        elif kind == "route":
            ctx.hist("route-message", c["shape"] + ("/scalar" if c["scalar"] else "/array"))
            for rn_, rr_ in res.get("routes", {}).items():
                for f_, v_ in rr_.items():
                    if isinstance(v_, list):
                        ctx.hist("route", f_ + "@" + rn_)
            for op_, reps_ in res.get("scal", {}).items():
                for rn_ in reps_:
                    ctx.hist("route", op_ + "@" + rn_)
            for rn_ in res.get("prep", {}):
                ctx.hist("route", "params:%s@%s" % (c["pfam"], rn_))
            fails += oracle_route(c, res)
            t = coq_route(c, res)
            if t:
                coq_terms.append(t)
                coq_idx.append(i)
                ctx.hist("route-coq", "CQuant/" + ("scalar" if c["scalar"] else "array"))
        elif kind == "hist":
            fails += oracle_hist(c, res)
            t = coq_hist(c, res)
            if t:
                coq_terms.append(t)
                coq_idx.append(i)
            else:
                fails.append(("hist-shape", "natural parameters of a history stage have an unexpected shape"))
        elif kind == "det":
            fails += oracle_det(c, res)
            for t in coq_det(c, res):
                coq_terms.append(t)
                coq_idx.append(i)
        else:
            fails += oracle_dens(c, res)
        seen = set()
        for aspect, msg in fails:
            if aspect in seen:
                continue
            seen.add(aspect)
            ctx.oracle["failures"] += 1
            cls_ = case_classes(c, res, aspect)
            if id(c) in regression and ctx.match_known(cls_) is None:
                reg_bad.setdefault(id(c), []).append(aspect + ": " + msg[:120])
            ctx.failure("oracle", msg, c, classes=cls_, impl=_small(res))
        if i % 53 == 0:
            ctx.sample({"case": c if len(json.dumps(c)) < 1500 else {"kind": kind, "law": c.get("law"), "fam": c.get("fam")}}, limit=8)
    if os.path.exists(os.path.join(common.COQ, "C17", "Model.vo")):
        hdr = ctx.header(["Common.PyFloat", "Common.Lists", "Model"])
        bad, log = ctx.eval_cases(hdr, "case", "check_case", coq_terms, shard=120)
        for b in (bad or []):
            if id(cases[coq_idx[b]]) in regression:
                reg_bad.setdefault(id(cases[coq_idx[b]]), []).append("model and implementation disagree")
        if not ctx.replay:
            # the pinned case of every repaired finding must now satisfy the property and agree with the repaired model
            for cid, fname in sorted(regression.items(), key=lambda kv: kv[1]):
                ctx.obligation("regression:" + fname, "regression", cid not in reg_bad and bad is not None,
                               "; ".join(reg_bad.get(cid, [])) or "former finding stays repaired")
        if bad:
            seen = set()
            for b in bad:
                i = coq_idx[b]
                if i in seen:
                    continue
                seen.add(i)
                if len(seen) > 5:
                    break
                ctx.failure("correspondence", "model and implementation disagree on a %s case (%s)" % (cases[i]["kind"], cases[i].get("law", cases[i].get("fam"))),
                            cases[i], impl=_small(results[i].get("ok")), model=coq_terms[b][:3000],
                            broken={"kind": "correspondence", "name": "C17.check_case"}, found_input=True)
    else:
        ctx.obligation("correspondence:cases", "correspondence", False, "Model.vo not built")


def _small(res):
    s = json.dumps(res, default=str)
    return res if len(s) < 6000 else s[:6000]


MANIFEST = {
    "text": "Coq 8.16 theorems over one generic model of the message algebra (natural-parameter arithmetic of *, /, **, "
            "sum_natural_parameters, zeros_like, from_natural_parameters, re-wrapping of transformed messages, weighted moment "
            "matching, natural_logpdf, in-place item assignment) instantiated with Q (gamma, beta, natural-normal, fixed, any array length) and R (normal with sqrt; linear-shift "
            "change of variables; log-determinant of a transform stack by the chain rule), with refutation witnesses for the defects of "
            "the pinned code, plus bit-exact vm_compute correspondence of the same definitions (binary64 instance, libm/scipy values "
            "as oracle tables) with the running code on generated environments/expressions/projections and a direct property oracle; "
            "quantile/cdf inverse pair over R for every branch (scalar / ndarray fallback) of value_for, vectorised calls and transform stacks (Quantile.v), "
            "with the code's routes (argument representations) compared by the oracle",
    "note": "Proved: group/module laws on natural parameters, ordinary<->natural round trips, moment matching of the normal family, "
            "weight normalisation of project, Jacobian bookkeeping. NOT proved (numerical oracle only): normalisation integrals, "
            "CDF/mean/variance consistency, Newton inverses of gamma/beta moment matching. Known findings are printed as KNOWN-FINDING. "
            "Proved over R under library hypotheses (erf o erfinv = id on (-1,1), ndtri o Phi = id): cdf(value_for(u)) = u for both branches of value_for, "
            "vectorised calls and every shift/log/log10/exp/phi stack; a branch is sound iff its erfinv argument is 2u-1 (mirrored fallback refuted). Python lists as "
            "arguments / parameters and ndarray * message are outside the quantifier (not reals / arrays of the API) and are not exercised; sample() is checked for shape and support only.",
    "technique": "machine-checked proof in Coq (generic model, Q/R/binary64 instances) + vm_compute correspondence + numerical oracle",
}
