"""C08 -- models survive every persistence round trip (DESIGN.md section 5, C08)."""
import json
import os
from . import common
from . import modelgen as MG
from . import c01 as C01
from .common import cfloat, cnat, cstr, clist, cpair
from . import c08_hist as H          # write/read histories on one store object (own generator / oracle / printer)

MANIFEST = {
    "text": "Coq 8.16 theorems over a model of the three persistence codecs (dict/JSON with loaded_ids re-linking and fresh ids, "
            "pickle, database rows) as ONE stateful traversal of a tree that refines the C01 ModelTree with prior specifications, "
            "message ids, assertions, plain instances and dict constants, parametric in which of the proposed repairs the code "
            "contains: (i) refinement: the memoising dict decoder and the database codec compute the declarative image of ANY "
            "storable model (C08_dict_image, C08_db_image); (ii) a successful round trip of a plain model is an injective renaming "
            "of parameter identities and changes nothing else (shape, names, constants, prior family/limits/parameters in place, "
            "assertions), pickle and database keep the identities themselves; (iii) such a renaming keeps the path list, the "
            "partition of paths by parameter (never merges, never splits), the count, the instance built from any path arguments, "
            "and, when monotone, the order; (iv) closed under arbitrary mixed sequences of trips; (v) models with arithmetic priors "
            "(whose operand names are not stored) keep order, count and every instance through database and dict; the defects of "
            "the pinned code stay visible as _refuted witnesses next to the _partial theorems. Tied to the code by vm_compute "
            "correspondence of every single trip (model started from the previously observed live object graph, code configuration "
            "probed) on generated composition programs x mixed sequences of 1-3 trips, two-sided abstraction, plus a direct oracle "
            "of the property text and a position-based variant.",
    "note": "The pickle theorem is definitional (the model of pickle is the identity up to the message id of Gaussian priors): all "
            "assurance about pickle/dill, about the JSON text layer and about SQLite comes from correspondence and oracle; the order in "
            "which the database returns child rows (no order_by on Object.children; Compound.left = children[0]) is observed on every "
            "database trip and a deviation from write order is reported. Excluded from the abstraction (stated, not checked): the "
            "_is_frozen flag / caches, Model ids, and the `label` string Model.__setattr__ stamps on objects; observed by the oracle "
            "but not modelled in Coq: int-versus-float type of fixed values, Collection.item_number, None / str / tuple / list / plain "
            "instance constants, af.Array, unary ModifiedPrior. Trusted: Coq kernel + vm_compute; the harness's raw __dict__ abstraction of live models (ids compared up to a strictly "
            "monotone renumbering, for dict up to any injective one); SQLite/SQLAlchemy/json/pickle themselves (covered by "
            "correspondence only). Partial: the equivalence theorems for the dict form exclude components without free parameters "
            "that ARE written as exact instances (correspondence only; those with tuple / extra attributes are written as models since "
            "0b56c35 and are covered, C08_iter_next) and, for path-keyed statements, arithmetic priors (operand names not stored: the one "
            "remaining known finding; C08_round_trip_arith / C08_iter_arith cover them up to those names). Not modelled in Coq (oracle "
            "only): af.Array models (unary ModifiedPrior -x / abs(x) and subtraction a + (-b), % and // are inside the Coq model since ext-tree: kind KUn, expression EUn, ModelTree NUn / OMod / OFloorDiv; the operand name of a unary form is stored by all three forms, theorems C08_unary_*); width_modifier / labels / Model ids are "
            "not part of the property. Known findings of the tree are class-matched (known_findings/C08.json).",
    "technique": "machine-checked proof in Coq (hand-written codec model over the C01 tree; refinement of the stateful decoder, invariants, "
                 "induction over nested trees) + vm_compute correspondence",
}

MANIFEST["text"] += H.MANIFEST_TEXT
unhex = MG.unhex
FAMS = {"uniform": "FUniform", "loguniform": "FLogUniform", "gaussian": "FGaussian", "loggaussian": "FLogGaussian"}
FORMS = {"dict": "FDict", "pickle": "FPickle", "db": "FDb"}
ERRS = {"TypeError": "ETypeError", "AttributeError": "EAttributeError"}


# --------------------------------------------------------------------------------------
# generator
# --------------------------------------------------------------------------------------
class Gen8(MG.Gen):
    def new_prior(self):
        rng = self.rng
        r = rng.random()
        lo = rng.choice([-2.0, -1.0, 0.0, 0.5, 1.0, rng.randint(-8, 8) / 4.0])
        w = rng.choice([0.5, 1.0, 2.0, 4.0, rng.randint(1, 16) / 4.0])
        if rng.random() < 0.15:
            lo, w = rng.uniform(-3, 3), rng.uniform(0.1, 5)          # non-dyadic limits (text round trip of floats)
        if r < 0.55:
            spec = {"family": "uniform", "lo": lo.hex(), "hi": (lo + w).hex()}
        elif r < 0.70:
            spec = {"family": "gaussian", "mean": (lo + w / 2).hex(), "sigma": (w / 4).hex(), "lo": lo.hex(), "hi": (lo + w).hex()}
        elif r < 0.82:
            spec = {"family": "gaussian", "mean": (lo + w / 2).hex(), "sigma": (w / 4).hex(),
                    "lo": rng.choice(["-inf", lo.hex()]), "hi": "inf"}
        elif r < 0.975:
            lo = abs(lo) + 0.25
            spec = {"family": "loguniform", "lo": lo.hex(), "hi": (lo + w).hex()}
        else:
            spec = {"family": "loggaussian", "mean": (w / 2).hex(), "sigma": (w / 4).hex(), "lo": "0x0.0p+0", "hi": "inf"}
        self.pool.append(spec)
        return len(self.pool) - 1


def children(e):
    """(key, child) pairs of a program node in attribute order."""
    t = e["t"]
    if t == "model":
        out = []
        for arg, kind, extra in MG.SIGNATURES[e["cls"]]:
            out.append((arg, e["kw"][arg]))
        out += [(k, v) for k, v in e.get("extra", [])]
        return out
    if t == "coll":
        return [(k, v) for k, v in e["items"]]
    if t == "tuple":
        return [(str(i), m) for i, m in enumerate(e["members"])]
    if t == "arith":
        return [("l", e["l"]), ("r", e["r"])]
    if t == "unary":
        return [("a", e["a"])]
    return []


def desugar(e):
    """An arithmetic program expression as the operators build it: a - b is a + (-b), c - b is (-b) + c (MG.expected_tree)."""
    if e["t"] in ("arith", "unary"):
        return MG.expected_tree(e)
    return e


def refs_in(e):
    if e["t"] == "prior":
        return [e["ref"]]
    out = []
    for _, c in children(e):
        out += refs_in(c)
    return out


def has_kind(e, kind):
    return e["t"] == kind or any(has_kind(c, kind) for _, c in children(e))


def levels(e, path=()):
    """(path, node) of every Model / Collection node."""
    out = []
    if e["t"] == "model":
        out.append((list(path), e))
        for arg, kind, extra in MG.SIGNATURES[e["cls"]]:
            if kind == "class":
                out += levels(e["kw"][arg], path + (arg,))
    elif e["t"] == "coll":
        out.append((list(path), e))
        for k, sub in e["items"]:
            out += levels(sub, path + (k,))
    return out


def zero_out(e, rng):
    """Turn every free parameter below e into a constant (a component without free parameters)."""
    t = e["t"]
    if t in ("prior", "arith", "unary"):
        return {"t": "const", "v": (rng.randint(-12, 12) / 4.0).hex()}
    if t == "const":
        return e
    if t == "tuple":
        return {"t": "tuple", "members": [zero_out(m, rng) for m in e["members"]]}
    if t == "model":
        return dict(e, kw={k: zero_out(v, rng) for k, v in e["kw"].items()}, extra=[[k, zero_out(v, rng)] for k, v in e.get("extra", [])])
    if t == "coll":
        return dict(e, items=[[k, zero_out(v, rng)] for k, v in e["items"]])
    return e


def shift_refs(e, k):
    if e["t"] == "prior":
        e["ref"] += k
    for _, c in children(e):
        shift_refs(c, k)


def gen_operand(rng, refs):
    r = rng.random()
    if r < 0.6:
        return {"t": "prior", "ref": rng.choice(refs)}
    if r < 0.8:
        return {"t": "const", "v": (rng.randint(-8, 12) / 4.0).hex()}
    if r < 0.86:
        return {"t": "unary", "op": rng.choice(["neg", "abs"]), "a": {"t": "prior", "ref": rng.choice(refs)}}
    op = rng.choice(["+", "*", "/", "-", "%", "//"])
    l = {"t": "prior", "ref": rng.choice(refs)}
    rr = {"t": "const", "v": rng.choice([0.5, 2.0, 4.0]).hex()} if rng.random() < 0.5 else {"t": "prior", "ref": rng.choice(refs)}
    return {"t": "arith", "op": op, "l": l, "r": rr}


def gen_cmp(rng, refs):
    l, r = gen_operand(rng, refs), gen_operand(rng, refs)
    if l["t"] == "const" and r["t"] == "const":
        l = {"t": "prior", "ref": rng.choice(refs)}
    return {"k": "cmp", "op": rng.choice(["<", "<=", ">", ">="]), "l": l, "r": r}


def strip_copies(e):
    """The shared generator may emit {"t": "copy"} items (model.copy() with one constant changed: same
    priors).  For persistence only ids matter, so the copy is written out as the component it denotes."""
    if e["t"] == "coll":
        e = MG.resolve_copies(e) if hasattr(MG, "resolve_copies") else e
        return dict(e, items=[[k, strip_copies(v)] for k, v in e["items"]])
    if e["t"] == "model":
        return dict(e, kw={k: strip_copies(v) for k, v in e["kw"].items()})
    return e


def gen_case(ctx):
    rng = ctx.rng
    g = Gen8(rng, max_depth=2 if ctx.tier == "quick" else 3, big_tuples=rng.random() < 0.15,
             more_ops=rng.random() < 0.4, pow_ops=False)       # - neg abs % // (ModelTree: NUn, OMod, OFloorDiv; C08: KUn, EUn)
    prog = g.program()
    prog["root"] = strip_copies(prog["root"])
    root, pool = prog["root"], prog["pool"]
    feats = set(prog["features"])
    c = {"program": prog, "passed": [], "dicts": [], "asserts": []}
    # --- components without free parameters
    if rng.random() < 0.22:
        cands = [(p, n) for p, n in levels(root) if p and n["t"] == "model"]
        rng.shuffle(cands)
        for p, n in cands[:rng.choice([1, 1, 2])]:
            if rng.random() < 0.5:
                n.pop("extra", None)
                n["extra"] = []
            z = zero_out(n, rng)
            n.clear()
            n.update(z)
            feats.add("zeroprior")
            if has_kind(n, "tuple"):
                feats.add("zeroprior-tuple")
            if any(m.get("extra") for _, m in levels(n)):
                feats.add("zeroprior-extra")
            parent = [m for q, m in levels(root) if q == p[:-1]][0]
            if parent["t"] == "model" or any(m["t"] == "model" and q for q, m in levels(n)):
                feats.add("zeroprior-in-model")      # Model.__setattr__ labels the value it is given
    # --- prior passing of whole top-level components (fresh priors at the FRONT of the pool: small ids)
    if root["t"] == "coll" and rng.random() < 0.18:
        for k, sub in root["items"]:
            if (sub["t"] == "model" and sub["cls"] in ("G2", "G3") and not sub.get("extra")
                    and all(v["t"] in ("prior", "const") for v in sub["kw"].values()) and rng.random() < 0.7):
                names = [a for a, v in sub["kw"].items() if v["t"] == "prior"]
                if not names:
                    continue
                shift_refs(root, len(names))
                new = [dict(pool[sub["kw"][a]["ref"] - len(names)]) for a in names]
                for i, a in enumerate(names):
                    sub["kw"][a] = {"t": "prior", "ref": i}
                pool[:0] = [dict(s, family="uniform", lo=(-0.5).hex(), hi=(1.0).hex()) if s["family"] == "loggaussian" else s for s in new]
                c["passed"].append(k)
                feats.add("passed")
                break
    passed_refs = set()
    for k in c["passed"]:
        passed_refs |= set(refs_in(dict(root["items"])[k]))
    # --- copies: Prior.new() and Prior.with_limits() (both keep the message object of the original)
    if rng.random() < 0.2:
        occ = []

        def collect(e):
            for _, ch in children(e):
                if ch["t"] == "prior" and ch["ref"] not in passed_refs:
                    occ.append(ch)
                collect(ch)
        collect(root)
        rng.shuffle(occ)
        nbase = len(pool)
        for o in occ[:rng.choice([1, 1, 2])]:
            base = rng.randrange(nbase)
            if base in passed_refs or "derive" in pool[base]:
                continue
            b = pool[base]
            if b["family"] == "uniform" and rng.random() < 0.35:
                lo, hi = unhex(b["lo"]), unhex(b["hi"])
                pool.append({"derive": "with_limits", "of": base, "lo": (lo + (hi - lo) / 4).hex(), "hi": (hi - (hi - lo) / 4).hex()})
                feats.add("with_limits")
            else:
                pool.append({"derive": "new", "of": base})
                feats.add("new")
            o["ref"] = len(pool) - 1
            if base in refs_in(root):
                feats.add("copy-with-original")
    used = sorted(set(refs_in(root)))
    # --- dict-valued constants
    if rng.random() < 0.15:
        ms = [(p, n) for p, n in levels(root) if n["t"] == "model" and not any(p[:1] == [k] for k in c["passed"])]
        if ms:
            p, n = rng.choice(ms)
            items = [[k, rng.choice([0.0, 0.0, 1.5, -2.0, 0.25]).hex()] for k in rng.sample(["k", "j", "tol", "n"], rng.randint(1, 3))]
            c["dicts"].append([p, "opts", items])
            feats.add("dict")
            if any(unhex(v) == 0.0 for _, v in items):
                feats.add("dict-falsy")
            if not refs_in(n):
                feats.add("zeroprior-extra")
    # --- constants that are not floats: None, str, tuple, list, int, a plain instance (database: none / string_value /
    #     collection / value / instance rows; dict: JSON null, string, "tuple"/"list"/"instance" types)
    c["opaques"] = []
    if rng.random() < 0.2:
        ms = [(p, n) for p, n in levels(root) if n["t"] == "model" and not any(p[:1] == [k] for k in c["passed"])]
        if ms:
            p, n = rng.choice(ms)
            for nm, kind in zip(["note", "aux"], rng.sample(["none", "str", "tuple", "list", "int", "inst"], rng.choice([1, 2]))):
                c["opaques"].append([p, nm, kind])
                feats.add("opaque")
    # --- assertions
    assertable = [r for r in used if r not in passed_refs]
    lv = [p for p, n in levels(root) if refs_in(n) and not any(p[:1] == [k] for k in c["passed"])]
    if assertable and lv and rng.random() < 0.4:
        many = rng.random() < 0.06          # more than ten assertions on one level (list rows are rebuilt by numeric name)
        level_many = rng.choice(lv)
        for _ in range(rng.choice([11, 12]) if many else rng.choice([1, 1, 2])):
            if rng.random() < 0.8:
                a = gen_cmp(rng, assertable)
            else:
                first = gen_cmp(rng, assertable)
                op2 = rng.choice(["<", "<=", ">", ">="])
                lower, greater = (first["l"], first["r"]) if first["op"] in ("<", "<=") else (first["r"], first["l"])
                pivot = greater if op2 in ("<", "<=") else lower
                if pivot["t"] == "const":
                    pivot.clear()
                    pivot.update({"t": "prior", "ref": rng.choice(assertable)})
                a = {"k": "chain", "first": first, "op": op2, "other": gen_operand(rng, assertable)}
                feats.add("assert-chain")
            c["asserts"].append({"level": level_many if many else rng.choice(lv), "a": a})
            feats.add("assert")
    for r in used:
        s = pool[r]
        fam = s.get("family") or pool[s["of"]]["family"]
        feats.add("fam:" + fam)
    # --- the trips
    steps = []
    for _ in range(rng.choice([1, 1, 2, 2, 3])):
        form = rng.choices(["dict", "pickle", "db"], [40, 22, 38])[0]
        variant = {"dict": rng.choice(["dict", "dict", "autoconf", "file", "reference"]), "pickle": rng.choice(["pickle", "dill"]), "db": "fit"}[form]
        steps.append({"form": form, "variant": variant})
    c["steps"] = steps
    c["frozen"] = rng.random() < 0.34           # a fit freezes its model before it is saved
    c["values"] = [(rng.randint(-16, 16) / 8.0).hex() for _ in pool]
    prog["features"] = sorted(feats)
    return c


# --------------------------------------------------------------------------------------
# the tree the program denotes (two-sided rule)
# --------------------------------------------------------------------------------------
def norm_assert(a):
    k = a["k"]
    if k == "cmp":
        l, r = a["l"], a["r"]
        if a["op"] == "<":
            return {"k": "lt", "l": l, "g": r}
        if a["op"] == "<=":
            return {"k": "le", "l": l, "g": r}
        if a["op"] == ">":
            return {"k": "lt", "l": r, "g": l}
        return {"k": "le", "l": r, "g": l}
    first = norm_assert(a["first"])
    o = a["other"]
    if a["op"] == "<":
        second = {"k": "lt", "l": first["g"], "g": o}
    elif a["op"] == "<=":
        second = {"k": "le", "l": first["g"], "g": o}
    elif a["op"] == ">":
        second = {"k": "lt", "l": o, "g": first["l"]}
    else:
        second = {"k": "le", "l": o, "g": first["l"]}
    return {"k": "and", "a": first, "b": second}


def expected_spec(pool, ref, passed_refs):
    if ref in passed_refs:
        return {"fam": "gaussian"}
    s = pool[ref]
    if "derive" in s:
        b = pool[s["of"]]
        out = expected_spec(pool, s["of"], passed_refs)
        out["mid_ref"] = s["of"]          # Prior.new(): a copy that keeps the message object of the original
        if s["derive"] == "with_limits":
            out["mid_ref"] = ref          # d755794: with_limits builds a prior (and message) of its own
            out["lo"] = max(unhex(s["lo"]), unhex(b["lo"]))
            out["hi"] = min(unhex(s["hi"]), unhex(b["hi"]))
        return out
    out = {"fam": s["family"], "lo": unhex(s["lo"]), "hi": unhex(s["hi"]), "mid_ref": ref}
    if s["family"] in ("gaussian", "loggaussian"):
        out["par"] = [unhex(s["mean"]), unhex(s["sigma"])]
    return out


def same_expected(e, got, c, pool_ids, passed_refs, path=()):
    """Does the live object graph (abstraction `got`) equal what the program denotes?"""
    pool = c["program"]["pool"]
    t = e["t"]
    if t == "prior":
        if got["t"] != "prior" or got["id"] != pool_ids[e["ref"]]:
            return False
        sp = expected_spec(pool, e["ref"], passed_refs)
        if got["fam"] != sp["fam"]:
            return False
        if "lo" in sp and (unhex(got["lo"]) != sp["lo"] or unhex(got["hi"]) != sp["hi"]):
            return False
        if "par" in sp and [unhex(x) for x in got["par"]] != sp["par"]:
            return False
        if "mid_ref" in sp and got["mid"] != pool_ids[sp["mid_ref"]]:
            return False
        return True
    if t == "const":
        return got["t"] == "const" and unhex(got["v"]) == unhex(e["v"])
    if t == "arith" and e["op"] == "-":
        return same_expected(desugar(e), got, c, pool_ids, passed_refs)
    if t == "arith":
        return (got["t"] == "arith" and got["op"] == e["op"] and same_expected(e["l"], got["l"], c, pool_ids, passed_refs)
                and same_expected(e["r"], got["r"], c, pool_ids, passed_refs))
    if t == "unary":
        return got["t"] == "unary" and got["op"] == e["op"] and same_expected(e["a"], got["a"], c, pool_ids, passed_refs)
    if t in ("model", "coll"):
        if got["t"] != t or (t == "model" and got["cls"] != e["cls"]):
            return False
        exp_attrs = []
        for k, sub in children(e):
            if sub["t"] == "tuple":
                exp_attrs.append((k, {"t": "tuple*", "members": [("%s_%d" % (k, i), m) for i, m in enumerate(sub["members"])]}))
            else:
                exp_attrs.append((k, sub))
        for lv, name, kind in c.get("opaques", []):
            if list(lv) == list(path):
                exp_attrs.append((name, {"t": "opaque*", "kind": kind}))
        for lv, name, items in c["dicts"]:
            if list(lv) == list(path):
                exp_attrs.append((name, {"t": "dict*", "items": items}))
        if len(exp_attrs) != len(got["attrs"]):
            return False
        for (k, sub), (gk, gsub) in zip(exp_attrs, got["attrs"]):
            if k != gk:
                return False
            if sub["t"] == "tuple*":
                if gsub["t"] != "tuple" or len(gsub["members"]) != len(sub["members"]):
                    return False
                for (mk, m), (gmk, gm) in zip(sub["members"], gsub["members"]):
                    if mk != gmk or not same_expected(m, gm, c, pool_ids, passed_refs):
                        return False
            elif sub["t"] == "opaque*":
                want = {"none": "other", "str": "other", "tuple": "other", "list": "other", "int": "const", "inst": "inst"}[sub["kind"]]
                if gsub["t"] != want or (sub["kind"] == "int" and not gsub.get("int")):
                    return False
            elif sub["t"] == "dict*":
                if gsub["t"] != "dict" or [[a, unhex(b)] for a, b in gsub["items"]] != [[a, unhex(b)] for a, b in sub["items"]]:
                    return False
            elif not same_expected(sub, gsub, c, pool_ids, passed_refs, path + (k,)):
                return False
        exp_as = [norm_assert(a["a"]) for a in c["asserts"] if list(a["level"]) == list(path)]
        if len(exp_as) != len(got["asserts"]):
            return False
        return all(same_assert(x, y, c, pool_ids, passed_refs) for x, y in zip(exp_as, got["asserts"]))
    return False


def same_assert(e, g, c, pool_ids, passed_refs):
    if e["k"] != g["k"]:
        return False
    if e["k"] == "and":
        return same_assert(e["a"], g["a"], c, pool_ids, passed_refs) and same_assert(e["b"], g["b"], c, pool_ids, passed_refs)
    return same_expected(e["l"], g["l"], c, pool_ids, passed_refs) and same_expected(e["g"], g["g"], c, pool_ids, passed_refs)


# --------------------------------------------------------------------------------------
# views of an abstracted state used by the oracle
# --------------------------------------------------------------------------------------
def kids(s):
    t = s["t"]
    if t in ("model", "coll", "inst", "array"):
        return [(k, v) for k, v in s["attrs"]]
    if t == "tuple":
        return [(k, v) for k, v in s["members"]]
    if t == "arith":
        return [(s["rn"], s["r"])] if s["ln"] == s["rn"] else [(s["ln"], s["l"]), (s["rn"], s["r"])]
    if t == "unary":
        return [(s["name"], s["a"])]         # the operand's attribute name is stored: not name blind
    return []


def occurrences(s, path=()):
    """prior occurrences of the tree in walk order: (path, prior node)"""
    if s["t"] == "prior":
        return [(path, s)]
    out = []
    if s["t"] == "arith":          # name blind: both operands, whatever their attribute names are
        return occurrences(s["l"], path + ("<l>",)) + occurrences(s["r"], path + ("<r>",))
    for k, v in kids(s):
        out += occurrences(v, path + (k,))
    return out


def arith_blind(s):
    """The tree with the attribute names of arithmetic priors replaced by l/r (position based view)."""
    t = s["t"]
    if t == "arith":
        return {"t": "arith", "op": s["op"], "l": arith_blind(s["l"]), "r": arith_blind(s["r"])}
    if t == "unary":
        return {"t": "unary", "op": s["op"], "members": [[s["name"], arith_blind(s["a"])]]}
    if t in ("model", "coll", "inst", "array"):
        out = {"t": "node", "cls": s.get("cls"), "attrs": [[k, arith_blind(v)] for k, v in s["attrs"]]}
        if t == "array":
            out["shape"], out["indices"] = s["shape"], s["indices"]
        return out
    if t == "tuple":
        return {"t": "tuple", "members": [[k, arith_blind(v)] for k, v in s["members"]]}
    if t == "prior":
        return {"t": "prior", "spec": [s["fam"], unhex(s["lo"]), unhex(s["hi"]), [unhex(x) for x in s["par"]]]}
    if t == "const":
        return {"t": "const", "v": unhex(s["v"]), "int": bool(s.get("int"))}
    if t == "dict":
        return {"t": "dict", "items": [[k, unhex(v)] for k, v in s["items"]]}
    return dict(s)


def first_diff(a, b, path=()):
    """Location (attribute path) of the first difference of two arith_blind trees / abstract instances."""
    if type(a) != type(b):
        return path
    if isinstance(a, dict):
        if a.get("t") != b.get("t"):
            return path
        for key in ("attrs", "fields", "members"):
            if key in a or key in b:
                xa, xb = a.get(key, []), b.get(key, [])
                for (ka, va), (kb, vb) in zip(xa, xb):
                    if ka != kb:
                        return path + (ka,)
                    d = first_diff(va, vb, path + (ka,))
                    if d is not None:
                        return d
                if len(xa) != len(xb):
                    return path + ((xa + xb)[min(len(xa), len(xb))][0],)
        if a.get("t") == "arith":
            for k in ("l", "r"):
                d = first_diff(a[k], b[k], path + ("<%s>" % k,))
                if d is not None:
                    return d
        if a.get("t") == "tup":
            for i, (x, y) in enumerate(zip(a["vs"], b["vs"])):
                d = first_diff(x, y, path + (str(i),))
                if d is not None:
                    return d
        ra = {k: v for k, v in a.items() if k not in ("attrs", "fields", "members", "l", "r", "vs", "v")}
        rb = {k: v for k, v in b.items() if k not in ("attrs", "fields", "members", "l", "r", "vs", "v")}
        if ra != rb:
            return path
        if "v" in a and a.get("t") in ("const", "v"):
            va, vb = a["v"], b["v"]
            va = unhex(va) if isinstance(va, str) else va
            vb = unhex(vb) if isinstance(vb, str) else vb
            if not (va == vb or (va != va and vb != vb)):
                return path
        return None
    return None if a == b else path


def item_numbers(s, path=()):
    out = []
    if s["t"] == "coll":
        out.append((path, s.get("item_number")))
    for k, v in kids(s):
        if s["t"] != "arith":
            out += item_numbers(v, path + (k,))
    return out


def constants(s, path=()):
    t = s["t"]
    if t == "const":
        return [(path, unhex(s["v"]))]
    if t == "dict":
        return [(path + (k,), unhex(v)) for k, v in s["items"]]
    out = []
    if t == "arith":
        for k, v in (("l", s["l"]), ("r", s["r"])):
            out += constants(v, path + ("<%s>" % k,))
        return out
    for k, v in kids(s):
        out += constants(v, path + (k,))
    return out


def assertions_of(s, relabel, path=()):
    out = []
    if s["t"] in ("model", "coll"):
        for a in s["asserts"]:
            out.append((path, canon_assert(a, relabel)))
        for k, v in s["attrs"]:
            out += assertions_of(v, relabel, path + (k,))
    return out


def canon_expr(e, relabel):
    if e["t"] == "prior":
        return ("p", relabel.get(e["id"], ("?", e["id"])), e["fam"], unhex(e["lo"]), unhex(e["hi"]), tuple(unhex(x) for x in e["par"]))
    if e["t"] == "const":
        return ("c", unhex(e["v"]))
    if e["t"] == "arith":
        return ("a", e["op"], canon_expr(e["l"], relabel), canon_expr(e["r"], relabel))
    if e["t"] == "unary":
        return ("u", e["op"], canon_expr(e["a"], relabel))
    return ("other", json.dumps(e, sort_keys=True))


def canon_assert(a, relabel):
    if a["k"] == "and":
        return ("and", canon_assert(a["a"], relabel), canon_assert(a["b"], relabel))
    if a["k"] in ("lt", "le"):
        return (a["k"], canon_expr(a["l"], relabel), canon_expr(a["g"], relabel))
    return ("other", json.dumps(a, sort_keys=True))


def derived_of(s, relabel, path=()):
    out = []
    if s["t"] in ("arith", "unary"):
        out.append((path, canon_expr(s, relabel)))
    for k, v in kids(s):
        if s["t"] not in ("arith", "unary"):
            out += derived_of(v, relabel, path + (k,))
    return out


def spec_of(p):
    return (p["fam"], unhex(p["lo"]), unhex(p["hi"]), tuple(unhex(x) for x in p["par"]))


def has_other(s):
    if s["t"] == "other":
        return True
    if s["t"] in ("model", "coll"):
        for a in s["asserts"]:
            if "other" in json.dumps(a):
                return True
    if s["t"] == "arith":
        return has_other(s["l"]) or has_other(s["r"])
    return any(has_other(v) for _, v in kids(s))


def same_inst(a, b):
    """C01.same_inst, with opaque leaves (strings, ...) compared by their description."""
    if a["t"] != b["t"]:
        return False
    if a["t"] == "other":
        return a.get("repr") == b.get("repr")
    if a["t"] == "tup":
        return len(a["vs"]) == len(b["vs"]) and all(same_inst(x, y) for x, y in zip(a["vs"], b["vs"]))
    if a["t"] in ("obj", "coll"):
        return (a.get("cls") == b.get("cls") and len(a["fields"]) == len(b["fields"])
                and all(x[0] == y[0] and same_inst(x[1], y[1]) for x, y in zip(a["fields"], b["fields"])))
    return C01.same_inst(a, b)


def compare_states(prev, nxt, form, step=None):
    """The property between a model and its reloaded form. Returns [(clause, message, where)].
    Clauses `paths*`/`instance-strict` state the property text literally (values supplied per PATH); the
    `*-pos` clauses restate it by walk position, so that a renamed path cannot hide anything else.
    `where` is the attribute path of the first difference (used only to NARROW finding classes)."""
    out = []
    a, b = prev["state"], nxt["state"]
    oa, ob = occurrences(a), occurrences(b)
    blind_same = sorted(p for p, _ in oa) == sorted(p for p, _ in ob)      # paths with operand names replaced by <l>/<r>
    # ---- literal: same set of parameter paths
    if sorted(map(tuple, prev["paths"])) != sorted(map(tuple, nxt["paths"])):
        out.append(("paths-arith-names" if blind_same else "paths",
                    "parameter paths changed: %s -> %s" % (sorted(prev["paths"])[:6], sorted(nxt["paths"])[:6]), ()))
    else:
        ida = {tuple(p): i for p, i in prev["path_ids"]}
        idb = {tuple(p): i for p, i in nxt["path_ids"]}
        fwd, bwd = {}, {}
        for p in ida:
            if fwd.setdefault(ida[p], idb[p]) != idb[p]:
                out.append(("partition", "a shared parameter was split at path %s" % ".".join(p), p))
                break
            if bwd.setdefault(idb[p], ida[p]) != ida[p]:
                out.append(("partition", "two distinct parameters were merged (path %s)" % ".".join(p), p))
                break
    if nxt["count"] != prev["count"]:
        out.append(("partition", "prior_count %d -> %d" % (prev["count"], nxt["count"]), ()))
    if not nxt["paths_resolve"]:
        out.append(("paths-resolve", "an advertised path of the reloaded model does not resolve to its prior", ()))
    if not nxt.get("pv_complete", True):
        out.append(("pv-incomplete", "a parameter of the reloaded model has no counterpart (by walk position) in the original", ()))
    # ---- by position
    if len(oa) != len(ob):
        out.append(("structure-pos", "number of parameter occurrences %d -> %d" % (len(oa), len(ob)), first_diff(arith_blind(a), arith_blind(b)) or ()))
        return out
    fwd, bwd = {}, {}
    for (pa, x), (pb, y) in zip(oa, ob):
        if spec_of(x) != spec_of(y):
            out.append(("spec-pos", "prior at %s: %s -> %s" % (".".join(pa), spec_of(x), spec_of(y)), pa))
            break
    for (pa, x), (pb, y) in zip(oa, ob):
        if fwd.setdefault(x["id"], y["id"]) != y["id"]:
            out.append(("partition-pos", "a shared parameter was split (%s)" % ".".join(pa), pa))
            break
        if bwd.setdefault(y["id"], x["id"]) != x["id"]:
            out.append(("partition-pos", "two distinct parameters were merged (%s)" % ".".join(pa), pa))
            break
    ba, bb = arith_blind(a), arith_blind(b)
    if ba != bb:
        where = first_diff(ba, bb) or ()
        ca, cb = constants(a), constants(b)
        if [v for _, v in ca] != [v for _, v in cb] or len(ca) != len(cb):
            out.append(("constants-pos", "fixed values changed: %s -> %s" % (ca[:8], cb[:8]), where))
        else:
            out.append(("structure-pos", "the composition changed at %s (shape, class, type of a fixed value, opaque attribute)" % ".".join(where), where))
    if item_numbers(a) != item_numbers(b):
        bad = [p for (p, x), (_, y) in zip(item_numbers(a), item_numbers(b)) if x != y]
        out.append(("item-number", "Collection.item_number changed: %s -> %s" % (item_numbers(a)[:4], item_numbers(b)[:4]), bad[0] if bad else ()))
    ra = {x["id"]: i for i, (_, x) in reversed(list(enumerate(oa)))}      # id -> first position
    rb = {y["id"]: i for i, (_, y) in reversed(list(enumerate(ob)))}
    if assertions_of(a, ra) != assertions_of(b, rb):
        out.append(("assertions-pos", "assertions changed: %s -> %s" % (assertions_of(a, ra)[:3], assertions_of(b, rb)[:3]), ()))
    if [d for _, d in derived_of(a, ra)] != [d for _, d in derived_of(b, rb)]:
        out.append(("derived-pos", "derived-parameter relations changed", ()))
    # ---- instances (assertions ignored), then what the assertions say about the same values
    ia, ib = prev["inst"], nxt["inst"]
    if "ok" in ia:
        if "ok" not in ib:
            out.append(("instance-pos", "instance_from_path_arguments raised %s on the reloaded model" % ib.get("exc"), ()))
        elif not same_inst(ia["ok"], ib["ok"]):
            out.append(("instance-pos", "supplying the same values yields a different instance", first_diff(ia["ok"], ib["ok"]) or ()))
        if {tuple(p): v for p, v in prev["pv"]} != {tuple(p): v for p, v in nxt["pv"]} and not any(k.startswith("paths") for k, _, _ in out):
            out.append(("paths-arith-names" if blind_same else "paths", "the path arguments differ", ()))
    elif "ok" in ib:
        out.append(("instance-pos", "the original raised %s but the reloaded model builds an instance" % ia.get("exc"), ()))
    elif ia.get("exc") != ib.get("exc"):
        out.append(("instance-pos", "instance construction raises %s instead of %s" % (ib.get("exc"), ia.get("exc")), ()))
    for key in ("verdict", "verdict_vector"):
        if prev.get(key) != nxt.get(key) and "n/a" not in (prev.get(key), nxt.get(key)):
            out.append(("verdict", "%s of the same values: %s -> %s (assertions / limits gate differently)" % (key, prev.get(key), nxt.get(key)), ()))
    # the property's own wording: the same value for each ORIGINAL path
    sa, sb = prev.get("strict_inst"), nxt.get("strict_inst")
    if sa is not None and sb is not None and blind_same and not any(k.startswith("paths") for k, _, _ in out):
        if ("ok" in sa) != ("ok" in sb) or ("ok" in sa and not same_inst(sa["ok"], sb["ok"])) or ("exc" in sa and sa["exc"] != sb.get("exc")):
            out.append(("instance-strict", "instance_from_path_arguments({original path: value}) differs: %s -> %s"
                        % (sa.get("exc", "instance"), sb.get("exc", "instance")), first_diff(sa.get("ok"), sb.get("ok")) or ()))
    if step is not None and step.get("rows_out_of_order"):
        out.append(("row-order", "database rows came back in another order than written under %s" % step["rows_out_of_order"][:3], ()))
    # ---- order (pickle and database forms)
    if form in ("pickle", "db"):
        ranka = {i: k for k, i in enumerate(prev["ids"])}
        rankb = {i: k for k, i in enumerate(nxt["ids"])}
        seqa = [ranka.get(x["id"]) for _, x in oa]
        seqb = [rankb.get(y["id"]) for _, y in ob]
        if seqa != seqb:
            out.append(("order-pos", "parameter order changed: positions %s -> %s" % (seqa[:10], seqb[:10]), ()))
    return out


# --------------------------------------------------------------------------------------
# finding classes (computed from the case and the clause, never from the outcome)
# --------------------------------------------------------------------------------------
def case_features(c):
    """Features recomputed from the case itself (generated, corpus and replayed cases alike)."""
    prog = c["program"]
    root, pool = prog["root"], prog["pool"]
    feats = set()
    used = refs_in(root)
    if len(used) != len(set(used)):
        feats.add("shared")
    for kind in ("arith", "tuple", "const"):
        if has_kind(root, kind):
            feats.add(kind)
    if len(levels(root)) > 1:
        feats.add("nested")
    for r in set(used):
        sp = pool[r]
        if "derive" in sp:
            feats.add(sp["derive"])
            if sp["of"] in used:
                feats.add("copy-with-original")
        feats.add("fam:" + (sp.get("family") or pool[sp["of"]]["family"]))
    if c.get("passed"):
        feats.add("passed")
    for a in c.get("asserts", []):
        feats.add("assert")
        if a["a"]["k"] == "chain":
            feats.add("assert-chain")
    lv = levels(root)
    dict_levels = [list(l) for l, _, _ in c.get("dicts", [])] + [list(l) for l, _, _ in c.get("opaques", [])]
    for p, n in lv:
        if n["t"] == "model" and p and not refs_in(n):
            feats.add("zeroprior")
            if has_kind(n, "tuple"):
                feats.add("zeroprior-tuple")
            if n.get("extra") or list(p) in dict_levels:
                feats.add("zeroprior-extra")
            parent = [m for q, m in lv if q == p[:-1]][0]
            if parent["t"] == "model":
                feats.add("zeroprior-in-model")
    for l, name, kind in c.get("opaques", []):
        feats.add("opaque:" + kind)
    for l, name, items in c.get("dicts", []):
        feats.add("dict")
        if any(unhex(v) == 0.0 for _, v in items):
            feats.add("dict-falsy")
    return feats


def zero_prior_paths(c):
    root = c["program"]["root"]
    return [tuple(p) for p, n in levels(root) if n["t"] == "model" and p and not refs_in(n)]


def classes_for(c, step_index, clause, where=()):
    """Finding classes of a failing clause: a function of the case, the clause and (only to NARROW a class)
    the place of the first difference."""
    feats = case_features(c)
    forms = [s["form"] for s in c["steps"][:step_index + 1]]
    form = forms[-1]
    where = tuple(where or ())
    out = []
    # operand attribute names of arithmetic priors: ONLY a path difference that vanishes when the operand names are blinded
    if clause == "paths-arith-names" and "arith" in feats and form in ("dict", "db"):
        out.append("arith-names")
    return out


# --------------------------------------------------------------------------------------
# Coq printing (ids renumbered by rank among all ids and message ids of the state)
# --------------------------------------------------------------------------------------
def state_nums(s, acc):
    t = s["t"]
    if t == "prior":
        acc.add(s["id"])
        if s["mid"] is not None:
            acc.add(s["mid"])
    elif t == "arith":
        state_nums(s["l"], acc)
        state_nums(s["r"], acc)
    else:
        for _, v in kids(s) if t != "arith" else []:
            state_nums(v, acc)
    if t in ("model", "coll"):
        for a in s["asserts"]:
            assert_nums(a, acc)


def assert_nums(a, acc):
    if a["k"] == "and":
        assert_nums(a["a"], acc)
        assert_nums(a["b"], acc)
    elif a["k"] in ("lt", "le"):
        state_nums(a["l"], acc)
        state_nums(a["g"], acc)


def coq_spec(p, rk):
    return "(mkspec %s %s %s %s %s)" % (FAMS[p["fam"]], cfloat(unhex(p["lo"])), cfloat(unhex(p["hi"])),
                                         clist([cfloat(unhex(x)) for x in p["par"]]),
                                         "None" if p["mid"] is None else "(Some %s)" % cnat(rk[p["mid"]]))


def coq_expr(e, rk):
    if e["t"] == "prior":
        return "(EPrior %s %s)" % (cnat(rk[e["id"]]), coq_spec(e, rk))
    if e["t"] == "const":
        return "(EConst %s)" % cfloat(unhex(e["v"]))
    if e["t"] == "unary":
        return "(EUn %s %s)" % (MG.UNOPS[e["op"]], coq_expr(e["a"], rk))
    return "(EBin %s %s %s)" % (MG.OPS[e["op"]], coq_expr(e["l"], rk), coq_expr(e["r"], rk))


def coq_assert(a, rk):
    if a["k"] == "and":
        return "(AAnd %s %s)" % (coq_assert(a["a"], rk), coq_assert(a["b"], rk))
    return "(%s %s %s)" % ("ALt" if a["k"] == "lt" else "ALe", coq_expr(a["l"], rk), coq_expr(a["g"], rk))


def coq_state(s, rk):
    t = s["t"]
    if t == "prior":
        return "(SPrior %s %s)" % (cnat(rk[s["id"]]), coq_spec(s, rk))
    if t == "const":
        return "(SConst %s)" % cfloat(unhex(s["v"]))
    if t == "dict":
        return "(SDict %s)" % clist([cpair(cstr(k), cfloat(unhex(v))) for k, v in s["items"]])
    if t == "tuple":
        return "(SNode (KTuple %s) %s [])" % (clist([cnat(MG.member_index(k)) for k, _ in s["members"]]),
                                               clist([cpair(cstr(k), coq_state(v, rk)) for k, v in s["members"]]))
    if t == "arith":
        return "(SNode (KBin %s) %s [])" % (MG.OPS[s["op"]], clist([cpair(cstr(s["ln"]), coq_state(s["l"], rk)), cpair(cstr(s["rn"]), coq_state(s["r"], rk))]))
    if t == "unary":
        return "(SNode (KUn %s) %s [])" % (MG.UNOPS[s["op"]], clist([cpair(cstr(s["name"]), coq_state(s["a"], rk))]))
    ch = clist([cpair(cstr(k), coq_state(v, rk)) for k, v in s["attrs"]])
    if t == "coll":
        return "(SNode KColl %s %s)" % (ch, clist([coq_assert(a, rk) for a in s["asserts"]]))
    ctor = clist([cstr(a) for a, _, _ in MG.SIGNATURES[s["cls"]]])
    if t == "model":
        return "(SNode (KModel %s %s) %s %s)" % (cstr(s["cls"]), ctor, ch, clist([coq_assert(a, rk) for a in s["asserts"]]))
    if t == "inst":
        return "(SNode (KInst %s %s) %s [])" % (cstr(s["cls"]), ctor, ch)
    raise ValueError(t)


def printable(s):
    if has_other(s):
        return False
    ok = True

    def names(x):
        nonlocal ok
        if x["t"] == "arith":
            for nm in (x["ln"], x["rn"]):
                if nm.startswith("_") or nm in ("id", "cls") or not all(32 <= ord(ch) < 127 for ch in nm):
                    ok = False
            names(x["l"])
            names(x["r"])
        if x["t"] == "unary":
            nm = x["name"]
            if x["op"] not in MG.UNOPS or x["keys"] != [nm] or nm.startswith("_") or nm in ("id", "cls") \
                    or not all(32 <= ord(ch) < 127 for ch in nm):
                ok = False
        if x["t"] == "arith" and x["op"] not in MG.OPS:
            ok = False
        if x["t"] == "prior" and x["fam"] not in FAMS:
            ok = False
        for _, v in kids(x) if x["t"] != "arith" else []:
            names(v)
    names(s)
    return ok


def coq_obs(o):
    acc = set()
    state_nums(o["state"], acc)
    rk = {v: i for i, v in enumerate(sorted(acc))}
    if any(i not in rk for i in o["ids"]):
        return None
    # the instance is compared when there is one (division by zero in a derived value: state / paths / ids are still compared)
    inst = "None" if ("ok" not in o["inst"] or has_other_inst(o["inst"]["ok"])) else "(Some %s)" % MG.coq_ival(o["inst"]["ok"])
    return ("{| o_state := %s; o_paths := %s; o_count := %s; o_ids := %s; o_pv := %s; o_inst := %s |}" % (
        coq_state(o["state"], rk), clist([MG.coq_path(p) for p in o["paths"]]), cnat(o["count"]),
        clist([cnat(rk[i]) for i in o["ids"]]),
        clist([cpair(MG.coq_path(p), cfloat(unhex(v))) for p, v in o["pv"]]), inst))


def has_other_inst(i):
    if i["t"] == "other":
        return True
    if i["t"] == "tup":
        return any(has_other_inst(x) for x in i["vs"])
    if i["t"] in ("obj", "coll"):
        return any(has_other_inst(v) for _, v in i["fields"])
    return False


def coq_cfg(cfg):
    return "(mkcfg %s %s %s %s %s)" % tuple(common.cbool(cfg[k]) for k in ("fix_db_id", "fix_loggaussian", "fix_chain", "fix_falsy", "fix_instance"))


def coq_case(c, r, cfg):
    states, steps = r["states"], r["steps"]
    for o in states:
        if not printable(o["state"]):
            return None
    first = coq_obs(states[0])
    if first is None:
        return None
    items = []
    for k, st in enumerate(steps):
        form = FORMS[c["steps"][k]["form"]]
        if "exc" in st:
            if st["exc"] not in ERRS:
                return None
            items.append("(StepErr %s %s)" % (form, ERRS[st["exc"]]))
        else:
            o = coq_obs(states[k + 1])
            if o is None:
                return None
            items.append("(StepOk %s %s)" % (form, o))
    return "{| c_cfg := %s; c_init := %s; c_steps := %s |}" % (coq_cfg(cfg), first, clist(items))


# --------------------------------------------------------------------------------------
# array / modified-prior stream (oracle only)
# --------------------------------------------------------------------------------------
def gen_array_case(rng):
    def steps():
        out = []
        for _ in range(rng.choice([1, 1, 2])):
            form = rng.choice(["dict", "pickle", "db", "db"])
            out.append({"form": form, "variant": {"dict": rng.choice(["dict", "autoconf"]), "pickle": rng.choice(["pickle", "dill"]), "db": "fit"}[form]})
        return out
    if rng.random() < 0.2:
        return {"kind": "modified", "prior": {"family": "uniform", "lo": (0.0).hex(), "hi": (2.0).hex()}, "steps": steps()[:1]}
    fam = rng.choice(["uniform", "gaussian", "loguniform"])
    spec = {"uniform": {"family": "uniform", "lo": (0.0).hex(), "hi": (2.0).hex()},
            "gaussian": {"family": "gaussian", "mean": (0.5).hex(), "sigma": (0.25).hex(), "lo": (-1.0).hex(), "hi": (2.0).hex()},
            "loguniform": {"family": "loguniform", "lo": (0.5).hex(), "hi": (4.0).hex()}}[fam]
    entries = []
    if rng.random() < 0.6:          # heterogeneous: a fixed entry and/or an entry with a prior of its own
        if rng.random() < 0.7:
            entries.append([rng.randrange(1, 4), {"t": "const", "v": (rng.randint(-8, 8) / 4.0).hex()}])
        if rng.random() < 0.7:
            entries.append([rng.randrange(1, 4), {"t": "prior", "spec": {"family": "uniform", "lo": (-1.5).hex(), "hi": rng.uniform(0.1, 3).hex()}}])
    share = rng.random() < 0.4
    return {"kind": "array", "prior": spec, "shape": rng.choice([[2], [3], [2, 2], [1, 3]]), "share": share, "frozen": rng.random() < 0.34,
            "bare": (not share) and rng.random() < 0.25, "entries": entries, "steps": steps()}


def gen_removal_case(rng):
    n = rng.choice([3, 3, 4])
    kind = rng.choice(["middle", "middle", "trailing", "both", "first"])
    remove = {"middle": [rng.randrange(1, n - 1)], "trailing": [n - 1], "both": [1, n - 1], "first": [0]}[kind]
    steps = []
    for _ in range(rng.choice([1, 1, 2])):
        form = rng.choice(["dict", "db", "pickle"])
        steps.append({"form": form, "variant": {"dict": rng.choice(["dict", "autoconf", "file"]), "pickle": "pickle", "db": "fit"}[form]})
    return {"kind": "removal", "n": n, "remove": remove, "frozen": rng.random() < 0.3, "steps": steps}


def run_removal_oracle(ctx, c, r):
    ctx.count_case(c, True, kind="removal")
    ctx.oracle["cases"] += 1
    if "exc" in r:
        ctx.failure("oracle", "removal driver raised %s" % r.get("msg", "")[-300:], c)
        return
    r = r["ok"]
    fails = []
    prev = r["before"]
    trailing_only = max(c["remove"]) == c["n"] - 1         # the highest positional item was removed
    for k, st in enumerate(r["steps"]):
        form = c["steps"][k]["form"]
        if "exc" in st:
            fails.append("%s round trip (step %d) raised %s: %s" % (form, k + 1, st["exc"], st.get("msg")))
            break
        v = st["view"]
        if v["keys"] != prev["keys"] or v["count"] != prev["count"] or v["paths"] != prev["paths"]:
            fails.append("%s round trip (step %d): keys %s -> %s, prior_count %s -> %s" % (form, k + 1, prev["keys"], v["keys"], prev["count"], v["count"]))
        if v["item_number"] != prev["item_number"]:
            if trailing_only and form in ("dict", "db") and v["item_number"] == (max([int(x) for x in v["keys"] if x.isdigit()], default=-1) + 1):
                # not recoverable from the stored keys and without effect on the composition: an observable, see notes
                ctx.hist("item-number-after-trailing-removal", "%s: %s -> %s" % (form, prev["item_number"], v["item_number"]))
            else:
                fails.append("%s round trip (step %d): item_number %s -> %s (keys %s)" % (form, k + 1, prev["item_number"], v["item_number"], v["keys"]))
        prev = v
    aa = r.get("after_append")
    if aa is not None and not any(" raised " in f for f in fails):
        if "exc" in aa:
            fails.append("append after the reload raised %s: %s" % (aa["exc"], aa.get("msg")))
        else:
            o, l = aa["original"], aa["reloaded"]
            if o["count"] != l["count"] or len(o["keys"]) != len(l["keys"]):
                fails.append("after one append the reloaded collection has %d items / %d parameters, the original %d / %d (an item was overwritten)"
                             % (len(l["keys"]), l["count"], len(o["keys"]), o["count"]))
            elif o["keys"] != l["keys"]:
                if trailing_only and any(s["form"] in ("dict", "db") for s in c["steps"]):
                    ctx.hist("appended-key-after-trailing-removal", "%s vs %s" % (o["keys"][-1], l["keys"][-1]))
                else:
                    fails.append("after one append the keys differ: original %s, reloaded %s" % (o["keys"], l["keys"]))
    for msg in fails:
        ctx.oracle["failures"] += 1
        ctx.failure("oracle", "collection with removed items %s of %d: %s" % (c["remove"], c["n"], msg), c, impl=r)
    return not fails


def compare_arrays(prev, nxt):
    out = []
    if [p for p, _ in prev["path_ids"]] != [p for p, _ in nxt["path_ids"]]:
        out.append(("paths", "parameter paths changed: %s -> %s" % ([p for p, _ in prev["path_ids"]][:5], [p for p, _ in nxt["path_ids"]][:5])))
    else:
        fwd, bwd = {}, {}
        for (p, x), (_, y) in zip(prev["path_ids"], nxt["path_ids"]):
            if fwd.setdefault(x, y) != y or bwd.setdefault(y, x) != x:
                out.append(("partition", "sharing changed at %s" % ".".join(p)))
                break
    if prev["count"] != nxt["count"]:
        out.append(("partition", "prior_count %d -> %d" % (prev["count"], nxt["count"])))
    if prev["specs"] != nxt["specs"]:
        out.append(("spec", "prior specifications changed: %s -> %s" % (prev["specs"][:3], nxt["specs"][:3])))
    ba, bb = arith_blind(prev["state"]), arith_blind(nxt["state"])
    if ba != bb:
        where = first_diff(ba, bb) or ()
        shape = [(n.get("shape"), n.get("indices")) for n in (ba, bb)] if ba.get("shape") else None
        out.append(("array-structure", "the array model changed at %s: %s" % (".".join(where), json.dumps([ba, bb])[:300])))
    for key in ("inst", "medians"):
        x, y = prev[key], nxt[key]
        if "ok" in x and ("ok" not in y or not same_inst(x["ok"], y["ok"])):
            out.append(("array-instance", "%s: %s -> %s" % (key, str(x.get("ok"))[:120], y.get("exc") or str(y.get("ok"))[:120])))
    return out


def only_int_float(a, b):
    """Do the two array models differ in nothing but int-versus-float inside shape / indices?"""
    import ast

    def norm(x):
        if isinstance(x, bool):
            return x
        if isinstance(x, (int, float)):
            return float(x)
        if isinstance(x, tuple):
            return ("tuple",) + tuple(norm(y) for y in x)
        if isinstance(x, list):
            return ["list"] + [norm(y) for y in x]
        return x

    def strip(n):
        n = json.loads(json.dumps(n))

        def go(m):
            if isinstance(m, dict):
                for key in ("shape", "indices"):
                    if isinstance(m.get(key), str):
                        try:
                            m[key] = repr(norm(ast.literal_eval(m[key])))
                        except Exception:  # noqa
                            pass
                for v in m.values():
                    go(v)
            elif isinstance(m, list):
                for v in m:
                    go(v)
        go(n)
        return n
    return strip(arith_blind(a)) == strip(arith_blind(b))


def array_shapes(state):
    out = []
    if state["t"] == "array":
        out.append((state["shape"], state["indices"]))
    for _, v in kids(state):
        out += array_shapes(v)
    return out


# --------------------------------------------------------------------------------------
def run(ctx):
    ctx.rule = ("C01 composition programs (uniform / gaussian with finite and infinite limits / log-uniform / log-gaussian priors, "
                "dyadic and non-dyadic limits) extended with Prior.new() and with_limits() copies, prior-passed top-level components "
                "(reassigned ids), components without free parameters (with tuples / extra attributes), dict-valued constants incl. "
                "falsy values, constants that are not floats (None, str, tuple, list, int, plain instance), 0-2 (rarely 11-12) assertions (simple, "
                "chained, on arithmetic expressions) x a sequence of 1-3 round trips mixed from dict (model.dict / autoconf to_dict / JSON "
                "file / from_dict with a reference dict of class paths), pickle (pickle / dill) and database (Fit(model=) commit + fresh "
                "session); about a third of the models are FROZEN (after queries, as a fit does) before the trips: no trip may fail because "
                "of that, and a second reload must be unfreezable and modifiable (attributes, tuple members); plus af.Array models (heterogeneous entries, shared entries, bare or inside a Collection, 1-2 trips) and unary "
                "derived parameters; fixed corpus cases first. "
                "Non-trivial: >= 2 priors and one of {shared prior, nesting, tuple, arithmetic, constant, copy, passing, assertion, "
                "zero-prior component}. Distinct = distinct (program, decorations, trip sequence). Every trip is one evaluation.")
    ctx.rule += H.RULE
    ctx.trusted = [
        "Coq 8.16.1 kernel incl. vm_compute; primitive floats",
        "harness abstraction of live objects (impl/c08_impl.py raw __dict__ walk; message id read as `prior.id_`), compared with the tree the program denotes",
        "ids and message ids are compared up to a strictly monotone renumbering (rank among all numbers of a state)",
        "json / pickle / dill / SQLAlchemy+SQLite themselves",
    ]
    ctx.assumptions = ["dict keys of one model level are distinct", "every prior used in an assertion occurs in the model tree",
                       "attributes of a Model are stored constructor arguments first (as the composition API leaves them)"]
    built = ctx.build()
    n = 170 if ctx.tier == "quick" else 1300
    cases = []
    corpus = os.path.join(common.VERIF, "corpus", "C08")
    pinned = {}            # index of a corpus case -> its file name
    if os.path.isdir(corpus):
        for f in sorted(os.listdir(corpus)):
            if f.endswith(".json"):
                pinned[len(cases)] = f
                cases.append(json.load(open(os.path.join(corpus, f))))
    guard = 0
    while len(cases) < n and guard < 20 * n:
        guard += 1
        c = gen_case(ctx)
        if not (1 <= len(c["program"]["pool"]) <= 30) or not refs_in(c["program"]["root"]):
            continue
        cases.append(c)
    for _ in range(24 if ctx.tier == "quick" else 160):
        cases.append(gen_array_case(ctx.rng))
    for _ in range(16 if ctx.tier == "quick" else 100):
        cases.append(gen_removal_case(ctx.rng))
    cases += H.gen_cases(ctx)
    if ctx.replay:
        rp = json.load(open(ctx.replay))
        if rp.get("case"):
            cases = [rp["case"]]
    # which of the modelled repairs does this tree contain (the theorems hold for every configuration)
    pr = common.run_impl("c08_impl", {"cases": [{"kind": "probe"}]}, timeout=300)
    cfg = (pr.get("results") or [{}])[0].get("ok")
    ctx.obligation("translator:cfg-probe", "translator", isinstance(cfg, dict) and len(cfg) == 6, json.dumps(pr)[-300:])
    if not isinstance(cfg, dict):
        return
    ctx.notes["code_configuration"] = cfg
    ctx.obligation("harness:dill-available", "harness", bool(cfg.get("dill")), "the dill variant of the pickle form would silently fall back to pickle")
    # a repair recorded as fixed must still be present: the model follows the probed code, so a reverted
    # repair would not disagree with it -- this obligation (and the oracle on the corpus findings) is what reports it
    FLAG = {"db-prior-id-read-through-message": "fix_db_id", "dict-loggaussian-no-mean-sigma": "fix_loggaussian",
            "db-chained-assertion": "fix_chain", "dict-branch-drops-falsy-values": "fix_falsy",
            "dict-zero-prior-model-as-instance": "fix_instance"}
    for k in common.load_known("C08"):
        if k.get("status") == "fixed" and k.get("signature") in FLAG:
            ok = bool(cfg.get(FLAG[k["signature"]]))
            ctx.obligation("cfg-is-fixed:" + FLAG[k["signature"]], "translator", ok,
                           "" if ok else "repair %s (%s) is no longer present in the tree" % (k.get("commit"), k["signature"]))
    chunks = [ch for ch in (cases[i::common.NCPU] for i in range(common.NCPU)) if ch]
    outs = common.run_impl_parallel("c08_impl", [{"cases": ch} for ch in chunks], timeout=1500)
    results = [None] * len(cases)
    for ci, o in enumerate(outs):
        if "__error__" in o:
            ctx.obligation("impl-driver", "harness", False, o["__error__"][-800:])
            return
        for j, r in enumerate(o["results"]):
            results[ci + j * common.NCPU] = r
    coq_cases, coq_idx = [], []
    fixed_sigs = {k["signature"]: k for k in common.load_known("C08") if k.get("status") == "fixed"}
    REPAIRED = {"finding-db-message-id.json": "db-prior-id-read-through-message", "finding-db-chained-assertion.json": "db-chained-assertion",
                "finding-dict-loggaussian.json": "dict-loggaussian-no-mean-sigma", "finding-dict-falsy-constant.json": "dict-branch-drops-falsy-values",
                "finding-dict-array.json": "dict-array-not-registered", "finding-array-db-int-shape.json": "array-db-int-shape",
                "finding-db-int-as-float.json": "db-int-as-float", "finding-db-collection-item-number.json": "db-collection-item-number",
                "finding-dict-zero-prior-instance.json": "dict-zero-prior-model-as-instance", "finding-modified-prior.json": "modified-prior-not-storable",
                "finding-reload-item-number-after-removal-dict.json": "reload-item-number-after-removal",
                "finding-reload-item-number-after-removal-db.json": "reload-item-number-after-removal"}
    for i, (c, r) in enumerate(zip(cases, results)):
        before = len(ctx.violations) + sum(h["count"] for h in ctx.known_hits.values())
        if c.get("kind") == "history":
            H.oracle(ctx, c, r, cfg, coq_cases, coq_idx, i)
            continue
        try:
            if c.get("kind") == "removal":
                run_removal_oracle(ctx, c, r)
                continue
            if c.get("kind") in ("array", "modified"):
                run_array_oracle(ctx, c, r)
                continue
        finally:
            if c.get("kind") in ("array", "modified", "removal") and pinned.get(i) in REPAIRED and REPAIRED[pinned[i]] in fixed_sigs and not ctx.replay:
                after = len(ctx.violations) + sum(h["count"] for h in ctx.known_hits.values())
                ctx.obligation("regression:" + REPAIRED[pinned[i]], "regression", after == before,
                               "" if after == before else "the pinned case of a repaired finding fails again (%s)" % fixed_sigs[REPAIRED[pinned[i]]].get("commit"))
        prog = c["program"]
        feats = case_features(c)
        nontrivial = len(set(refs_in(prog["root"]))) >= 2 and bool(
            feats & {"shared", "nested", "tuple", "arith", "const", "new", "with_limits", "passed", "assert", "zeroprior"})
        for f in feats:
            ctx.hist("feature", f)
        if c.get("frozen"):
            ctx.hist("feature", "frozen")
        ctx.hist("trips", "+".join(s["form"] for s in c["steps"]))
        if "exc" in r:
            ctx.count_case(c, nontrivial)
            ctx.failure("oracle", "building the model raised %s: %s" % (r["exc"], r.get("msg", "")[-400:]), c)
            continue
        r = r["ok"]
        passed_refs = set()
        for k in c["passed"]:
            passed_refs |= set(refs_in(dict(prog["root"]["items"])[k]))
        if not same_expected(prog["root"], r["states"][0]["state"], c, r["pool_ids"], passed_refs):
            ctx.count_case(c, nontrivial)
            ctx.failure("correspondence", "the composition API built a different object graph than the program denotes", c,
                        impl=r["states"][0]["state"], broken={"kind": "correspondence", "name": "two-sided abstraction"})
            continue
        # ---- oracle: every trip, previous state -> next state
        oracle_failed = False
        for k, st in enumerate(r["steps"]):
            form = c["steps"][k]["form"]
            key = {"program": prog, "passed": c["passed"], "dicts": c["dicts"], "asserts": c["asserts"], "steps": c["steps"][:k + 1],
                   "frozen": bool(c.get("frozen"))}
            ctx.count_case(key, nontrivial, kind=form)
            ctx.oracle["cases"] += 1
            sub = dict(c, steps=c["steps"][:k + 1])
            if "exc" in st:
                clause = "exception:" + st["exc"]
                ctx.hist("trip-exception", st["exc"])
                ctx.oracle["failures"] += 1
                oracle_failed = True
                ctx.failure("oracle", "%s round trip (step %d) raised %s: %s" % (form, k + 1, st["exc"], st.get("msg", "")),
                            sub, classes=classes_for(c, k, clause), impl=st)
                break
            ctx.hist("frozen-flag", "%s: %s -> %s" % (form, "frozen" if st.get("frozen_before") else "thawed", "frozen" if st.get("frozen_after") else "thawed"))
            if c.get("frozen"):
                th = st.get("thaw") or {}
                if "exc" in th:
                    ctx.oracle["failures"] += 1
                    oracle_failed = True
                    ctx.failure("oracle", "%s round trip (step %d) [thaw]: the model reloaded from a frozen model cannot be unfrozen and modified: %s: %s"
                                % (form, k + 1, th["exc"], th.get("msg")), sub, classes=classes_for(c, k, "thaw"), impl=th)
            for clause, msg, where in compare_states(r["states"][k], r["states"][k + 1], form, st):
                ctx.oracle["failures"] += 1
                oracle_failed = True
                ctx.failure("oracle", "%s round trip (step %d) [%s]: %s" % (form, k + 1, clause, msg), sub,
                            classes=classes_for(c, k, clause, where), impl={"before": r["states"][k]["state"], "after": r["states"][k + 1]["state"]})
        if pinned.get(i) in REPAIRED and REPAIRED[pinned[i]] in fixed_sigs and not ctx.replay:
            ctx.obligation("regression:" + REPAIRED[pinned[i]], "regression", not oracle_failed,
                           "" if not oracle_failed else "the pinned case of a repaired finding fails again (%s)" % fixed_sigs[REPAIRED[pinned[i]]].get("commit"))
        cc = coq_case(c, r, cfg)
        if cc is None:
            ctx.hist("correspondence", "not-printable")
            for st in r["steps"]:
                if "exc" in st and st["exc"] not in ERRS:
                    ctx.hist("not-printable-exception", st["exc"])
        else:
            coq_cases.append(cc)
            coq_idx.append((i, oracle_failed))
            ctx.hist("correspondence", "compared")
            js_ = json.dumps(r["states"][0]["state"])
            for lab_, pat_ in (("KUn neg in the tree / EUn neg in an assertion", '"op": "neg"'), ("KUn abs / EUn abs", '"op": "abs"'),
                               ("KBin OMod / EBin OMod", '"op": "%"'), ("KBin OFloorDiv / EBin OFloorDiv", '"op": "//"')):
                if pat_ in js_:
                    for st_ in c["steps"]:
                        ctx.hist("correspondence:unary-features", "%s x %s" % (lab_, st_["form"]))
        if i % 30 == 0:
            ctx.sample({"features": sorted(feats), "n_priors": len(prog["pool"]), "trips": [s["form"] for s in c["steps"]],
                        "outcomes": ["ok" if "ok" in s else s["exc"] for s in r["steps"]], "paths": r["states"][0]["paths"][:5]})
    ctx.notes["item_number_after_trailing_removal"] = {
        "statement": "when the HIGHEST positional item was removed before the trip, the original's counter cannot be recovered from the stored keys: "
                     "dict and database reloads give (highest remaining key + 1); no composition changes at reload and append stays collision-free, "
                     "but the key (hence the paths) of an item appended afterwards differs from the original's; observed, not required",
        "item_number": dict(ctx.distribution.get("item-number-after-trailing-removal", {})),
        "appended_key original vs reloaded": dict(ctx.distribution.get("appended-key-after-trailing-removal", {}))}
    # observable, not a requirement of C08 (the property is about composition): which forms keep the frozen flag
    ctx.notes["frozen_flag_across_a_trip (form: before -> after: trips)"] = dict(ctx.distribution.get("frozen-flag", {}))
    if os.path.exists(os.path.join(common.COQ, "C08", "Model.vo")):
        hdr = ctx.header(["Common.PyFloat", "Model"]).replace(
            "From PAFC08 Require Import Model.", "From PAFC01 Require Import ModelTree.\nFrom PAFC08 Require Import Model.")
        bad, log = ctx.eval_cases(hdr, "case", "check_case", coq_cases, shard=25)
        for b in (bad or [])[:5]:
            i, of = coq_idx[b]
            ctx.failure("correspondence", "Coq codec model and implementation disagree on a round trip", cases[i],
                        impl=results[i]["ok"], broken={"kind": "correspondence", "name": "C08.check_case"}, found_input=of)
    else:
        ctx.obligation("correspondence:cases", "correspondence", False, "Model.vo not built")


def run_array_oracle(ctx, c, r):
    if "exc" in r:
        ctx.count_case(c, True, kind=c["kind"])
        ctx.failure("oracle", "array driver raised %s" % r.get("msg", "")[-300:], c)
        return
    r = r["ok"]
    if c["kind"] == "modified":
        form = c["steps"][0]["form"]
        ctx.count_case(c, True, kind="modified:" + form)
        ctx.oracle["cases"] += 1
        classes = []
        if "exc" in r["steps"][0]:
            ctx.oracle["failures"] += 1
            ctx.failure("oracle", "modified model: %s round trip raised %s" % (form, r["steps"][0]["exc"]), c, classes=classes, impl=r)
        elif "ok" not in r["inst"][1] or not same_inst(r["inst"][0]["ok"], r["inst"][1]["ok"]):
            ctx.oracle["failures"] += 1
            ctx.failure("oracle", "modified model: instance differs after %s round trip" % form, c, classes=classes, impl=r)
        elif r["count"][0] != r["count"][1] or r["paths"][0] != r["paths"][1]:
            ctx.oracle["failures"] += 1
            ctx.failure("oracle", "modified model: prior_count / paths changed", c, classes=classes, impl=r)
        return
    for k, st in enumerate(r["steps"]):
        form = c["steps"][k]["form"]
        sub = dict(c, steps=c["steps"][:k + 1])
        ctx.count_case(sub, True, kind="array:" + form)
        ctx.oracle["cases"] += 1
        forms = [x["form"] for x in c["steps"][:k + 1]]
        if "exc" in st:
            ctx.oracle["failures"] += 1
            classes = []
            ctx.failure("oracle", "array model: %s round trip (step %d) raised %s: %s" % (form, k + 1, st["exc"], st.get("msg")), sub,
                        classes=classes, impl=st)
            break
        for clause, msg in compare_arrays(r["states"][k], r["states"][k + 1]):
            classes = []
            ctx.oracle["failures"] += 1
            ctx.failure("oracle", "array model: %s round trip (step %d) [%s]: %s" % (form, k + 1, clause, msg), sub, classes=classes,
                        impl={"before": r["states"][k], "after": r["states"][k + 1]})
