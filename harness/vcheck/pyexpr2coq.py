"""Fail-closed leaf-formula translator: Python expression AST -> Gallina (DESIGN.md 2.1).

Each expression is addressed by (file, qualified function, selector) and emitted in two
modes: "F" (PrimFloat, bit-exact binary64; ints are Z) and "Q" (exact rationals; ints are Z).
Anything outside the supported fragment raises TranslationError (the check then reports
the translator obligation as broken).
"""
import ast
import os
import random
from fractions import Fraction
from types import SimpleNamespace


class TranslationError(Exception):
    pass


def parse_file(repo, rel):
    path = os.path.join(repo, rel)
    with open(path) as f:
        src = f.read()
    return ast.parse(src), src


def find_function(tree, qualname):
    parts = qualname.split(".")
    node = tree
    for p in parts:
        found = None
        for ch in ast.iter_child_nodes(node):
            if isinstance(ch, (ast.FunctionDef, ast.ClassDef, ast.AsyncFunctionDef)) and ch.name == p:
                found = ch
                break
        if found is None:
            raise TranslationError("cannot find %s (at %s)" % (qualname, p))
        node = found
    return node


def returns(fn):
    out = [n for n in ast.walk(fn) if isinstance(n, ast.Return) and n.value is not None]
    out.sort(key=lambda n: (n.lineno, n.col_offset))
    return out


def assigns(fn, target):
    """Assignments (incl. augmented) to `target` (a Name id or dotted attribute) in source order."""
    out = []
    for n in ast.walk(fn):
        if isinstance(n, ast.Assign) and len(n.targets) == 1 and _dotted(n.targets[0]) == target:
            out.append(n)
        elif isinstance(n, ast.AugAssign) and _dotted(n.target) == target:
            out.append(n)
        elif isinstance(n, ast.AnnAssign) and n.value is not None and _dotted(n.target) == target:
            out.append(n)
    out.sort(key=lambda n: (n.lineno, n.col_offset))
    return out


def calls(fn, name):
    out = [n for n in ast.walk(fn) if isinstance(n, ast.Call) and _dotted(n.func) == name]
    out.sort(key=lambda n: (n.lineno, n.col_offset))
    return out


def nodes(fn, typ):
    out = [n for n in ast.walk(fn) if isinstance(n, typ)]
    out.sort(key=lambda n: (n.lineno, n.col_offset))
    return out


def _dotted(node):
    if isinstance(node, ast.Name):
        return node.id
    if isinstance(node, ast.Attribute):
        b = _dotted(node.value)
        return None if b is None else b + "." + node.attr
    return None


def ident_of(dotted):
    parts = dotted.split(".")
    if parts[0] == "self" and len(parts) > 1:
        parts = parts[1:]
    return "_".join(parts)


class Tr:
    def __init__(self, mode, types, renames=None):
        self.mode = mode
        self.types = types          # coq ident -> 'int'|'float'|'bool'
        self.renames = renames or {}
        self.used = {}              # coq ident -> python dotted access
        self.oracles = set()

    # -- helpers -----------------------------------------------------
    def to_float(self, t, ty):
        if ty == "float":
            return t
        if ty == "int":
            return "(Z2F %s)" % t if self.mode == "F" else "(inject_Z %s)" % t
        raise TranslationError("cannot use %s as a number" % ty)

    def scope(self):
        return "%float" if self.mode == "F" else "%Q"

    def var(self, dotted):
        ident = self.renames.get(dotted, ident_of(dotted))
        if ident not in self.types:
            raise TranslationError("free variable %s (%s) has no declared type" % (dotted, ident))
        self.used[ident] = dotted
        return ident, self.types[ident]

    # -- expressions -------------------------------------------------
    def tr(self, n):
        m = getattr(self, "tr_" + type(n).__name__, None)
        if m is None:
            raise TranslationError("unsupported syntax %s" % type(n).__name__)
        return m(n)

    def tr_Constant(self, n):
        v = n.value
        if isinstance(v, bool):
            return ("true" if v else "false"), "bool"
        if isinstance(v, int):
            return "(%d)%%Z" % v, "int"
        if isinstance(v, float):
            if self.mode == "F":
                h = v.hex()
                return ("(-%s)%%float" % h[1:] if h.startswith("-") else "%s%%float" % h), "float"
            f = Fraction(repr(v))
            return "(Qmake (%d) %d)" % (f.numerator, f.denominator), "float"
        raise TranslationError("unsupported constant %r" % (v,))

    def tr_Name(self, n):
        return self.var(n.id)

    def tr_Attribute(self, n):
        d = _dotted(n)
        if d is None:
            raise TranslationError("unsupported attribute base")
        return self.var(d)

    def tr_Subscript(self, n):
        d = _dotted(n.value)
        idx = n.slice
        if d is None or not (isinstance(idx, ast.Constant) and isinstance(idx.value, int)):
            raise TranslationError("unsupported subscript")
        return self.var("%s.%d" % (d, idx.value))

    def tr_UnaryOp(self, n):
        t, ty = self.tr(n.operand)
        if isinstance(n.op, ast.USub):
            if ty == "int":
                return "(- %s)%%Z" % t, "int"
            if ty == "float":
                return ("(PrimFloat.opp %s)" % t if self.mode == "F" else "(Qopp %s)" % t), "float"
        if isinstance(n.op, ast.UAdd) and ty in ("int", "float"):
            return t, ty
        if isinstance(n.op, ast.Not) and ty == "bool":
            return "(negb %s)" % t, "bool"
        raise TranslationError("unsupported unary op")

    def tr_BinOp(self, n):
        a, ta = self.tr(n.left)
        b, tb = self.tr(n.right)
        if ta not in ("int", "float") or tb not in ("int", "float"):
            raise TranslationError("arithmetic on non-numbers")
        op = type(n.op).__name__
        both_int = ta == "int" and tb == "int"
        if op in ("Add", "Sub", "Mult"):
            sym = {"Add": "+", "Sub": "-", "Mult": "*"}[op]
            if both_int:
                return "(%s %s %s)%%Z" % (a, sym, b), "int"
            return "(%s %s %s)%s" % (self.to_float(a, ta), sym, self.to_float(b, tb), self.scope()), "float"
        if op == "Div":
            return "(%s / %s)%s" % (self.to_float(a, ta), self.to_float(b, tb), self.scope()), "float"
        if op == "FloorDiv" and both_int:
            return "(%s / %s)%%Z" % (a, b), "int"
        if op == "Mod" and both_int:
            return "(%s mod %s)%%Z" % (a, b), "int"
        if op == "Pow":
            if both_int and isinstance(n.right, ast.Constant) and n.right.value >= 0:
                return "(%s ^ %s)%%Z" % (a, b), "int"
            if isinstance(n.right, ast.Constant) and n.right.value == 2:
                fa = self.to_float(a, ta)
                return "(%s * %s)%s" % (fa, fa, self.scope()), "float"
            self.oracles.add("pow")
            return "(pow_oracle %s %s)" % (self.to_float(a, ta), self.to_float(b, tb)), "float"
        raise TranslationError("unsupported binary op %s" % op)

    def cmp(self, op, a, ta, b, tb):
        name = type(op).__name__
        if ta == "int" and tb == "int":
            f = {"Lt": "(%s <? %s)%%Z", "LtE": "(%s <=? %s)%%Z", "Eq": "(%s =? %s)%%Z",
                 "Gt": "(%s >? %s)%%Z", "GtE": "(%s >=? %s)%%Z", "NotEq": "(negb (%s =? %s)%%Z)"}.get(name)
            if f is None:
                raise TranslationError("unsupported comparison")
            return f % (a, b)
        if ta == "bool" or tb == "bool":
            raise TranslationError("comparison of booleans")
        a, b = self.to_float(a, ta), self.to_float(b, tb)
        if self.mode == "F":
            f = {"Lt": "(PrimFloat.ltb %s %s)", "LtE": "(PrimFloat.leb %s %s)", "Eq": "(PrimFloat.eqb %s %s)",
                 "NotEq": "(negb (PrimFloat.eqb %s %s))"}
            if name in f:
                return f[name] % (a, b)
            if name == "Gt":
                return "(PrimFloat.ltb %s %s)" % (b, a)
            if name == "GtE":
                return "(PrimFloat.leb %s %s)" % (b, a)
        else:
            f = {"Lt": "(Qlt_bool %s %s)", "LtE": "(Qle_bool %s %s)", "Eq": "(Qeq_bool %s %s)",
                 "NotEq": "(negb (Qeq_bool %s %s))"}
            if name in f:
                return f[name] % (a, b)
            if name == "Gt":
                return "(Qlt_bool %s %s)" % (b, a)
            if name == "GtE":
                return "(Qle_bool %s %s)" % (b, a)
        raise TranslationError("unsupported comparison %s" % name)

    def tr_Compare(self, n):
        items = [self.tr(n.left)] + [self.tr(c) for c in n.comparators]
        parts = []
        for i, op in enumerate(n.ops):
            (a, ta), (b, tb) = items[i], items[i + 1]
            parts.append(self.cmp(op, a, ta, b, tb))
        t = parts[0]
        for p in parts[1:]:
            t = "(%s && %s)" % (t, p)
        return t, "bool"

    def tr_BoolOp(self, n):
        vals = [self.tr(v) for v in n.values]
        if any(ty != "bool" for _, ty in vals):
            raise TranslationError("and/or on non-booleans")
        sym = "&&" if isinstance(n.op, ast.And) else "||"
        t = vals[0][0]
        for v, _ in vals[1:]:
            t = "(%s %s %s)" % (t, sym, v)
        return t, "bool"

    def tr_IfExp(self, n):
        c, tc = self.tr(n.test)
        a, ta = self.tr(n.body)
        b, tb = self.tr(n.orelse)
        if tc != "bool":
            raise TranslationError("condition is not boolean")
        if ta != tb:
            if {ta, tb} == {"int", "float"}:
                a, b = self.to_float(a, ta), self.to_float(b, tb)
                ta = "float"
            else:
                raise TranslationError("branches of different type")
        return "(if %s then %s else %s)" % (c, a, b), ta

    def tr_Call(self, n):
        f = _dotted(n.func)
        if n.keywords:
            raise TranslationError("keyword arguments in call")
        args = n.args
        if f == "int" and len(args) == 1:
            a, ta = self.tr(args[0])
            if ta == "int":
                return a, "int"
            if ta == "float":
                return ("(ftruncZ %s)" % a if self.mode == "F" else "(Qtrunc %s)" % a), "int"
        if f == "float" and len(args) == 1:
            if isinstance(args[0], ast.Constant) and isinstance(args[0].value, str):
                s = args[0].value.strip().lower()
                if self.mode == "F" and s in ("inf", "+inf", "infinity"):
                    return "infinity", "float"
                if self.mode == "F" and s in ("-inf", "-infinity"):
                    return "neg_infinity", "float"
                raise TranslationError("float(%r) not representable in mode %s" % (s, self.mode))
            a, ta = self.tr(args[0])
            return self.to_float(a, ta), "float"
        if f == "abs" and len(args) == 1:
            a, ta = self.tr(args[0])
            if ta == "int":
                return "(Z.abs %s)" % a, "int"
            if ta == "float":
                return ("(PrimFloat.abs %s)" % a if self.mode == "F" else "(Qabs %s)" % a), "float"
        if f in ("min", "max") and len(args) == 2:
            a, ta = self.tr(args[0])
            b, tb = self.tr(args[1])
            if ta == "int" and tb == "int":
                return "(Z.%s %s %s)" % (f, a, b), "int"
            a, b = self.to_float(a, ta), self.to_float(b, tb)
            return ("(f%s %s %s)" % (f, a, b) if self.mode == "F" else "(Q%s %s %s)" % (f, a, b)), "float"
        if f == "round" and len(args) == 1:
            a, ta = self.tr(args[0])
            if ta == "int":
                return a, "int"
            return ("(froundZ %s)" % a if self.mode == "F" else "(Qround_half_even %s)" % a), "int"
        if f == "round" and len(args) == 2 and isinstance(args[1], ast.Constant):
            a, ta = self.tr(args[0])
            self.oracles.add("round%d" % args[1].value)
            return "(round%d_oracle %s)" % (args[1].value, self.to_float(a, ta)), "float"
        if f == "len" and len(args) == 1:
            d = _dotted(args[0])
            if d is None:
                raise TranslationError("len of a non-variable")
            return self.var("len." + d) if False else self.var_len(d)
        if f in ("np.sqrt", "math.sqrt") and len(args) == 1 and self.mode == "F":
            a, ta = self.tr(args[0])
            return "(PrimFloat.sqrt %s)" % self.to_float(a, ta), "float"
        raise TranslationError("unsupported call %s/%d" % (f, len(args)))

    def var_len(self, d):
        ident = "len_" + ident_of(d)
        if ident not in self.types:
            raise TranslationError("len(%s) has no declared type" % d)
        self.used[ident] = "len(%s)" % d
        return ident, "int"


COQ_TYPES = {"F": {"int": "Z", "float": "float", "bool": "bool"},
             "Q": {"int": "Z", "float": "Q", "bool": "bool"}}


class Spec:
    """One expression to translate."""

    def __init__(self, name, file, func, select, params, result=None, renames=None, doc=""):
        self.name = name          # Coq base name
        self.file = file
        self.func = func
        self.select = select      # callable(function_ast) -> expr node
        self.params = params      # ordered list of (coq ident, type)
        self.result = result      # expected result type or None
        self.renames = renames or {}
        self.doc = doc


def translate_spec(repo, spec, cache):
    if spec.file not in cache:
        cache[spec.file] = parse_file(repo, spec.file)
    tree, src = cache[spec.file]
    fn = find_function(tree, spec.func)
    try:
        node = spec.select(fn)
    except TranslationError:
        raise
    except Exception as e:  # selector did not find its statement
        raise TranslationError("selector failed for %s in %s:%s (%s: %s)" % (spec.name, spec.file, spec.func, type(e).__name__, e))
    if isinstance(node, (ast.Assign, ast.AnnAssign, ast.Return)):
        node = node.value
    if node is None or not isinstance(node, ast.expr):
        raise TranslationError("selector for %s returned no expression" % spec.name)
    text = ast.get_source_segment(src, node)
    out = {"source": " ".join(text.split()), "line": node.lineno, "defs": {}, "oracles": set(), "node": node}
    types = dict(spec.params)
    for mode in ("F", "Q"):
        tr = Tr(mode, types, spec.renames)
        try:
            term, ty = tr.tr(node)
        except TranslationError as e:
            if mode == "Q":
                # Q flavour is optional (e.g. float("inf")); the F flavour is the faithful one
                out["defs"]["Q"] = None
                continue
            raise TranslationError("%s: %s [%s:%s line %d: %s]" % (spec.name, e, spec.file, spec.func, node.lineno, out["source"]))
        if spec.result and ty != spec.result:
            if spec.result == "float" and ty == "int":
                term, ty = tr.to_float(term, ty), "float"
            else:
                raise TranslationError("%s: expected %s got %s" % (spec.name, spec.result, ty))
        ct = COQ_TYPES[mode]
        oracle_params = ""
        for o in sorted(tr.oracles):
            nargs = 2 if o == "pow" else 1
            oracle_params += " (%s_oracle : %s)" % (o, " -> ".join([ct["float"]] * (nargs + 1)))
        params = "".join(" (%s : %s)" % (p, ct[t]) for p, t in spec.params)
        out["defs"][mode] = "Definition %s_%s%s%s : %s :=\n  %s." % (spec.name, mode, oracle_params, params, ct[ty], term)
        out["oracles"] |= tr.oracles
        out["used"] = dict(tr.used)
        out["type"] = ty
    return out


def generate(repo, specs, outfile, module_doc=""):
    """Translate all specs; write Gen.v. Returns {name: info}. Raises TranslationError."""
    cache = {}
    infos = {}
    lines = [
        "(* GENERATED by harness/vcheck/pyexpr2coq.py from %s -- do not edit. *)" % repo,
        "(* %s *)" % module_doc,
        "From Coq Require Import ZArith QArith Qabs Bool.",
        "From Coq Require Import Floats.PrimFloat.",
        "From PAFCommon Require Import PyFloat PyNum.",
        "",
    ]
    for s in specs:
        info = translate_spec(repo, s, cache)
        infos[s.name] = info
        lines.append("(* %s:%s line %d%s\n     %s *)" % (s.file, s.func, info["line"], (" -- " + s.doc) if s.doc else "",
                                                      info["source"].replace("(*", "( *").replace("*)", "* )")))
        for mode in ("F", "Q"):
            if info["defs"].get(mode):
                lines.append(info["defs"][mode])
        lines.append("")
    text = "\n".join(lines)
    old = None
    if os.path.exists(outfile):
        old = open(outfile).read()
    if old != text:
        with open(outfile, "w") as f:
            f.write(text)
    return infos


def selftest_cases(spec, info, rng, n, gens):
    """Random argument tuples and the Python value of the *source expression* on them.
    gens: {coq ident: callable(rng) -> python value}. Returns list of (args dict, value)."""
    code = compile(ast.Expression(info["node"]), "<expr>", "eval")
    res = []
    for _ in range(n):
        vals = {p: gens[p](rng) for p, _ in spec.params}
        env = {}
        for ident, dotted in info.get("used", {}).items():
            if dotted.startswith("len("):
                _assign(env, dotted[4:-1], [None] * vals[ident])
            else:
                _assign(env, dotted, vals[ident])
        try:
            v = eval(code, {"__builtins__": {"int": int, "float": float, "abs": abs, "min": min, "max": max, "round": round, "len": len}}, env)
        except Exception as e:
            v = ("exc", type(e).__name__)
        res.append((vals, v))
    return res


def _assign(env, dotted, value):
    parts = dotted.split(".")
    if len(parts) == 1:
        env[parts[0]] = value
        return
    obj = env.setdefault(parts[0], SimpleNamespace())
    for p in parts[1:-1]:
        if not hasattr(obj, p):
            setattr(obj, p, SimpleNamespace())
        obj = getattr(obj, p)
    last = parts[-1]
    if last.isdigit():
        raise TranslationError("selftest does not support subscripts")
    setattr(obj, last, value)
